// C24 — Cluster linearizations are topological and never get worse.
//
// VX-ENUM, exhaustive over a stated bounded space:
//   * every transitively-closed dependency relation ("poset") on n nodes whose edges go from a lower to a higher
//     node id (every labelled DAG is isomorphic to one of these), n = 1..4 (quick) / 1..6 (thorough),
//     in up to three position layouts of the real DepGraph (natural, flipped = parents have the higher index,
//     hole = one unused position left behind by RemoveTransactions);
//   * every assignment of (fee,size) from a small alphabet to the nodes;
//   * Linearize() with: no input / every topological order as input (claimed topological and not) / non-topological
//     permutations (is_topological=false), 2 rng seeds, and for selected inputs EVERY distinguishable value of the
//     max_cost budget (enumerated by b' = returned_cost+1 until the run is no longer cut), else {0, C/2, infinity};
//   * PostLinearize() and ChunkLinearization()/ChunkLinearizationInfo()/CompareChunks() on every topological order.
//
// Oracle = brute force over all topological orders with an independent diagram implementation (upper concave hull of
// the prefix sums, compared in __int128), never CompareChunks itself (that one is cross-checked against it).
#include <vx/vx.h>

#include <cluster_linearize.h>
#include <util/bitset.h>
#include <util/feefrac.h>

#include <array>
#include <compare>
#include <optional>

using namespace cluster_linearize;
using SetT = BitSet<64>; // what TxGraph uses (MAX_CLUSTER_COUNT_LIMIT)
typedef __int128 i128;

static constexpr int MAXN = 6;
static constexpr int MAXP = MAXN + 1; // positions (one possible hole)

// ------------------------------------------------------------------ reference diagram (independent of feefrac.cpp)
struct Pt { int64_t x; int64_t y; };
struct Hull {
    int k = 0;
    Pt p[MAXP + 1];
};
// upper concave hull of prefix sums of `order` (positions), collinear points dropped
static Hull hull_of(const uint8_t* order, int n, const int64_t* fee, const int32_t* size)
{
    Hull h;
    h.p[h.k++] = Pt{0, 0};
    int64_t x = 0, y = 0;
    for (int i = 0; i < n; i++) {
        x += size[order[i]];
        y += fee[order[i]];
        Pt c{x, y};
        while (h.k >= 2) {
            const Pt& a = h.p[h.k - 2];
            const Pt& b = h.p[h.k - 1];
            // b is on or below segment a->c  <=>  (b.y-a.y)*(c.x-a.x) <= (c.y-a.y)*(b.x-a.x)
            i128 l = (i128)(b.y - a.y) * (c.x - a.x), r = (i128)(c.y - a.y) * (b.x - a.x);
            if (l <= r) h.k--; else break;
        }
        h.p[h.k++] = c;
    }
    return h;
}
// compare value of hull a at abscissa x with y: returns sign(a(x) - y)
static int hull_cmp_at(const Hull& a, int64_t x, int64_t y)
{
    for (int i = 0; i + 1 < a.k; i++) {
        if (x >= a.p[i].x && x <= a.p[i + 1].x) {
            int64_t dx = a.p[i + 1].x - a.p[i].x;
            i128 lhs = (i128)a.p[i].y * dx + (i128)(a.p[i + 1].y - a.p[i].y) * (x - a.p[i].x);
            i128 rhs = (i128)y * dx;
            return lhs < rhs ? -1 : lhs > rhs ? 1 : 0;
        }
    }
    return -2; // x outside (never for equal total size)
}
// a >= b everywhere (both concave piecewise linear on the same interval): enough to test at b's vertices
static bool hull_geq(const Hull& a, const Hull& b)
{
    for (int i = 0; i < b.k; i++) {
        int c = hull_cmp_at(a, b.p[i].x, b.p[i].y);
        if (c < 0) return false;
    }
    return true;
}
static i128 hull_area2(const Hull& h)
{
    i128 s = 0;
    for (int i = 0; i + 1 < h.k; i++) s += (i128)(h.p[i + 1].x - h.p[i].x) * ((i128)h.p[i].y + h.p[i + 1].y);
    return s;
}
static std::partial_ordering ref_compare(const Hull& a, const Hull& b)
{
    bool ge = hull_geq(a, b), le = hull_geq(b, a);
    if (ge && le) return std::partial_ordering::equivalent;
    if (ge) return std::partial_ordering::greater;
    if (le) return std::partial_ordering::less;
    return std::partial_ordering::unordered;
}
static const char* po_str(std::partial_ordering o)
{
    if (o == std::partial_ordering::equivalent) return "equal";
    if (o == std::partial_ordering::greater) return "greater";
    if (o == std::partial_ordering::less) return "less";
    return "unordered";
}

// ------------------------------------------------------------------ the enumerated space
struct Poset {
    int n;
    uint8_t anc[MAXN];   // closure in node space, incl. self
    uint32_t edges;      // representative edge mask (bit index pair_index(i,j), i<j : i is a parent of j)
};
static int pair_index(int i, int j) { return j * (j - 1) / 2 + i; } // i<j
static std::vector<Poset> g_posets[MAXN + 1];
static uint64_t g_edge_sets[MAXN + 1];

static void closure_of(int n, uint32_t edges, uint8_t* anc)
{
    for (int j = 0; j < n; j++) {
        anc[j] = (uint8_t)(1u << j);
        for (int i = 0; i < j; i++)
            if (edges >> pair_index(i, j) & 1) anc[j] |= anc[i]; // anc[i] final because i<j
    }
}

struct FeeSize { int64_t fee; int32_t size; };
static const std::vector<FeeSize> ALPHA_BASE = {{0, 1}, {1, 1}, {3, 1}, {0, 2}, {1, 2}, {3, 2}};
static std::vector<FeeSize> make_ext()
{
    std::vector<FeeSize> v;
    for (int64_t f : {(int64_t)-1, (int64_t)0, (int64_t)1, (int64_t)3, (int64_t)1 << 40})
        for (int32_t s : {1, 2, 1 << 20}) v.push_back({f, s});
    return v;
}
static const std::vector<FeeSize> ALPHA_EXT = make_ext();
static const std::vector<FeeSize> ALPHA_TINY = {{0, 1}, {1, 1}, {3, 2}};
static const std::vector<FeeSize> ALPHA_Q5 = {{0, 1}, {0, 2}, {3, 1}, {1, 2}};

enum Variant { NATURAL = 0, FLIPPED = 1, HOLE = 2 };

// How much Linearize() work per cluster
struct Plan {
    const char* name;
    int n;
    const std::vector<FeeSize>* alpha;
    std::vector<int> variants;
    bool topo_inputs_all;      // every topological order as input (else: first, worst, best)
    bool topo_inputs_unclaimed;// also with is_topological=false
    int nontopo_inputs;        // 0 none, 1 reversed orders of the selected topological inputs, 2 all non-topological permutations
    bool allcuts_selected;     // all budget cut points for {no input, worst topological input, first non-topological input}
    int seeds;
};

struct Stats {
    uint64_t clusters = 0, nontrivial = 0, lin_calls = 0, post_calls = 0, chunk_calls = 0, cmp_calls = 0, depgraph_checks = 0;
    uint64_t optimal = 0, nonoptimal = 0, nonoptimal_worse = 0, improved_input = 0, post_improved = 0, cmp_unordered = 0, budget_cuts = 0;
    uint64_t max_orders = 0;
    void add(const Stats& o)
    {
        clusters += o.clusters; nontrivial += o.nontrivial; lin_calls += o.lin_calls; post_calls += o.post_calls;
        chunk_calls += o.chunk_calls; cmp_calls += o.cmp_calls; depgraph_checks += o.depgraph_checks;
        optimal += o.optimal; nonoptimal += o.nonoptimal; nonoptimal_worse += o.nonoptimal_worse;
        improved_input += o.improved_input; post_improved += o.post_improved; cmp_unordered += o.cmp_unordered;
        budget_cuts += o.budget_cuts; max_orders = std::max(max_orders, o.max_orders);
    }
};

static std::atomic<int> g_oracle_errors{0};
static std::mutex g_kind_mu;
static std::map<std::string, int> g_kind_count;

struct Cluster {
    int n = 0;
    int variant = 0;
    int range = 0;          // PositionRange
    int pos[MAXN];          // node -> position
    uint8_t ancP[MAXP];     // closure in position space (bit = position), 0 for unused positions
    uint8_t used = 0;       // mask of used positions
    int64_t fee[MAXP];
    int32_t size[MAXP];
    const Poset* ps = nullptr;

    std::string desc() const
    {
        std::ostringstream o;
        o << "n=" << n << " variant=" << variant << " edges=" << ps->edges << " fs=";
        for (int i = 0; i < n; i++) o << (i ? "," : "") << fee[pos[i]] << "/" << size[pos[i]];
        o << " deps(parent>child, positions)=";
        bool first = true;
        for (int p = 0; p < range; p++)
            for (int a = 0; a < range; a++)
                if (a != p && (ancP[p] >> a & 1)) { o << (first ? "" : ",") << a << ">" << p; first = false; }
        return o.str();
    }
};

static std::string order_str(const uint8_t* o, int n)
{
    std::string s = "[";
    for (int i = 0; i < n; i++) { if (i) s += ' '; s += std::to_string((int)o[i]); }
    return s + "]";
}
static std::string lin_str(std::span<const DepGraphIndex> l)
{
    std::string s = "[";
    for (size_t i = 0; i < l.size(); i++) { if (i) s += ' '; s += std::to_string(l[i]); }
    return s + "]";
}

static void report(const Cluster& c, const std::string& kind, const std::string& what)
{
    {
        std::lock_guard<std::mutex> l(g_kind_mu);
        if (++g_kind_count[kind] > 3) return; // keep the output bounded; every kind is still reported
    }
    std::ostringstream r;
    r << "n " << c.n << "\nvariant " << c.variant << "\nedges " << c.ps->edges << "\nfees";
    for (int i = 0; i < c.n; i++) r << ' ' << c.fee[c.pos[i]];
    r << "\nsizes";
    for (int i = 0; i < c.n; i++) r << ' ' << c.size[c.pos[i]];
    r << "\n# " << c.desc() << "\n# " << what;
    vx::violation(kind + " " + c.desc(), what, r.str());
}

static bool make_cluster(Cluster& c, const Poset& ps, int variant, const FeeSize* fs)
{
    c.n = ps.n;
    c.variant = variant;
    c.ps = &ps;
    int n = ps.n;
    const int hole = 1;
    if (variant == HOLE && n < 2) return false;
    if (variant == FLIPPED && n < 2) return false;
    c.range = variant == HOLE ? n + 1 : n;
    for (int i = 0; i < n; i++) {
        if (variant == NATURAL) c.pos[i] = i;
        else if (variant == FLIPPED) c.pos[i] = n - 1 - i;
        else c.pos[i] = i < hole ? i : i + 1;
    }
    memset(c.ancP, 0, sizeof c.ancP);
    c.used = 0;
    for (int p = 0; p < MAXP; p++) { c.fee[p] = 0; c.size[p] = 0; }
    for (int i = 0; i < n; i++) {
        uint8_t m = 0;
        for (int j = 0; j < n; j++) if (ps.anc[i] >> j & 1) m |= (uint8_t)(1u << c.pos[j]);
        c.ancP[c.pos[i]] = m;
        c.used |= (uint8_t)(1u << c.pos[i]);
        c.fee[c.pos[i]] = fs[i].fee;
        c.size[c.pos[i]] = fs[i].size;
    }
    return true;
}

// Drives the real DepGraph API: AddTransaction per position, AddDependencies per child with its direct parents,
// RemoveTransactions for the hole.
static DepGraph<SetT> build_depgraph(const Cluster& c, bool descending = false)
{
    DepGraph<SetT> dg;
    std::array<int, MAXP> node_at;
    node_at.fill(-1);
    for (int i = 0; i < c.n; i++) node_at[c.pos[i]] = i;
    for (int p = 0; p < c.range; p++) {
        if (node_at[p] >= 0) dg.AddTransaction(FeeFrac{c.fee[p], c.size[p]});
        else dg.AddTransaction(FeeFrac{7, 3});
    }
    // ascending: a child gets its parents before it has descendants; descending: after (both paths of AddDependencies)
    for (int jj = 0; jj < c.n; jj++) {
        int j = descending ? c.n - 1 - jj : jj;
        SetT parents;
        for (int i = 0; i < j; i++) if (c.ps->edges >> pair_index(i, j) & 1) parents.Set(c.pos[i]);
        if (parents.Any()) dg.AddDependencies(parents, c.pos[j]);
    }
    if (c.variant == HOLE) {
        for (int p = 0; p < c.range; p++) if (node_at[p] < 0) dg.RemoveTransactions(SetT::Singleton(p));
    }
    return dg;
}

static uint8_t mask_of(const SetT& s)
{
    uint8_t m = 0;
    for (auto i : s) { if (i < 8) m |= (uint8_t)(1u << i); else m |= 0x80; }
    return m;
}

static bool is_topo_perm(const Cluster& c, std::span<const DepGraphIndex> lin)
{
    if ((int)lin.size() != c.n) return false;
    uint8_t done = 0;
    for (auto p : lin) {
        if (p >= (unsigned)c.range || !(c.used >> p & 1) || (done >> p & 1)) return false;
        if ((c.ancP[p] & ~done) != (1u << p)) return false;
        done |= (uint8_t)(1u << p);
    }
    return done == c.used;
}

static bool ref_connected(const Cluster& c, uint8_t set)
{
    if (!set) return true;
    uint8_t comp = (uint8_t)(set & -set);
    for (;;) {
        uint8_t nxt = comp;
        for (int p = 0; p < c.range; p++) {
            if (!(set >> p & 1)) continue;
            // p joins if it is an ancestor or descendant of a member
            for (int q = 0; q < c.range; q++) {
                if (!(comp >> q & 1)) continue;
                if ((c.ancP[p] >> q & 1) || (c.ancP[q] >> p & 1)) nxt |= (uint8_t)(1u << p);
            }
        }
        if (nxt == comp) break;
        comp = nxt;
    }
    return comp == set;
}

static Hull hull_of_lin(const Cluster& c, std::span<const DepGraphIndex> lin)
{
    uint8_t o[MAXP];
    for (size_t i = 0; i < lin.size(); i++) o[i] = (uint8_t)lin[i];
    return hull_of(o, (int)lin.size(), c.fee, c.size);
}

// Real ChunkLinearization / ChunkLinearizationInfo on `lin` (a topological permutation) against the reference hull:
// feerates non-increasing, every chunk boundary is a prefix point on the hull, every hull vertex is a boundary,
// Info agrees with the feerate-only version, chunks are consecutive runs of lin. Optionally: every chunk connected.
static bool check_chunking(const Cluster& c, const DepGraph<SetT>& dg, std::span<const DepGraphIndex> lin, const Hull& h,
                           bool want_connected, const char* ctx, Stats& st, std::vector<FeeFrac>* out_chunks = nullptr)
{
    st.chunk_calls++;
    auto chunks = ChunkLinearization(dg, lin);
    auto info = ChunkLinearizationInfo(dg, lin);
    bool ok = true;
    auto fail = [&](const std::string& kind, const std::string& w) {
        ok = false;
        report(c, kind, std::string(ctx) + " lin=" + lin_str(lin) + " " + w);
    };
    if (chunks.size() != info.size()) fail("chunking-info-mismatch", "ChunkLinearization and ChunkLinearizationInfo differ in chunk count");
    size_t idx = 0;
    int64_t x = 0, y = 0;
    int hv = 1; // next hull vertex to be met
    for (size_t k = 0; k < chunks.size() && ok; k++) {
        const FeeFrac& f = chunks[k];
        if (f.size <= 0) { fail("chunking-empty-chunk", "chunk with size<=0"); break; }
        if (k < info.size()) {
            if (!(info[k].feerate == f)) fail("chunking-info-mismatch", "Info feerate differs");
            // chunk k must be the next Count() entries of lin
            uint8_t want = 0;
            int64_t fs = 0, ss = 0;
            unsigned cnt = info[k].transactions.Count();
            for (unsigned t = 0; t < cnt && idx < lin.size(); t++, idx++) { want |= (uint8_t)(1u << lin[idx]); fs += c.fee[lin[idx]]; ss += c.size[lin[idx]]; }
            if (mask_of(info[k].transactions) != want) fail("chunking-not-consecutive", "chunk set is not the next run of the linearization");
            else if (fs != f.fee || ss != f.size) fail("chunking-feerate-sum", "chunk feerate is not the sum of its transactions");
            if (want_connected && ok && !ref_connected(c, want)) fail("chunk-disconnected", "chunk #" + std::to_string(k) + " is not connected");
        }
        if (k > 0) {
            // non-increasing feerate: f.fee/f.size <= prev.fee/prev.size
            const FeeFrac& pr = chunks[k - 1];
            if ((i128)f.fee * pr.size > (i128)pr.fee * f.size) fail("chunk-feerate-increasing", "chunk #" + std::to_string(k) + " has higher feerate than its predecessor");
        }
        x += f.size;
        y += f.fee;
        if (hull_cmp_at(h, x, y) != 0) fail("chunk-boundary-off-diagram", "cumulative chunk point (" + std::to_string(x) + "," + std::to_string(y) + ") is not on the concave hull of the prefix sums");
        if (hv < h.k && h.p[hv].x == x) hv++;
        else if (hv < h.k && h.p[hv].x < x) fail("chunk-misses-hull-vertex", "hull vertex at size " + std::to_string(h.p[hv].x) + " is not a chunk boundary");
    }
    if (ok && (hv != h.k || idx != lin.size())) fail("chunking-incomplete", "chunks do not cover the linearization");
    if (out_chunks) *out_chunks = std::move(chunks);
    return ok;
}

struct Ord {
    std::array<uint8_t, MAXN> o;
    Hull h;
};

static void enum_topo(const Cluster& c, std::vector<Ord>& out)
{
    std::array<uint8_t, MAXN> cur{};
    std::function<void(int, uint8_t)> rec = [&](int depth, uint8_t done) {
        if (depth == c.n) {
            Ord od;
            od.o = cur;
            od.h = hull_of(cur.data(), c.n, c.fee, c.size);
            out.push_back(od);
            return;
        }
        for (int p = 0; p < c.range; p++) {
            if (!(c.used >> p & 1) || (done >> p & 1)) continue;
            if ((c.ancP[p] & ~done) != (1u << p)) continue;
            cur[depth] = (uint8_t)p;
            rec(depth + 1, (uint8_t)(done | (1u << p)));
        }
    };
    rec(0, 0);
}

struct LinResult { bool ok; bool optimal; uint64_t cost; };

// One real Linearize() call + the node's PostLinearize() on its result, with all oracle checks.
static LinResult check_linearize(const Cluster& c, const DepGraph<SetT>& dg, const Hull& best, std::span<const DepGraphIndex> input,
                                 bool input_is_topo, bool claim_topo, uint64_t seed, uint64_t budget, Stats& st)
{
    st.lin_calls++;
    auto [lin, optimal, cost] = Linearize(dg, budget, seed, IndexTxOrder{}, input, claim_topo);
    auto ctx = [&] {
        return "Linearize(max_cost=" + std::to_string(budget) + ", seed=" + std::to_string(seed) + ", input=" + (input.empty() ? std::string("none") : lin_str(input)) +
               ", is_topological=" + (claim_topo ? "true" : "false") + ") -> " + lin_str(lin) + " optimal=" + (optimal ? "true" : "false") + " cost=" + std::to_string(cost);
    };
    if (!is_topo_perm(c, lin)) {
        report(c, "linearize-not-topological", ctx() + " : result is not a topologically valid permutation of the cluster");
        return {false, optimal, cost};
    }
    Hull h = hull_of_lin(c, lin);
    bool ok = true;
    if (!input.empty() && input_is_topo) {
        Hull hi = hull_of_lin(c, input);
        if (!hull_geq(h, hi)) { report(c, "linearize-worse-than-input", ctx() + " : output diagram is not >= the input diagram everywhere"); ok = false; }
        else if (!hull_geq(hi, h)) st.improved_input++;
    }
    if (optimal) {
        st.optimal++;
        if (!hull_geq(h, best)) { report(c, "optimal-flag-but-not-optimal", ctx() + " : reported optimal but some topological order has a better diagram"); ok = false; }
    } else {
        st.nonoptimal++;
        if (!hull_geq(h, best)) st.nonoptimal_worse++;
    }
    std::string cs = ctx();
    if (!check_chunking(c, dg, lin, h, /*want_connected=*/false, cs.c_str(), st)) ok = false;
    // what the node does next (GenericClusterImpl::Relinearize): PostLinearize, then use that order.
    std::vector<DepGraphIndex> post = lin;
    PostLinearize(dg, std::span<DepGraphIndex>(post));
    st.post_calls++;
    if (!is_topo_perm(c, post)) {
        report(c, "postlinearize-not-topological", cs + " then PostLinearize -> " + lin_str(post) + " : not a topologically valid permutation");
        return {false, optimal, cost};
    }
    Hull hp = hull_of_lin(c, post);
    if (!hull_geq(hp, h)) { report(c, "postlinearize-worse", cs + " then PostLinearize -> " + lin_str(post) + " : diagram got worse"); ok = false; }
    std::string cs2 = cs + " then PostLinearize";
    if (!check_chunking(c, dg, post, hp, /*want_connected=*/true, cs2.c_str(), st)) ok = false;
    return {ok, optimal, cost};
}

static const uint64_t INF_COST = 1000000000ULL;

static void linearize_budgets(const Cluster& c, const DepGraph<SetT>& dg, const Hull& best, std::span<const DepGraphIndex> input,
                              bool input_is_topo, bool claim_topo, uint64_t seed, bool allcuts, Stats& st)
{
    LinResult inf = check_linearize(c, dg, best, input, input_is_topo, claim_topo, seed, INF_COST, st);
    if (!inf.ok) return;
    if (!inf.optimal) {
        // not part of the property, but the optimal clause would be vacuous: count as harness-level anomaly
        report(c, "unbounded-budget-not-optimal", "Linearize with max_cost=1e9 did not report optimal (cost=" + std::to_string(inf.cost) + ")");
        return;
    }
    if (allcuts) {
        uint64_t b = 0;
        for (int guard = 0; guard < 10000; guard++) {
            LinResult r = check_linearize(c, dg, best, input, input_is_topo, claim_topo, seed, b, st);
            st.budget_cuts++;
            if (!r.ok) return;
            if (r.optimal && r.cost >= inf.cost) break; // no longer cut: same as the unbounded run
            if (r.cost + 1 <= b) break;                 // cannot happen (cost >= budget when cut); avoid looping
            // budget exactly equal to the cost reached (boundary of the `cost < max_cost` tests) ...
            if (r.cost != b && !check_linearize(c, dg, best, input, input_is_topo, claim_topo, seed, r.cost, st).ok) return;
            b = r.cost + 1; // ... and the first budget that lets the run go one check further
        }
    } else {
        check_linearize(c, dg, best, input, input_is_topo, claim_topo, seed, 0, st);
        check_linearize(c, dg, best, input, input_is_topo, claim_topo, seed, inf.cost / 2 + inf.cost / 4, st);
    }
}

static void check_cluster(const Cluster& c, const Plan& plan, Stats& st)
{
    st.clusters++;
    DepGraph<SetT> dg = build_depgraph(c, /*descending=*/c.variant == FLIPPED);

    // --- DepGraph answers vs the transitive closure
    st.depgraph_checks++;
    {
        bool ok = dg.TxCount() == (unsigned)c.n && mask_of(dg.Positions()) == c.used && dg.PositionRange() == (unsigned)c.range;
        if (!ok) report(c, "depgraph-positions", "TxCount/Positions/PositionRange wrong");
        for (int p = 0; p < c.range && ok; p++) {
            if (!(c.used >> p & 1)) continue;
            uint8_t desc = 0;
            for (int q = 0; q < c.range; q++) if (c.ancP[q] >> p & 1) desc |= (uint8_t)(1u << q);
            if (mask_of(dg.Ancestors(p)) != c.ancP[p]) { report(c, "depgraph-ancestors", "Ancestors(" + std::to_string(p) + ") != transitive closure"); ok = false; }
            if (mask_of(dg.Descendants(p)) != desc) { report(c, "depgraph-descendants", "Descendants(" + std::to_string(p) + ") != transitive closure"); ok = false; }
            // transitive reduction (unique for a DAG)
            uint8_t redp = 0, redc = 0;
            for (int q = 0; q < c.range; q++) {
                if (q == p) continue;
                if (c.ancP[p] >> q & 1) { // q ancestor of p: direct iff no r strictly between
                    bool between = false;
                    for (int r = 0; r < c.range; r++) if (r != p && r != q && (c.ancP[p] >> r & 1) && (c.ancP[r] >> q & 1)) between = true;
                    if (!between) redp |= (uint8_t)(1u << q);
                }
                if (c.ancP[q] >> p & 1) {
                    bool between = false;
                    for (int r = 0; r < c.range; r++) if (r != p && r != q && (c.ancP[q] >> r & 1) && (c.ancP[r] >> p & 1)) between = true;
                    if (!between) redc |= (uint8_t)(1u << q);
                }
            }
            if (mask_of(dg.GetReducedParents(p)) != redp) { report(c, "depgraph-reduced-parents", "GetReducedParents(" + std::to_string(p) + ") != transitive reduction"); ok = false; }
            if (mask_of(dg.GetReducedChildren(p)) != redc) { report(c, "depgraph-reduced-children", "GetReducedChildren(" + std::to_string(p) + ") != transitive reduction"); ok = false; }
            if (!(dg.FeeRate(p) == FeeFrac{c.fee[p], c.size[p]})) { report(c, "depgraph-feerate", "FeeRate(" + std::to_string(p) + ") wrong"); ok = false; }
        }
        if (ok && dg.IsConnected() != ref_connected(c, c.used)) { report(c, "depgraph-connected", "IsConnected() differs from reference"); ok = false; }
        if (!ok) return;
    }

    // --- brute force: all topological orders and the best diagram
    std::vector<Ord> ords;
    enum_topo(c, ords);
    st.max_orders = std::max<uint64_t>(st.max_orders, ords.size());
    size_t best_i = 0, worst_i = 0;
    {
        i128 ba = hull_area2(ords[0].h), wa = ba;
        for (size_t i = 1; i < ords.size(); i++) {
            i128 a = hull_area2(ords[i].h);
            if (a > ba) { ba = a; best_i = i; }
            if (a < wa) { wa = a; worst_i = i; }
        }
    }
    const Hull& best = ords[best_i].h;
    bool nontrivial = false;
    for (auto& od : ords) {
        if (!hull_geq(best, od.h)) {
            // theory: an order dominating all others exists. If not, the ORACLE is wrong, not the code.
            if (g_oracle_errors.fetch_add(1) == 0) printf("HARNESS-ERROR oracle: no dominating topological order for %s\n", c.desc().c_str());
            return;
        }
        if (!hull_geq(od.h, best)) nontrivial = true;
    }
    if (nontrivial) st.nontrivial++;

    // --- per topological order: chunking, CompareChunks, PostLinearize
    std::vector<std::vector<DepGraphIndex>> lins(ords.size());
    std::vector<std::vector<FeeFrac>> chunkings(ords.size());
    for (size_t i = 0; i < ords.size(); i++) {
        lins[i].assign(ords[i].o.begin(), ords[i].o.begin() + c.n);
        if (!check_chunking(c, dg, lins[i], ords[i].h, false, "ChunkLinearization", st, &chunkings[i])) return;
    }
    for (size_t i = 0; i < ords.size(); i++) {
        size_t others[2] = {best_i, (i + 1) % ords.size()};
        for (size_t j : others) {
            for (int dir = 0; dir < 2; dir++) {
                size_t a = dir ? j : i, b = dir ? i : j;
                st.cmp_calls++;
                auto got = CompareChunks(chunkings[a], chunkings[b]);
                auto want = ref_compare(ords[a].h, ords[b].h);
                if (want == std::partial_ordering::unordered) st.cmp_unordered++;
                if (got != want) {
                    report(c, "comparechunks-mismatch", "CompareChunks(chunks of " + order_str(ords[a].o.data(), c.n) + ", chunks of " + order_str(ords[b].o.data(), c.n) + ") = " + po_str(got) + ", reference diagram comparison = " + po_str(want));
                    return;
                }
            }
        }
        // PostLinearize on this order, twice
        std::vector<DepGraphIndex> post = lins[i];
        PostLinearize(dg, std::span<DepGraphIndex>(post));
        st.post_calls++;
        std::string ctx = "PostLinearize(" + lin_str(lins[i]) + ")";
        if (!is_topo_perm(c, post)) { report(c, "postlinearize-not-topological", ctx + " -> " + lin_str(post) + " : not a topologically valid permutation"); return; }
        Hull hp = hull_of_lin(c, post);
        if (!hull_geq(hp, ords[i].h)) { report(c, "postlinearize-worse", ctx + " -> " + lin_str(post) + " : diagram got worse"); return; }
        if (!hull_geq(ords[i].h, hp)) st.post_improved++;
        if (!check_chunking(c, dg, post, hp, true, ctx.c_str(), st)) return;
        std::vector<DepGraphIndex> post2 = post;
        PostLinearize(dg, std::span<DepGraphIndex>(post2));
        st.post_calls++;
        if (!is_topo_perm(c, post2)) { report(c, "postlinearize-not-topological", "second " + ctx + " -> " + lin_str(post2) + " : not a topologically valid permutation"); return; }
        Hull hp2 = hull_of_lin(c, post2);
        if (!hull_geq(hp2, hp)) { report(c, "postlinearize-worse", "second " + ctx + " -> " + lin_str(post2) + " : diagram got worse"); return; }
        if (!check_chunking(c, dg, post2, hp2, true, ("second " + ctx).c_str(), st)) return;
    }

    // --- Linearize
    // selected topological inputs
    std::vector<size_t> sel;
    if (plan.topo_inputs_all) { for (size_t i = 0; i < ords.size(); i++) sel.push_back(i); }
    else { sel.push_back(0); if (worst_i != 0) sel.push_back(worst_i); if (best_i != 0 && best_i != worst_i) sel.push_back(best_i); if (ords.size() - 1 != 0 && ords.size() - 1 != worst_i && ords.size() - 1 != best_i) sel.push_back(ords.size() - 1); }
    // non-topological inputs
    std::vector<std::vector<DepGraphIndex>> nontopo;
    if (plan.nontopo_inputs == 2) {
        std::vector<DepGraphIndex> perm;
        for (int p = 0; p < c.range; p++) if (c.used >> p & 1) perm.push_back(p);
        do { if (!is_topo_perm(c, perm)) nontopo.push_back(perm); } while (std::next_permutation(perm.begin(), perm.end()));
    } else if (plan.nontopo_inputs == 1) {
        for (size_t i : sel) {
            std::vector<DepGraphIndex> r(lins[i].rbegin(), lins[i].rend());
            if (!is_topo_perm(c, r) && std::find(nontopo.begin(), nontopo.end(), r) == nontopo.end()) nontopo.push_back(r);
        }
    }
    for (int s = 0; s < plan.seeds; s++) {
        uint64_t seed = s == 0 ? 0 : 0x9E3779B97F4A7C15ULL * (uint64_t)s + 12345;
        linearize_budgets(c, dg, best, {}, false, true, seed, plan.allcuts_selected, st);
        for (size_t i : sel) {
            bool ac = plan.allcuts_selected && i == worst_i;
            linearize_budgets(c, dg, best, lins[i], true, true, seed, ac, st);
            if (plan.topo_inputs_unclaimed) linearize_budgets(c, dg, best, lins[i], true, false, seed, false, st);
        }
        for (size_t k = 0; k < nontopo.size(); k++) {
            linearize_budgets(c, dg, best, nontopo[k], false, false, seed, plan.allcuts_selected && k == 0, st);
        }
    }
}

static void build_posets(int maxn)
{
    for (int n = 1; n <= maxn; n++) {
        int npairs = n * (n - 1) / 2;
        std::map<std::array<uint8_t, MAXN>, uint32_t> seen;
        for (uint32_t e = 0; e < (1u << npairs); e++) {
            std::array<uint8_t, MAXN> a{};
            closure_of(n, e, a.data());
            seen.emplace(a, e); // keeps the smallest edge mask as representative
        }
        g_edge_sets[n] = 1ull << npairs;
        for (auto& [a, e] : seen) {
            Poset p;
            p.n = n;
            memcpy(p.anc, a.data(), MAXN);
            p.edges = e;
            g_posets[n].push_back(p);
        }
    }
}

// every edge subset (not only one representative per closure) through AddDependencies, in both layouts
static void check_all_edge_sets(int maxn, Stats& st)
{
    for (int n = 2; n <= maxn; n++) {
        int npairs = n * (n - 1) / 2;
        std::vector<FeeSize> fs(n, FeeSize{1, 1});
        vx::par_for(1ull << npairs, 256, [&](uint64_t lo, uint64_t hi, unsigned) {
            Stats loc;
            for (uint64_t e = lo; e < hi; e++) {
                Poset p;
                p.n = n;
                p.edges = (uint32_t)e;
                closure_of(n, (uint32_t)e, p.anc);
                for (int variant : {NATURAL, FLIPPED, HOLE}) {
                    Cluster c;
                    if (!make_cluster(c, p, variant, fs.data())) continue;
                  for (int descending = 0; descending < 2; descending++) {
                    DepGraph<SetT> dg = build_depgraph(c, descending);
                    loc.depgraph_checks++;
                    for (int q = 0; q < c.range; q++) {
                        if (!(c.used >> q & 1)) continue;
                        uint8_t desc = 0;
                        for (int r = 0; r < c.range; r++) if (c.ancP[r] >> q & 1) desc |= (uint8_t)(1u << r);
                        if (mask_of(dg.Ancestors(q)) != c.ancP[q] || mask_of(dg.Descendants(q)) != desc) {
                            report(c, "depgraph-closure", "Ancestors/Descendants(" + std::to_string(q) + ") != transitive closure of the added dependencies");
                            break;
                        }
                    }
                    if (!dg.IsAcyclic()) report(c, "depgraph-acyclic", "IsAcyclic() false for a DAG");
                  }
                }
            }
            static std::mutex mu;
            std::lock_guard<std::mutex> l(mu);
            st.add(loc);
        });
    }
}

static uint64_t ipow(uint64_t a, int n) { uint64_t r = 1; while (n--) r *= a; return r; }

static int run_replay()
{
    std::ifstream f(vx::ctx().replay);
    std::string line;
    int n = 0, variant = 0;
    uint32_t edges = 0;
    std::vector<int64_t> fees, sizes;
    while (std::getline(f, line)) {
        if (line.empty() || line[0] == '#') continue;
        std::istringstream is(line);
        std::string k;
        is >> k;
        if (k == "n") is >> n;
        else if (k == "variant") is >> variant;
        else if (k == "edges") is >> edges;
        else if (k == "fees") { int64_t v; while (is >> v) fees.push_back(v); }
        else if (k == "sizes") { int64_t v; while (is >> v) sizes.push_back(v); }
    }
    if (n < 1 || n > MAXN || (int)fees.size() != n || (int)sizes.size() != n) { printf("HARNESS-ERROR bad replay file\n"); return 2; }
    Poset p;
    p.n = n;
    p.edges = edges;
    closure_of(n, edges, p.anc);
    std::vector<FeeSize> fs;
    for (int i = 0; i < n; i++) fs.push_back({fees[i], (int32_t)sizes[i]});
    Cluster c;
    if (!make_cluster(c, p, variant, fs.data())) { printf("HARNESS-ERROR bad replay variant\n"); return 2; }
    Plan plan{"replay", n, nullptr, {variant}, true, true, n <= 5 ? 2 : 1, true, 2};
    Stats st;
    printf("replaying cluster %s\n", c.desc().c_str());
    check_cluster(c, plan, st);
    printf("replay done: linearize calls=%" PRIu64 " violations=%d\n", st.lin_calls, vx::rep().violations);
    return vx::finish();
}

int main(int argc, char** argv)
{
    vx::init(argc, argv, "C24", "exploration");
    auto& E = vx::ev();
    const bool big = vx::thorough();
    const int maxn = big ? 6 : 5;
    build_posets(MAXN);
    if (!vx::ctx().replay.empty()) return run_replay();

    std::vector<Plan> plans;
    if (!big) {
        for (int n = 1; n <= 3; n++) plans.push_back({"ext", n, &ALPHA_EXT, {NATURAL, FLIPPED}, true, true, 2, true, 2});
        for (int n = 2; n <= 3; n++) plans.push_back({"base", n, &ALPHA_BASE, {HOLE}, true, true, 2, true, 2});
        plans.push_back({"base", 4, &ALPHA_BASE, {NATURAL, FLIPPED}, true, false, 1, true, 2});
        plans.push_back({"tiny", 4, &ALPHA_TINY, {HOLE}, true, false, 1, true, 1});
        plans.push_back({"q5", 5, &ALPHA_Q5, {NATURAL}, false, false, 1, true, 1});
    } else {
        for (int n = 1; n <= 3; n++) plans.push_back({"ext", n, &ALPHA_EXT, {NATURAL, FLIPPED, HOLE}, true, true, 2, true, 2});
        plans.push_back({"base", 4, &ALPHA_BASE, {NATURAL, FLIPPED, HOLE}, true, true, 2, true, 2});
        plans.push_back({"ext", 4, &ALPHA_EXT, {NATURAL}, false, false, 1, true, 1});
        plans.push_back({"base", 5, &ALPHA_BASE, {NATURAL, FLIPPED}, false, false, 1, true, 2});
        plans.push_back({"tiny", 6, &ALPHA_TINY, {NATURAL}, false, false, 1, false, 1});
    }

    Stats total;
    std::mutex mu;
    check_all_edge_sets(maxn, total);

    std::string plan_desc;
    bool complete = true;
    for (const Plan& plan : plans) {
        if (vx::deadline_reached()) { complete = false; break; }
        const auto& posets = g_posets[plan.n];
        const uint64_t A = plan.alpha->size();
        const uint64_t combos = ipow(A, plan.n);
        const uint64_t per_variant = posets.size() * combos;
        const uint64_t N = per_variant * plan.variants.size();
        std::atomic<bool> cut{false};
        Stats ps;
        double t0 = vx::elapsed();
        vx::par_for(N, 64, [&](uint64_t lo, uint64_t hi, unsigned) {
            if (cut.load() || vx::deadline_reached()) { cut = true; return; }
            Stats loc;
            for (uint64_t idx = lo; idx < hi; idx++) {
                int variant = plan.variants[idx / per_variant];
                uint64_t r = idx % per_variant;
                const Poset& p = posets[r / combos];
                uint64_t fi = r % combos;
                FeeSize fs[MAXN];
                for (int i = 0; i < plan.n; i++) { fs[i] = (*plan.alpha)[fi % A]; fi /= A; }
                Cluster c;
                if (!make_cluster(c, p, variant, fs)) continue;
                check_cluster(c, plan, loc);
            }
            std::lock_guard<std::mutex> l(mu);
            ps.add(loc);
        });
        if (cut) { complete = false; printf("plan n=%d/%s cut by deadline\n", plan.n, plan.name); break; }
        total.add(ps);
        char buf[400];
        snprintf(buf, sizeof buf, "n=%d alphabet=%s(%d) posets=%zu variants=%zu clusters=%" PRIu64 " linearize=%" PRIu64 " postlinearize=%" PRIu64 " max_topo_orders=%" PRIu64,
                 plan.n, plan.name, (int)A, posets.size(), plan.variants.size(), ps.clusters, ps.lin_calls, ps.post_calls, ps.max_orders);
        printf("%s  (%.1fs)\n", buf, vx::elapsed() - t0);
        plan_desc += std::string(buf) + "; ";
        E.sample(buf);
    }

    E.evaluations = total.lin_calls + total.post_calls + total.chunk_calls + total.cmp_calls + total.depgraph_checks;
    E.distinct_nontrivial = total.nontrivial;
    E.exhaustive = complete;
    E.set("clusters", total.clusters);
    E.set("linearize_calls", total.lin_calls);
    E.set("postlinearize_calls", total.post_calls);
    E.set("chunking_calls", total.chunk_calls);
    E.set("comparechunks_calls", total.cmp_calls);
    E.set("depgraph_checks", total.depgraph_checks);
    E.set("optimal_results", total.optimal);
    E.set("nonoptimal_results", total.nonoptimal);
    E.set("nonoptimal_strictly_worse_than_best", total.nonoptimal_worse);
    E.set("input_strictly_improved", total.improved_input);
    E.set("postlinearize_strictly_improved", total.post_improved);
    E.set("comparechunks_unordered_pairs", total.cmp_unordered);
    E.set("budget_cut_points", total.budget_cuts);
    E.set("max_n", (uint64_t)maxn);
    E.rule = "clusters = (closure-distinct DAG on n nodes with edges low->high id) x (position layout: natural/flipped/hole) x (every (fee,size) assignment from the alphabet); "
             "per cluster every topological order is enumerated (brute force) and hulls of prefix sums compared in __int128; plans: " + plan_desc +
             "evaluations = real Linearize+PostLinearize+ChunkLinearization+CompareChunks+DepGraph-query checks; distinct_nontrivial = clusters (all distinct by construction) "
             "in which at least two topological orders have different feerate diagrams";
    E.assume("Linearize/PostLinearize/ChunkLinearization are functions of (DepGraph ancestors+feerates, arguments, rng_seed); fallback order fixed to IndexTxOrder");
    E.assume("feerate diagram of a linearization = upper concave hull of its prefix (size,fee) sums; an order dominating all others exists (verified for every cluster)");

    if (g_oracle_errors.load()) { vx::write_evidence(); printf("HARNESS-ERROR property=C24 reference oracle inconsistent (%d)\n", g_oracle_errors.load()); return 2; }
    if (vx::rep().violations == 0 && complete) {
        // sanity gates: every interesting outcome class must have occurred
        const char* miss = nullptr;
        if (!total.optimal) miss = "no optimal result";
        else if (!total.nonoptimal) miss = "no budget-limited (non-optimal) result";
        else if (!total.nonoptimal_worse) miss = "no budget-limited result strictly worse than the best order";
        else if (!total.improved_input) miss = "no input linearization strictly improved";
        else if (!total.post_improved) miss = "PostLinearize never improved anything";
        else if (!total.cmp_unordered) miss = "no incomparable diagram pair";
        else if (!total.budget_cuts) miss = "no budget cut point enumerated";
        if (miss) { vx::write_evidence(); printf("HARNESS-ERROR property=C24 vacuous: %s\n", miss); return 2; }
    }
    return vx::finish();
}
