LINK := full
KITS := chainkit
