// C22 — The mempool stays consistent and every entry is valid for the next block.
// poolsim exploration (kits/poolsim.h): submissions (valid, low-fee, chained, TRUC, time-locked, edge-of-maturity),
// replacements, packages, prioritisation, blocks with pool txs / with conflicts, reorgs of depth 1 (InvalidateBlock
// and a competing branch), expiry, size-limit trimming.
// Oracle in every reached state:
//   (a) CTxMemPool::check (check_ratio=1) does not abort (run after every transition; an abort kills the forked
//       process, which forksim reports with the history);
//   (b) independent recomputation from infoAll() + the UTXO set: every input unspent in the UTXO set or created by
//       another pool tx, no outpoint spent twice, fee = in - out, vsize, fee deltas, topological pool order,
//       parent/child/ancestor/descendant/cluster sets and totals, total size and fee, spend index, diagram end point;
//   (c) a block with the whole pool in pool order passes TestBlockValidity on the tip.
#include <kits/poolsim_main.h>

namespace {
using namespace ps;

struct C22 : Monitor {
    std::string what() const override
    {
        return "oracle per state: CTxMemPool::check does not abort; independent recomputation of inputs/double spends/fees/sizes/deltas/links/totals from infoAll() and the UTXO set; a block of the whole pool in pool order passes TestBlockValidity";
    }
    void fail(Sim& sim, const std::string& k, const std::string& w) { sim.fs.report("C22-" + k, w); }

    void state(Sim& sim) override
    {
        Snap s = sim.Take();
        CTxMemPool& pool = sim.pool();
        if (pool.size() != s.txs.size()) fail(sim, "size", "size() != infoAll().size()");
        std::set<COutPoint> spent;
        CAmount sum_fee = 0, sum_mod = 0;
        int64_t sum_vsize = 0, sum_weight = 0;
        std::vector<CAmount> real_fee(s.txs.size(), 0);
        for (size_t i = 0; i < s.txs.size(); i++) {
            const PoolTx& t = s.txs[i];
            const CTransaction& tx = *t.tx;
            std::string id = tx.GetHash().ToString().substr(0, 12);
            CAmount in = 0, out = 0;
            bool inputs_ok = true;
            for (auto& vin : tx.vin) {
                if (!spent.insert(vin.prevout).second) fail(sim, "double-spend", "outpoint " + vin.prevout.ToString() + " is spent by two pool transactions");
                auto pit = s.idx.find(vin.prevout.hash);
                if (pit != s.idx.end()) {
                    const CTransaction& par = *s.txs[pit->second].tx;
                    if (vin.prevout.n >= par.vout.size()) { fail(sim, "input-missing", "tx " + id + " spends a non-existent output of a pool tx"); inputs_ok = false; continue; }
                    if (pit->second >= i) fail(sim, "order", "pool order is not topological: tx " + id + " precedes its parent");
                    in += par.vout[vin.prevout.n].nValue;
                } else {
                    auto c = sim.n.GetCoin(vin.prevout);
                    if (!c) { fail(sim, "input-missing", "tx " + id + " spends " + vin.prevout.ToString() + " which is neither an unspent UTXO nor an output of a pool tx"); inputs_ok = false; continue; }
                    in += c->out.nValue;
                }
                if (!pool.isSpent(vin.prevout)) fail(sim, "spend-index", "isSpent() is false for an input of pool tx " + id);
                {
                    LOCK(pool.cs);
                    const CTransaction* ct = pool.GetConflictTx(vin.prevout);
                    if (!ct || ct->GetHash() != tx.GetHash()) fail(sim, "spend-index", "GetConflictTx() does not return the spender " + id);
                }
            }
            for (auto& o : tx.vout) out += o.nValue;
            if (inputs_ok && in - out != t.fee) fail(sim, "fee", "pool reports fee " + std::to_string(t.fee) + " for " + id + " but inputs - outputs = " + std::to_string(in - out));
            real_fee[i] = in - out;
            if (t.vsize != RefVsize(tx)) fail(sim, "vsize", "pool reports vsize " + std::to_string(t.vsize) + " for " + id + ", serialization gives " + std::to_string(RefVsize(tx)));
            auto d = s.deltas.find(tx.GetHash());
            CAmount want_delta = d == s.deltas.end() ? 0 : d->second;
            if (t.delta != want_delta) fail(sim, "delta", "entry fee delta " + std::to_string(t.delta) + " != prioritisation map " + std::to_string(want_delta) + " for " + id);
            if (!pool.exists(tx.GetHash()) || !pool.exists(tx.GetWitnessHash()) || !pool.get(tx.GetHash())) fail(sim, "lookup", "exists()/get() do not find pool tx " + id);
            sum_fee += t.fee; sum_mod += t.mod(); sum_vsize += t.vsize; sum_weight += RefWeight(tx);
        }
        // outputs of pool txs that no pool tx spends must not be marked spent
        for (auto& t : s.txs)
            for (uint32_t k = 0; k < t.tx->vout.size(); k++) {
                COutPoint op(t.tx->GetHash(), k);
                if (!spent.count(op) && pool.isSpent(op)) fail(sim, "spend-index", "isSpent() is true for an unspent pool output");
            }
        {
            LOCK2(cs_main, pool.cs);
            if ((int64_t)pool.GetTotalTxSize() != sum_vsize) fail(sim, "total-size", "GetTotalTxSize " + std::to_string(pool.GetTotalTxSize()) + " != sum of vsizes " + std::to_string(sum_vsize));
            if (pool.GetTotalFee() != sum_fee) fail(sim, "total-fee", "GetTotalFee " + std::to_string(pool.GetTotalFee()) + " != sum of fees " + std::to_string(sum_fee));
            for (size_t i = 0; i < s.txs.size(); i++) {
                const CTxMemPoolEntry* e = pool.GetEntry(s.txs[i].tx->GetHash());
                if (!e) { fail(sim, "lookup", "GetEntry fails"); continue; }
                std::string id = s.txs[i].tx->GetHash().ToString().substr(0, 12);
                auto toset = [&](const std::vector<CTxMemPoolEntry::CTxMemPoolEntryRef>& v) { std::set<size_t> r; for (auto& x : v) { auto it = s.idx.find(x.get().GetTx().GetHash()); r.insert(it == s.idx.end() ? (size_t)-1 : it->second); } return r; };
                if (toset(pool.GetParents(*e)) != s.parents[i]) fail(sim, "parents", "GetParents(" + id + ") differs from the parents computed from the inputs");
                if (toset(pool.GetChildren(*e)) != s.children[i]) fail(sim, "children", "GetChildren(" + id + ") differs from the children computed from the inputs");
                auto anc = s.Anc(i), desc = s.Desc(i), cl = s.Cluster(i);
                auto sums = [&](const std::set<size_t>& set) { size_t z = 0; CAmount f = 0; for (size_t k : set) { z += s.txs[k].vsize; f += s.txs[k].mod(); } return std::make_tuple(set.size(), z, f); };
                if (pool.CalculateAncestorData(*e) != sums(anc)) fail(sim, "ancestors", "ancestor count/size/fees of " + id + " differ from the closure over the inputs");
                if (pool.CalculateDescendantData(*e) != sums(desc)) fail(sim, "descendants", "descendant count/size/fees of " + id + " differ from the closure over the inputs");
                std::set<size_t> got;
                for (auto* ce : pool.GetCluster(s.txs[i].tx->GetHash())) { auto it = s.idx.find(ce->GetTx().GetHash()); got.insert(it == s.idx.end() ? (size_t)-1 : it->second); }
                if (got != cl) fail(sim, "cluster", "GetCluster(" + id + ") differs from the connected component over the inputs");
                if (e->GetModifiedFee() != s.txs[i].mod()) fail(sim, "modfee", "entry modified fee != fee + delta for " + id);
            }
            auto dia = pool.GetFeerateDiagram();
            if (dia.empty() || dia.back().fee != sum_mod || dia.back().size != sum_weight) fail(sim, "diagram", "feerate diagram does not end at (sum of modified fees, sum of weights)");
            for (size_t k = 2; k < dia.size(); k++) {
                __int128 f1 = dia[k - 1].fee - dia[k - 2].fee, s1 = dia[k - 1].size - dia[k - 2].size, f2 = dia[k].fee - dia[k - 1].fee, s2 = dia[k].size - dia[k - 1].size;
                if (f2 * s1 > f1 * s2) fail(sim, "diagram", "chunk feerates of the pool's diagram are not non-increasing");
            }
        }
        for (auto& d : pool.GetPrioritisedTransactions()) {
            bool in = s.has(d.txid);
            if (d.in_mempool != in) fail(sim, "prio", "GetPrioritisedTransactions in_mempool flag wrong");
            if (in && (!d.modified_fee || *d.modified_fee != s.txs[s.idx.at(d.txid)].mod())) fail(sim, "prio", "GetPrioritisedTransactions modified fee wrong");
            if (d.delta == 0) fail(sim, "prio", "zero delta kept in the prioritisation map");
        }
        // (c) whole pool as the next block
        std::vector<CTransactionRef> txs;
        CAmount fees = 0;
        for (size_t i = 0; i < s.txs.size(); i++) { txs.push_back(s.txs[i].tx); fees += real_fee[i]; }
        BlockOpts bo;
        bo.fees = fees;
        bo.grind = false;
        bo.extra_nonce = 77;
        CBlock b = MakeBlock(sim.n, sim.n.tip(), txs, bo);
        BlockValidationState st;
        {
            LOCK(cs_main);
            st = TestBlockValidity(sim.n.cs(), b, /*check_pow=*/false, /*check_merkle_root=*/true);
        }
        if (!st.IsValid()) fail(sim, "block-of-pool-invalid:" + st.GetRejectReason(), "a block containing the whole pool (" + std::to_string(txs.size()) + " txs) in pool order fails TestBlockValidity on the tip: " + st.ToString());
        if (!s.txs.empty()) sim.Bump(10);
        if (s.txs.size() >= 3) sim.Bump(11);
    }
    int gate(Sim& sim) override
    {
        auto* sh = sim.fs.sh;
        const char* need[] = {"accepted", "rejected", "block_with_pool_tx", "reorg_readd", "reorg_evicted"};
        int idx[] = {O_ACCEPT, O_REJECT, O_BLOCK_WITH_POOLTX, O_REORG_READD, O_REORG_EVICT};
        for (int i = 0; i < 5; i++)
            if (!sh->outcome_classes[idx[i]].load()) { printf("HARNESS-ERROR property=C22 outcome class '%s' never occurred\n", need[i]); return 2; }
        if (!sh->outcome_classes[10].load()) { printf("HARNESS-ERROR property=C22 no non-empty pool state checked\n"); return 2; }
        return 0;
    }
};
} // namespace

int main(int argc, char** argv)
{
    C22 mon;
    return ps::Main(argc, argv, "C22", [] {
    ps::Opts o;
    o.classes = {"N", "NY", "NL", "NQ", "C", "R", "RD", "PK", "M", "MC", "I", "T", "P"};
    o.guarded = true;
    o.fees = "h";
    o.child_fees = "h";
    o.thr = "e";
    o.max_idx = 1;
    o.prio_minus = false; o.prio_next = false;
    o.pk_parent = "l"; o.pk_child = "k";
    o.depth_quick = 3; o.depth_thorough = 4;
    if (!vx::thorough()) return ps::Configs{{"", o}};
    // thorough: the same menu plus the competing-branch reorg one level deeper, and a second configuration whose
    // pool starts 12 filler txs below the size limit (trimming, eviction of whole chunks, rolling minimum fee)
    o.classes.insert("X");
    ps::Opts f = o;
    f.prefill = 12;
    f.base_blocks = 126;
    f.classes = {"N", "C", "R", "PK", "M", "MC", "I", "T", "P"};
    f.fees = "mh";
    f.depth_thorough = 3;
    return ps::Configs{{"", o}, {"_full", f}};
    }, mon);
}
