// C05 — Timelocks and coinbase maturity are enforced exactly.
//
// (a) VX-ENUM (threads, pure functions): IsFinalTx over a boundary alphabet of (nLockTime, height, time, sequences);
//     CalculateSequenceLocks / EvaluateSequenceLocks / SequenceLocks over synthetic CBlockIndex chains with five
//     timestamp patterns, every block position of a list, tx versions {0,1,2,3,2^32-1}, flags {0, VERIFY_SEQUENCE},
//     1..3 inputs whose (coin height, nSequence) range over values at / around the satisfied boundary, with type /
//     disable flags and ignored garbage bits. Reference: BIP65/68/113 transcribed (own median-time-past).
// (b1) single-step grid on the real regtest node (kits/chainkit): base chains with controlled block times (exact
//     multiples of 512 s, -1 s, +1 s, 600 s, zigzag); candidate block at height 111 with transactions at lock-1 /
//     lock / lock+1 (absolute height, absolute MTP, relative height, relative time incl. same-block parents), coinbase
//     spends at depth 99/100/101, through TestBlockValidity and ProcessNewBlock; verdict AND reject reason compared.
// (b2) explicit-state search (vx::ForkSim, fork per transition) over delivery histories of blocks that contain FIXED
//     time-locked transactions on different parents (tip, tip-1, tip-2) and with different block-time policies, so
//     the same transaction is valid on one branch and invalid on another (lower height / lower MTP / younger coin).
//     Oracle: reference ledger (kits RefLedger: value + maturity rules) + the timelock reference below.
#include <vx/vx.h>
#include <vx/forksim.h>
#include <kits/chainkit.h>

#include <chain.h>
#include <chainparams.h>
#include <consensus/consensus.h>
#include <consensus/tx_verify.h>
#include <util/time.h>

#include <fcntl.h>
#include <sys/mman.h>
#include <sys/wait.h>

static const uint32_t SEQ_DISABLE = 1u << 31, SEQ_TYPE = 1u << 22, SEQ_MASK = 0xffff;
static const int64_t THRESHOLD = 500000000;

// =============================================================================================== reference (BIP65/68/113)
namespace ref {
// median of the timestamps of the block and its (up to) 10 predecessors
static int64_t Median(std::vector<int64_t> v) { std::sort(v.begin(), v.end()); return v[v.size() / 2]; }

// BIP65/BIP113 finality: nLockTime 0, or below the block height (values < 500,000,000) resp. below the cutoff time,
// or every input's nSequence is 0xffffffff
static bool Final(uint32_t locktime, const std::vector<uint32_t>& seqs, int64_t height, int64_t cutoff_time)
{
    if (locktime == 0) return true;
    int64_t lt = locktime;
    if (lt < (lt < THRESHOLD ? height : cutoff_time)) return true;
    for (uint32_t s : seqs) if (s != 0xffffffffu) return false;
    return true;
}

struct Locks { int64_t min_height{-1}, min_time{-1}; };
// BIP68. coin_mtp(i) = median time past of the block BEFORE the one that confirmed input i's coin.
static Locks SequenceLocks(uint32_t version, bool enforce_flag, const std::vector<uint32_t>& seqs, const std::vector<int>& coin_heights,
                           const std::function<int64_t(int)>& mtp_at_height, std::vector<int>* heights_out = nullptr)
{
    Locks l;
    if (heights_out) *heights_out = coin_heights;
    if (!(version >= 2 && enforce_flag)) return l;
    for (size_t i = 0; i < seqs.size(); i++) {
        uint32_t s = seqs[i];
        if (s & SEQ_DISABLE) { if (heights_out) (*heights_out)[i] = 0; continue; }
        int64_t v = s & SEQ_MASK;
        if (s & SEQ_TYPE) l.min_time = std::max(l.min_time, mtp_at_height(std::max(coin_heights[i] - 1, 0)) + v * 512 - 1);
        else l.min_height = std::max(l.min_height, (int64_t)coin_heights[i] + v - 1);
    }
    return l;
}
static bool Evaluate(const Locks& l, int64_t block_height, int64_t prev_mtp) { return l.min_height < block_height && l.min_time < prev_mtp; }
} // namespace ref

// =============================================================================================== (a) enumeration
struct FakeChain {
    std::vector<CBlockIndex> idx;
    std::vector<int64_t> times;
    int64_t Mtp(int h) const { std::vector<int64_t> v; for (int i = std::max(0, h - 10); i <= h; i++) v.push_back(times[i]); return ref::Median(v); }
};
static void MakeChain(FakeChain& fc, int pattern, int n)
{
    fc.idx.resize(n);
    fc.times.resize(n);
    const int64_t T0 = 1500000000;
    for (int i = 0; i < n; i++) {
        int64_t t = 0;
        switch (pattern) {
        case 0: t = T0 + 512 * i; break;
        case 1: t = T0 + 600 * i; break;
        case 2: t = T0 + 512 * i - (i % 2 ? 700 : 0); break;          // not monotone: MTP differs from "tip time - 5 steps"
        case 3: t = T0; break;                                       // all equal
        case 4: t = T0 + 512 * i + (i % 3) - 1; break;               // +-1 s jitter around multiples of 512
        }
        fc.times[i] = t;
        fc.idx[i].nHeight = i;
        fc.idx[i].nTime = (uint32_t)t;
        fc.idx[i].pprev = i ? &fc.idx[i - 1] : nullptr;
        fc.idx[i].BuildSkip();
    }
}

struct EnumStats { std::atomic<uint64_t> evals{0}; vx::Distinct distinct; std::atomic<uint64_t> finals{0}, nonfinals{0}, lock_ok{0}, lock_fail{0}; };

static void EnumIsFinal(EnumStats& st)
{
    std::vector<int> heights{0, 1, 2, 100, 499999999, 500000000, INT32_MAX};
    std::vector<int64_t> times{0, 1, 499999999, 500000000, 500000001, 1500000000, 4294967295LL, 4294967296LL, 1LL << 33};
    std::set<uint32_t> lts{0, 1, 2, 499999998, 499999999, 500000000, 500000001, 0xfffffffe, 0xffffffff};
    for (int h : heights) for (int d : {-1, 0, 1}) { int64_t x = (int64_t)h + d; if (x >= 0 && x <= 0xffffffffLL) lts.insert((uint32_t)x); }
    for (int64_t t : times) for (int d : {-1, 0, 1}) { int64_t x = t + d; if (x >= 0 && x <= 0xffffffffLL) lts.insert((uint32_t)x); }
    std::vector<std::vector<uint32_t>> seqsets;
    const std::vector<uint32_t> sa{0xffffffff, 0xfffffffe, 0, SEQ_DISABLE, 0x7fffffff};
    for (uint32_t a : sa) seqsets.push_back({a});
    for (uint32_t a : sa) for (uint32_t b : sa) seqsets.push_back({a, b});
    for (uint32_t a : {0xffffffffu, 0xfffffffeu}) for (uint32_t b : {0xffffffffu, 0u}) for (uint32_t c : {0xffffffffu, 0xfffffffeu}) seqsets.push_back({a, b, c});
    std::vector<uint32_t> ltv(lts.begin(), lts.end());
    vx::par_for(ltv.size(), 1, [&](uint64_t lo, uint64_t hi, unsigned) {
        for (uint64_t li = lo; li < hi; li++) {
            for (auto& seqs : seqsets) {
                CMutableTransaction m;
                m.nLockTime = ltv[li];
                for (uint32_t s : seqs) m.vin.emplace_back(COutPoint(Txid::FromUint256(uint256{1}), 0), CScript(), s);
                const CTransaction tx(m);
                for (int h : heights) for (int64_t t : times) {
                    bool got = IsFinalTx(tx, h, t);
                    bool want = ref::Final(ltv[li], seqs, h, t);
                    st.evals++;
                    (want ? st.finals : st.nonfinals)++;
                    if (got != want) {
                        std::string k = "locktime=" + std::to_string(ltv[li]) + " height=" + std::to_string(h) + " time=" + std::to_string(t) + " nseq=" + std::to_string(seqs.size()) + " seq0=" + std::to_string(seqs[0]);
                        vx::violation(std::string("C05-isfinal:") + (ltv[li] < THRESHOLD ? "height" : "time") + (want ? ":want-final" : ":want-nonfinal"), "IsFinalTx=" + std::to_string(got) + " reference=" + std::to_string(want) + " for " + k, k);
                    }
                    // distinct: which clause decided
                    int clause = ltv[li] == 0 ? 0 : (int64_t)ltv[li] < ((int64_t)ltv[li] < THRESHOLD ? (int64_t)h : t) ? (ltv[li] < THRESHOLD ? 1 : 2) : want ? 3 : 4;
                    st.distinct.add("F" + std::to_string(clause) + ":" + std::to_string(ltv[li]) + ":" + std::to_string(h) + ":" + std::to_string(t));
                }
            }
        }
    });
}

struct InOpt { int coin_height; uint32_t seq; };

static void EnumSequenceLocks(EnumStats& st, bool big)
{
    const int N = 40;
    std::vector<FakeChain> chains(5);
    for (int p = 0; p < 5; p++) MakeChain(chains[p], p, N);
    std::vector<int> Hs = big ? std::vector<int>{1, 2, 3, 10, 11, 12, 13, 20, 30, 38, 39} : std::vector<int>{1, 2, 11, 12, 30, 39};
    const std::vector<uint32_t> versions{0, 1, 2, 3, 0xffffffffu};
    struct Job { int p, H; };
    std::vector<Job> jobs;
    for (int p = 0; p < 5; p++) for (int H : Hs) jobs.push_back({p, H});
    vx::par_for(jobs.size(), 1, [&](uint64_t lo, uint64_t hi, unsigned) {
        for (uint64_t j = lo; j < hi; j++) {
            const FakeChain& fc = chains[jobs[j].p];
            const int H = jobs[j].H;
            const CBlockIndex& block = fc.idx[H];
            const int64_t M = fc.Mtp(H - 1);
            auto mtp_at = [&](int h) { return fc.Mtp(h); };
            // per-input options: coin heights around the block, sequences around the satisfied boundary
            std::set<int> cs;
            for (int c : {0, 1, 2, 5, 12, H - 2, H - 1, H}) if (c >= 0 && c <= H) cs.insert(c);
            std::vector<InOpt> full, small;
            for (int c : cs) {
                std::set<uint32_t> ss{0xfffffffe, 0xffffffff, 0x10000, SEQ_TYPE, SEQ_DISABLE, 0};
                auto addv = [&](int64_t v, bool type) {
                    if (v < 0 || v > 0xffff) return;
                    uint32_t b = (uint32_t)v | (type ? SEQ_TYPE : 0);
                    ss.insert(b);
                    ss.insert(b | SEQ_DISABLE);
                    ss.insert(b | 0x003f0000u);          // bits 16..21 carry no meaning
                    ss.insert(b | 0x3f800000u);          // bits 23..29 carry no meaning
                };
                for (int64_t v : {(int64_t)0, (int64_t)1, (int64_t)H - c - 1, (int64_t)H - c, (int64_t)H - c + 1, (int64_t)0xffff}) addv(v, false);
                int64_t delta = M - fc.Mtp(std::max(c - 1, 0));
                int64_t k = delta >= 0 ? delta / 512 : -((-delta + 511) / 512);
                for (int64_t v : {(int64_t)0, (int64_t)1, k - 1, k, k + 1, (int64_t)0xffff}) addv(v, true);
                for (uint32_t s : ss) full.push_back({c, s});
                bool edge = c == H - 1 || c == 1 || c == H;
                if (edge) for (uint32_t s : {(uint32_t)std::clamp<int64_t>(H - c, 0, 0xffff), (uint32_t)std::clamp<int64_t>(H - c + 1, 0, 0xffff), (uint32_t)std::clamp<int64_t>(k, 0, 0xffff) | SEQ_TYPE, (uint32_t)std::clamp<int64_t>(k + 1, 0, 0xffff) | SEQ_TYPE, SEQ_DISABLE | 5u}) small.push_back({c, s});
            }
            auto eval = [&](const std::vector<InOpt>& ins) {
                std::vector<uint32_t> seqs;
                std::vector<int> heights;
                CMutableTransaction m;
                for (auto& i : ins) { seqs.push_back(i.seq); heights.push_back(i.coin_height); m.vin.emplace_back(COutPoint(Txid::FromUint256(uint256{1}), (uint32_t)m.vin.size()), CScript(), i.seq); }
                for (uint32_t ver : versions) {
                    m.version = ver;
                    const CTransaction tx(m);
                    for (int flags : {0, (int)LOCKTIME_VERIFY_SEQUENCE}) {
                        std::vector<int> ph = heights, ph2 = heights, want_heights;
                        auto got = CalculateSequenceLocks(tx, flags, ph, block);
                        ref::Locks want = ref::SequenceLocks(ver, flags & 1, seqs, heights, mtp_at, &want_heights);
                        bool got_ok = EvaluateSequenceLocks(block, got);
                        bool want_ok = ref::Evaluate(want, H, M);
                        bool got2 = SequenceLocks(tx, flags, ph2, block);
                        st.evals++;
                        (want_ok ? st.lock_ok : st.lock_fail)++;
                        if (got.first != want.min_height || got.second != want.min_time || got_ok != want_ok || got2 != want_ok || ph != want_heights) {
                            std::string d = "pattern=" + std::to_string(jobs[j].p) + " H=" + std::to_string(H) + " version=" + std::to_string(ver) + " flags=" + std::to_string(flags);
                            for (auto& i : ins) d += " (coin_h=" + std::to_string(i.coin_height) + " seq=0x" + vx::hex((const unsigned char*)&i.seq, 4) + "le)";
                            std::string what = "CalculateSequenceLocks=(" + std::to_string(got.first) + "," + std::to_string(got.second) + ") reference=(" + std::to_string(want.min_height) + "," + std::to_string(want.min_time) + ") Evaluate=" + std::to_string(got_ok) + " SequenceLocks=" + std::to_string(got2) + " reference=" + std::to_string(want_ok) + (ph != want_heights ? " prevHeights differ" : "");
                            bool anytype = false;
                            for (auto& i : ins) anytype |= (i.seq & SEQ_TYPE) != 0;
                            vx::violation(std::string("C05-seqlocks:") + (got.first != want.min_height ? "minheight" : got.second != want.min_time ? "mintime" : ph != want_heights ? "prevheights" : "evaluate") + (anytype ? ":time" : ":height"), what + " for " + d, d);
                        }
                        st.distinct.add("S" + std::to_string(jobs[j].p) + ":" + std::to_string(H) + ":" + std::to_string(ver >= 2 && (flags & 1)) + ":" + std::to_string(want.min_height) + ":" + std::to_string(want.min_time) + ":" + std::to_string(want_ok));
                    }
                }
            };
            for (auto& a : full) eval({a});
            const std::vector<InOpt>& two = big ? full : small;
            for (auto& a : full) for (auto& b : two) eval({a, b});
            if (big) for (auto& a : small) for (auto& b : small) for (auto& c : small) eval({a, b, c});
            else for (auto& a : small) for (auto& b : small) eval({a, b, small[0]});
        }
    });
}

// =============================================================================================== timelock reference over the ledger
struct TLRef {
    ck::RefLedger& L;
    std::map<uint256, std::string> memo; // block -> "" (timelocks ok) or reason
    explicit TLRef(ck::RefLedger& l) : L(l) {}
    int64_t Mtp(uint256 h) const
    {
        std::vector<int64_t> v;
        for (int i = 0; i < 11 && !h.IsNull(); i++) { auto& rb = L.blocks.at(h); v.push_back(rb.block.nTime); h = rb.prev; }
        return ref::Median(v);
    }
    uint256 AncestorAt(uint256 h, int height) const
    {
        while (L.blocks.at(h).height > height) h = L.blocks.at(h).prev;
        return h;
    }
    // timelock verdict of ONE block given its parent chain (does not look at value rules)
    std::string BlockError(const uint256& bh)
    {
        auto it = memo.find(bh);
        if (it != memo.end()) return it->second;
        const ck::RefBlock& rb = L.blocks.at(bh);
        std::string err;
        if (!rb.prev.IsNull()) {
            const int H = rb.height;
            const int64_t M = Mtp(rb.prev);
            if ((int64_t)rb.block.nTime <= M) err = "time-too-old";
            auto base = L.UtxoAt(rb.prev);
            std::map<COutPoint, int> created; // outputs of earlier transactions of this block
            for (size_t ti = 0; ti < rb.block.vtx.size() && err.empty(); ti++) {
                const CTransaction& tx = *rb.block.vtx[ti];
                std::vector<uint32_t> seqs;
                for (auto& i : tx.vin) seqs.push_back(i.nSequence);
                if (!ref::Final(tx.nLockTime, seqs, H, M)) { err = "bad-txns-nonfinal"; break; }
                if (ti > 0 && base) {
                    std::vector<int> heights;
                    bool known = true;
                    for (auto& i : tx.vin) {
                        auto c = created.find(i.prevout);
                        if (c != created.end()) { heights.push_back(c->second); continue; }
                        auto u = base->find(i.prevout);
                        if (u == base->end()) { known = false; break; }
                        heights.push_back(u->second.height);
                    }
                    if (known) {
                        ref::Locks l = ref::SequenceLocks(tx.version, true, seqs, heights, [&](int h) { return Mtp(AncestorAt(rb.prev, std::min(h, H - 1))); });
                        if (!ref::Evaluate(l, H, M)) { err = "bad-txns-nonfinal"; break; }
                    }
                }
                for (uint32_t k = 0; k < tx.vout.size(); k++) created[COutPoint(tx.GetHash(), k)] = H;
            }
        }
        memo[bh] = err;
        return err;
    }
    // whole chain genesis..h acceptable? reason of the first offending block otherwise
    std::string ChainError(const uint256& h)
    {
        for (uint256 w = h; !w.IsNull(); w = L.blocks.at(w).prev) {
            std::string e = BlockError(w);
            if (!e.empty()) return e;
        }
        if (!L.UtxoAt(h)) return "ledger: " + L.last_error;
        return "";
    }
};

// =============================================================================================== (b1) single-step grid
struct GridCase { std::string name; std::vector<CTransactionRef> txs; int64_t time; };

struct GridTotals {
    uint64_t cases{0}, accept{0}, reject{0}, crashes{0};
    std::set<std::string> reasons;
    std::map<std::string, std::pair<int, int>> kind; // tx kind -> accept/reject
    vx::Distinct distinct;
    bool harness_error{false};
};

static int64_t PatternTime(int pattern, int i, int64_t T0)
{
    switch (pattern) {
    case 0: return T0 + 512 * i;
    case 1: return T0 + 512 * i - (i >= 105 ? 1 : 0);   // the median of the last 11 at height 110 is block 105
    case 2: return T0 + 512 * i + (i >= 105 ? 1 : 0);
    case 3: return T0 + 600 * i;
    default: return T0 + 512 * i - (i >= 12 && i % 2 ? 700 : 0); // not monotone
    }
}

static void RunGrid(int pattern, bool big, unsigned workers, GridTotals& T, const std::string& only)
{
    ck::NodeOpts o;
    o.min_validation_cache = true;
    ck::Node node(o);
    ck::RefLedger L;
    TLRef R(L);
    L.AddGenesis(Params().GenesisBlock());
    const int64_t T0 = Params().GenesisBlock().nTime;
    SetMockTime(T0 + 600 * 100000);
    // base: 1..100 empty, 101..110 funding blocks (block h spends coinbase(h-100) into 10 OP_TRUE outputs)
    std::map<int, std::vector<COutPoint>> coins_at; // non-coinbase coins by confirmation height
    std::map<int, COutPoint> coinbase_at;
    const CAmount EACH = 40000000;
    CAmount change_value = 50 * COIN;
    COutPoint change;
    for (int h = 1; h <= 110; h++) {
        std::vector<CTransactionRef> txs;
        if (h > 100) { // funding chain: coinbase(1) -> 10 coins + change -> 10 coins + change ...
            std::vector<CAmount> outs(10, EACH);
            change_value -= 10 * EACH;
            outs.push_back(change_value);
            auto f = ck::SpendTx({h == 101 ? coinbase_at[1] : change}, outs);
            txs.push_back(f);
            for (uint32_t k = 0; k < 10; k++) coins_at[h].push_back(COutPoint(f->GetHash(), k));
            change = COutPoint(f->GetHash(), 10);
        }
        ck::BlockOpts bo;
        bo.time = PatternTime(pattern, h, T0);
        CBlock b = ck::MakeBlock(node, node.tip(), txs, bo);
        L.Add(b);
        auto r = node.ProcessBlock(b);
        if (!r.pnb_ret || node.tip()->GetBlockHash() != b.GetHash()) {
            // the base chain is valid by the reference (the funding block at 101 spends a coinbase at depth exactly 100)
            std::string want = R.ChainError(b.GetHash());
            if (want.empty()) { vx::violation("C05-grid-valid-base-block-rejected:" + r.reason, "base block at height " + std::to_string(h) + " (pattern " + std::to_string(pattern) + ") is valid by the reference but rejected: " + r.reason, "pattern " + std::to_string(pattern) + " base height " + std::to_string(h)); return; }
            throw std::runtime_error("C05 grid base block rejected: " + r.reason + " / reference: " + want);
        }
        coinbase_at[h] = COutPoint(b.vtx[0]->GetHash(), 0);
    }
    const uint256 base = node.tip()->GetBlockHash();
    const int H = 111;
    const int64_t M = R.Mtp(base);
    auto mtp_before_coin = [&](int c) { return R.Mtp(R.AncestorAt(base, std::min(c - 1, 110))); };

    // ---- case list
    std::vector<GridCase> cases;
    const int64_t tip_time = L.blocks.at(base).block.nTime;
    std::vector<std::pair<std::string, int64_t>> tkinds{{"t+512", std::max(tip_time + 512, M + 1)}, {"t=mtp+1", M + 1}};
    if (big) tkinds.push_back({"t+7000", tip_time + 7000});
    for (auto& [tname, btime] : tkinds) {
        std::map<int, size_t> used;
        auto coin = [&](int h) { return coins_at.at(h).at(used[h]++ % 10); };
        auto add = [&](const std::string& nm, std::vector<CTransactionRef> txs) { used.clear(); cases.push_back({nm + "/" + tname + "/p" + std::to_string(pattern), std::move(txs), btime}); };
        auto spend = [&](COutPoint op, CAmount v, uint32_t seq, uint32_t lt, int32_t ver = 2) { return ck::SpendTx({op}, {v - 1000}, seq, lt, ver); };
        // absolute, height based: final iff nLockTime < H
        for (int d : {-2, -1, 0, 1}) add("abs-height/lock=H" + std::string(d >= 0 ? "+" : "") + std::to_string(d), {spend(coin(105), EACH, 0xfffffffe, H + d)});
        add("abs-height/lock=H+1/all-inputs-final", {spend(coin(105), EACH, 0xffffffff, H + 1)});
        add("abs-height/lock=H/seq=0", {spend(coin(105), EACH, 0, H, 1)});
        add("abs-height/lock=499999999", {spend(coin(105), EACH, 0xfffffffe, 499999999)});
        add("abs-height/lock=H/two-inputs-one-final", {MakeTransactionRef(ck::MakeTx({{coin(105), 0xffffffff}, {coin(106), 0xfffffffe}}, {{1000, ck::OpTrueSpk()}}, 2, H))});
        add("abs-height/lock=H/two-inputs-both-final", {MakeTransactionRef(ck::MakeTx({{coin(105), 0xffffffff}, {coin(106), 0xffffffff}}, {{1000, ck::OpTrueSpk()}}, 2, H))});
        // absolute, time based (BIP113): final iff nLockTime < MTP(previous block) — not the block's own time
        for (int d : {-1, 0, 1}) add("abs-time/lock=MTP" + std::string(d >= 0 ? "+" : "") + std::to_string(d), {spend(coin(105), EACH, 0xfffffffe, (uint32_t)(M + d))});
        add("abs-time/lock=blocktime-1", {spend(coin(105), EACH, 0xfffffffe, (uint32_t)(btime - 1))});
        add("abs-time/lock=MTP+1/all-inputs-final", {spend(coin(105), EACH, 0xffffffff, (uint32_t)(M + 1))});
        add("abs-time/lock=500000000", {spend(coin(105), EACH, 0xfffffffe, 500000000)});
        // relative, height based: satisfied iff coin_height + v <= H
        for (int c : {110, 109, 101}) for (int d : {-1, 0, 1}) {
            int v = H - c + d;
            std::string nm = "rel-height/coin@" + std::to_string(c) + "/v=H-c" + std::string(d >= 0 ? "+" : "") + std::to_string(d);
            add(nm, {spend(coin(c), EACH, v, 0)});
            if (d == 1) {
                add(nm + "/version1", {spend(coin(c), EACH, v, 0, 1)});
                add(nm + "/disable-flag", {spend(coin(c), EACH, v | SEQ_DISABLE, 0)});
            }
            if (d == 0) add(nm + "/garbage-bits", {spend(coin(c), EACH, v | 0x003f0000u | 0x3f800000u, 0)});
        }
        for (int c : {11, 10, 2}) for (int d : {-1, 0, 1}) // mature coinbases (depth >= 100) under BIP68
            add("rel-height/coinbase@" + std::to_string(c) + "/v=H-c" + std::string(d >= 0 ? "+" : "") + std::to_string(d), {spend(coinbase_at[c], 50 * COIN, H - c + d, 0)});
        // relative, time based: satisfied iff MTP(block before the coin's block) + 512 v <= MTP(previous block)
        for (int c : {110, 109, 106, 105, 101}) {
            int64_t delta = M - mtp_before_coin(c);
            int64_t k = delta / 512;
            for (int d : {-1, 0, 1}) {
                if (k + d < 0) continue;
                std::string nm = "rel-time/coin@" + std::to_string(c) + "/v=floor(dMTP/512)" + std::string(d >= 0 ? "+" : "") + std::to_string(d);
                add(nm, {spend(coin(c), EACH, (uint32_t)(k + d) | SEQ_TYPE, 0)});
                if (d == 1) {
                    add(nm + "/version1", {spend(coin(c), EACH, (uint32_t)(k + d) | SEQ_TYPE, 0, 1)});
                    add(nm + "/disable-flag", {spend(coin(c), EACH, (uint32_t)(k + d) | SEQ_TYPE | SEQ_DISABLE, 0)});
                }
            }
        }
        // parent and child in the same block: the coin's height is H itself
        for (int v : {0, 1}) for (bool type : {false, true}) {
            auto p = spend(coin(107), EACH, 0xffffffff, 0);
            auto ch = spend(COutPoint(p->GetHash(), 0), EACH - 1000, (uint32_t)v | (type ? SEQ_TYPE : 0), 0);
            add(std::string("same-block/") + (type ? "rel-time" : "rel-height") + "/v=" + std::to_string(v), {p, ch});
        }
        // two inputs, one lock satisfied and one not
        add("rel-mixed/one-height-lock-unsatisfied", {MakeTransactionRef(ck::MakeTx({{coin(110), 1}, {coin(109), 3}}, {{1000, ck::OpTrueSpk()}}, 2, 0))});
        add("rel-mixed/both-satisfied", {MakeTransactionRef(ck::MakeTx({{coin(110), 1}, {coin(109), 2}}, {{1000, ck::OpTrueSpk()}}, 2, 0))});
        // coinbase maturity: spendable iff H - coinbase_height >= 100
        for (int depth : {98, 99, 100, 101}) add("maturity/depth=" + std::to_string(depth), {spend(coinbase_at[H - depth], 50 * COIN, 0xffffffff, 0)});
        add("maturity/depth=99/second-input", {MakeTransactionRef(ck::MakeTx({{coin(105), 0xffffffff}, {coinbase_at[H - 99], 0xffffffff}}, {{1000, ck::OpTrueSpk()}}, 2, 0))});
    }
    if (!only.empty()) { std::vector<GridCase> c2; for (auto& c : cases) if (c.name == only) c2.push_back(c); cases = c2; if (cases.empty()) return; workers = 1; }

    // ---- run: W children, child w takes cases i = w mod W sequentially; an accepted block is rolled back by InvalidateBlock
    if (ck::ThreadCount() != 1) throw std::runtime_error("C05: process is not single-threaded");
    std::string path = vx::scratch_dir() + "/c05_" + std::to_string(getpid()) + ".log";
    int fd = open(path.c_str(), O_CREAT | O_TRUNC | O_WRONLY | O_APPEND, 0644);
    workers = std::min<unsigned>(workers, cases.size());
    std::vector<pid_t> pids;
    fflush(stdout);
    for (unsigned w = 0; w < workers; w++) {
        pid_t p = fork();
        if (p < 0) throw std::runtime_error("fork failed");
        if (p) { pids.push_back(p); continue; }
        node.RepointBlocksDir(node.BlocksDir().parent_path() / ("c05w" + std::to_string(w)));
        for (size_t i = w; i < cases.size(); i += workers) {
            const GridCase& c = cases[i];
            std::string out;
            if (vx::deadline_reached()) { out = "D\t" + c.name + "\n"; (void)!write(fd, out.data(), out.size()); continue; }
            auto V = [&](const std::string& key, const std::string& what) { out += "V\t" + key + "\t" + what + "\t" + c.name + "\n"; };
            ck::BlockOpts bo;
            bo.time = c.time;
            bo.fees = 0;
            bo.extra_nonce = (int)i + 1;
            CBlock pristine = ck::MakeBlock(node, node.tip(), c.txs, bo);
            L.Add(pristine);
            std::string want = R.ChainError(pristine.GetHash());
            if (want.rfind("ledger: ", 0) == 0) want = want == "ledger: premature coinbase spend" ? "bad-txns-premature-spend-of-coinbase" : "HARNESS:" + want;
            if (want.rfind("HARNESS", 0) == 0 || want == "time-too-old") { out += "H\t" + c.name + "\tcase construction broke a rule outside the property: " + want + "\n"; (void)!write(fd, out.data(), out.size()); continue; }
            const bool ok = want.empty();
            std::string kind = c.name.substr(0, c.name.find('/'));
            BlockValidationState ts;
            { CBlock b1 = pristine; LOCK(cs_main); ts = TestBlockValidity(node.cs(), b1, true, true); }
            if (ts.IsValid() != ok) V("C05-grid-tbv-verdict:" + kind + (ok ? ":valid-rejected" : ":invalid-accepted"), "TestBlockValidity " + (ts.IsValid() ? std::string("accepts") : "rejects (" + ts.GetRejectReason() + ")") + ", reference: " + (ok ? "valid" : want));
            else if (!ok && ts.GetRejectReason() != want) V("C05-grid-tbv-reason:" + kind, "TestBlockValidity reason '" + ts.GetRejectReason() + "', reference '" + want + "'");
            CBlock b2 = pristine;
            ck::BlockResult r = node.ProcessBlock(b2, true);
            bool accepted = node.tip()->GetBlockHash() == pristine.GetHash();
            if (accepted != ok) V("C05-grid-pnb-verdict:" + kind + (ok ? ":valid-rejected" : ":invalid-accepted"), "ProcessNewBlock " + (accepted ? std::string("connected the block") : "rejected (" + r.reason + ")") + ", reference: " + (ok ? "valid" : want));
            else if (!ok && (!r.checked || r.valid || r.reason != want)) V("C05-grid-pnb-reason:" + kind, "ProcessNewBlock reason '" + r.reason + "', reference '" + want + "'");
            out += "R\t" + kind + "\t" + c.name + "\t" + (ok ? "1" : "0") + "\t" + (ok ? "valid" : want) + "\n";
            (void)!write(fd, out.data(), out.size());
            if (accepted) {
                node.Invalidate(pristine.GetHash());
                if (node.tip()->GetBlockHash() != base) { out = "H\t" + c.name + "\trollback to the base tip failed\n"; (void)!write(fd, out.data(), out.size()); break; }
            } else if (node.tip()->GetBlockHash() != base) {
                out = "V\tC05-grid-tip-moved\ttip changed although the candidate was not connected\t" + c.name + "\n"; (void)!write(fd, out.data(), out.size()); break;
            }
        }
        _exit(0);
    }
    for (pid_t p : pids) { int st = 0; waitpid(p, &st, 0); if (!WIFEXITED(st) || WEXITSTATUS(st) != 0) { T.crashes++; vx::violation("C05-grid-process-died", "a grid worker died abnormally (abort/assert/crash in the code under test), pattern " + std::to_string(pattern), "pattern " + std::to_string(pattern)); } }
    close(fd);
    std::ifstream f(path);
    std::string line;
    std::vector<std::string> lines;
    while (std::getline(f, line)) lines.push_back(line);
    std::sort(lines.begin(), lines.end());
    auto split = [](const std::string& s) { std::vector<std::string> p; size_t a = 0; for (;;) { size_t b = s.find('\t', a); p.push_back(s.substr(a, b == std::string::npos ? b : b - a)); if (b == std::string::npos) break; a = b + 1; } return p; };
    for (auto& l : lines) {
        if (getenv("VX_DUMP")) printf("%s\n", l.c_str());
        auto p = split(l);
        if (p[0] == "V" && p.size() >= 4) vx::violation(p[1], p[2], "case: " + p[3]);
        else if (p[0] == "H") { printf("HARNESS-ERROR C05 grid case %s: %s\n", p.size() > 1 ? p[1].c_str() : "?", p.size() > 2 ? p[2].c_str() : "?"); T.harness_error = true; }
        else if (p[0] == "D") vx::ev().exhaustive = false;
        else if (p[0] == "R" && p.size() >= 5) {
            T.cases++;
            bool ok = p[3] == "1";
            (ok ? T.accept : T.reject)++;
            auto& k = T.kind[p[1]];
            (ok ? k.first : k.second)++;
            if (!ok) T.reasons.insert(p[4]);
            T.distinct.add(p[2]);
            if (T.cases % 97 == 1) vx::ev().sample("grid " + p[2] + " -> " + p[4]);
        }
    }
    unlink(path.c_str());
}

// =============================================================================================== (b2) delivery-history search
struct TLSim {
    ck::Node& n;
    ck::RefLedger L;
    TLRef R;
    vx::ForkSim fs;
    uint256 base_tip;
    int base_h{0};
    std::vector<std::string> kinds, parents;
    int max_new_blocks{5};
    struct Built { uint256 hash, prev; std::string kind; bool delivered{false}; };
    std::vector<Built> built;
    std::map<uint256, size_t> by_hash;
    // fixed transactions
    CTransactionRef tx_h, tx_t, tx_fund, tx_rh, tx_rt, tx_cb;

    explicit TLSim(ck::Node& node) : n(node), R(L) {}

    bool Init()
    {
        L.AddGenesis(Params().GenesisBlock());
        const int64_t T0 = Params().GenesisBlock().nTime;
        SetMockTime(T0 + 600 * 100000);
        std::vector<COutPoint> X;
        std::map<int, COutPoint> cb;
        base_h = 104;
        for (int h = 1; h <= base_h; h++) {
            std::vector<CTransactionRef> txs;
            if (h == 101) {
                auto f = ck::SpendTx({cb[1]}, {100000000, 100000000, 100000000, 100000000, 50 * COIN - 400000000});
                txs.push_back(f);
                for (uint32_t k = 0; k < 4; k++) X.push_back(COutPoint(f->GetHash(), k));
            }
            ck::BlockOpts bo;
            bo.time = T0 + 512 * h;
            CBlock b = ck::MakeBlock(n, n.tip(), txs, bo);
            L.Add(b);
            auto r = n.ProcessBlock(b);
            if (!r.pnb_ret || n.tip()->GetBlockHash() != b.GetHash()) {
                if (R.ChainError(b.GetHash()).empty()) { vx::violation("C05-sim-valid-base-block-rejected:" + r.reason, "base block at height " + std::to_string(h) + " is valid by the reference but rejected: " + r.reason, "sim base height " + std::to_string(h)); return false; }
                throw std::runtime_error("C05 sim base block rejected: " + r.reason);
            }
            cb[h] = COutPoint(b.vtx[0]->GetHash(), 0);
        }
        base_tip = n.tip()->GetBlockHash();
        // absolute height lock: includable from height base_h+2 (nLockTime < height)
        tx_h = ck::SpendTx({X[0]}, {99990000}, 0xfffffffe, base_h + 1);
        // absolute time lock: includable once MTP(prev) > t(99)+1: not on the base tip (MTP = t(99)), on a +512 s child of
        // it (MTP = t(100)), but not on a "slow" child (MTP = t(99)+1)
        tx_t = ck::SpendTx({X[1]}, {99990000}, 0xfffffffe, (uint32_t)(T0 + 512 * 99 + 1));
        tx_fund = ck::SpendTx({X[2]}, {40000000, 40000000});
        tx_rh = ck::SpendTx({COutPoint(tx_fund->GetHash(), 0)}, {39990000}, 1, 0);              // one block after the funding block, not in it
        tx_rt = ck::SpendTx({COutPoint(tx_fund->GetHash(), 1)}, {39990000}, SEQ_TYPE | 1, 0);    // MTP must have advanced by 512 s past the MTP before the funding block
        tx_cb = ck::SpendTx({cb[base_h + 1 - 100]}, {50 * COIN - 10000}, 0xffffffff, 0);         // depth 100 exactly at height base_h+1
        return true;
    }

    std::optional<uint256> Select(const std::string& sel)
    {
        const CBlockIndex* t = n.tip();
        int up = sel == "t0" ? 0 : sel == "t1" ? 1 : 2;
        for (int i = 0; i < up; i++) { if (!t->pprev || t->nHeight <= base_h - 1) return std::nullopt; t = t->pprev; }
        return t->GetBlockHash();
    }
    bool Build(const std::string& kind, const uint256& parent, CBlock& out)
    {
        const CBlockIndex* pi = n.index_of(parent);
        if (!pi) return false;
        auto u = L.UtxoAt(parent);
        if (!u) return false;
        auto has = [&](const CTransactionRef& t) { return u->count(t->vin[0].prevout) > 0; };
        std::vector<CTransactionRef> txs;
        ck::BlockOpts bo;
        bo.time = (int64_t)L.blocks.at(parent).block.nTime + 512;
        bo.extra_nonce = 1;
        if (kind == "empty") {}
        else if (kind == "slow") bo.time = R.Mtp(parent) + 1;            // smallest admissible timestamp: MTP barely moves
        else if (kind == "fund") { if (!has(tx_fund)) return false; txs = {tx_fund}; }
        else if (kind == "fundslow") { if (!has(tx_fund)) return false; txs = {tx_fund}; bo.time = R.Mtp(parent) + 1; }
        else if (kind == "h") { if (!has(tx_h)) return false; txs = {tx_h}; }
        else if (kind == "t") { if (!has(tx_t)) return false; txs = {tx_t}; }
        else if (kind == "rh") { if (!has(tx_rh)) return false; txs = {tx_rh}; }
        else if (kind == "rt") { if (!has(tx_rt)) return false; txs = {tx_rt}; }
        else if (kind == "cb") { if (!has(tx_cb)) return false; txs = {tx_cb}; }
        else if (kind == "fund+rh") { if (!has(tx_fund)) return false; txs = {tx_fund, tx_rh}; } // the child needs one block of distance: invalid in the same block
        else throw std::logic_error("unknown kind " + kind);
        bo.fees = 0;
        out = ck::MakeBlock(n, pi, txs, bo);
        return true;
    }
    std::vector<std::string> Events()
    {
        std::vector<std::string> ev;
        if ((int)built.size() >= max_new_blocks) return ev;
        for (auto& p : parents) {
            auto sel = Select(p);
            if (!sel) continue;
            for (auto& k : kinds) {
                CBlock tmp;
                if (!Build(k, *sel, tmp)) continue;                 // its transaction's coin does not exist on that parent
                if (L.Known(tmp.GetHash()) && by_hash.count(tmp.GetHash()) && built[by_hash[tmp.GetHash()]].delivered) continue; // already delivered: a pure duplicate
                ev.push_back("B:" + p + ":" + k);
            }
        }
        return ev;
    }
    bool ChainDelivered(uint256 h)
    {
        while (!h.IsNull()) {
            auto it = by_hash.find(h);
            if (it == by_hash.end()) return true;
            if (!built[it->second].delivered) return false;
            h = built[it->second].prev;
        }
        return true;
    }
    void Apply(const std::string& e)
    {
        size_t c2 = e.find(':', 2);
        std::string sel = e.substr(2, c2 - 2), kind = e.substr(c2 + 1);
        auto parent = Select(sel);
        if (!parent) return;
        CBlock b;
        if (!Build(kind, *parent, b)) return;
        uint256 h = b.GetHash();
        if (!by_hash.count(h)) {
            if (L.Known(h)) { n.ProcessBlock(b, true); Check(e); return; } // identical to a base block
            L.Add(b);
            by_hash[h] = built.size();
            built.push_back({h, *parent, kind, false});
        }
        bool parent_ok = R.ChainError(*parent).empty();
        std::string err = R.ChainError(h);
        ck::BlockResult r = n.ProcessBlock(b, true);
        if (parent_ok) built[by_hash[h]].delivered = true;
        if (!err.empty()) {
            fs.sh->outcome_classes[1]++;
            LOCK(cs_main);
            const CBlockIndex* pi = n.chainman().m_blockman.LookupBlockIndex(h);
            if (pi && n.chainman().ActiveChain().Contains(*pi)) fs.report("C05-sim-invalid-block-active:" + kind, "block of kind '" + kind + "' violates '" + err + "' on this branch but is in the active chain");
            if (r.checked && r.valid && parent_ok) fs.report("C05-sim-invalid-block-checked-valid:" + kind, "BlockChecked reported valid for a block that violates '" + err + "'");
        } else fs.sh->outcome_classes[0]++;
        Check(e);
    }
    void Check(const std::string& e)
    {
        uint256 tip = n.tip()->GetBlockHash();
        if (!L.Known(tip)) { fs.report("C05-sim-tip-unknown", "active tip is a block the harness never built"); return; }
        std::string terr = R.ChainError(tip);
        if (!terr.empty()) fs.report("C05-sim-active-chain-invalid", "after '" + e + "' the active chain violates '" + terr + "'");
        int best = L.Height(base_tip);
        uint256 best_h = base_tip;
        for (auto& b : built) {
            if (!b.delivered || !ChainDelivered(b.hash) || !R.ChainError(b.hash).empty()) continue;
            if (L.Height(b.hash) > best) { best = L.Height(b.hash); best_h = b.hash; }
        }
        if (L.Height(tip) < best) {
            auto& bb = built[by_hash[best_h]];
            fs.report("C05-sim-valid-chain-not-adopted:" + bb.kind, "after '" + e + "' the tip has height " + std::to_string(L.Height(tip)) + " but a delivered chain that satisfies every timelock / maturity rule has height " + std::to_string(best) + " (head kind '" + bb.kind + "')");
        }
        auto refu = L.UtxoAt(tip);
        if (refu) {
            std::string d = ck::CompareUtxo(n, L, *refu);
            if (!d.empty()) fs.report("C05-sim-utxo-mismatch", "after '" + e + "': " + d);
        }
    }
    uint64_t Key()
    {
        std::string k = n.tip()->GetBlockHash().ToString();
        std::vector<std::string> parts;
        LOCK(cs_main);
        for (auto& b : built) {
            const CBlockIndex* pi = n.chainman().m_blockman.LookupBlockIndex(b.hash);
            parts.push_back(b.hash.ToString().substr(0, 16) + (b.delivered ? "D" : "d") + (pi ? std::to_string(pi->nStatus & (BLOCK_FAILED_VALID | BLOCK_HAVE_DATA)) : "-"));
        }
        std::sort(parts.begin(), parts.end());
        for (auto& p : parts) k += p;
        return vx::fnv1a(k);
    }
    void Run(int depth, int split)
    {
        if (ck::ThreadCount() != 1) throw std::runtime_error("C05: process is not single-threaded");
        fs.max_depth = depth;
        fs.split_depth = split;
        fs.events = [&] { return Events(); };
        fs.apply = [&](const std::string& e) { Apply(e); };
        fs.key = [&] { return Key(); };
        fs.on_worker_start = [&](unsigned w) { n.RepointBlocksDir(n.BlocksDir().parent_path() / ("w" + std::to_string(w))); };
        fs.run();
    }
};

int main(int argc, char** argv)
{
    vx::init(argc, argv, "C05", "model_checking", 150, 1500);
    vx::scratch_dir();
    auto& E = vx::ev();
    const bool big = vx::thorough();
    unsigned workers = std::min<unsigned>(vx::ncpu(), 16);
    std::string only, hist;
    if (!vx::ctx().replay.empty()) {
        std::ifstream f(vx::ctx().replay);
        std::string line;
        while (std::getline(f, line)) {
            if (line.rfind("case: ", 0) == 0) only = line.substr(6);
            if (line.rfind("history: ", 0) == 0) hist = line.substr(9);
            if (line.size() && line[0] != '#' && only.empty() && hist.empty()) printf("replay: pure-function case: %s (re-run the tier to re-evaluate)\n", line.c_str());
        }
    }
    bool bad = false;
    // ---------------------------------------------------------------- (a)
    EnumStats st;
    if (only.empty() && hist.empty()) {
        EnumIsFinal(st);
        EnumSequenceLocks(st, big);
        printf("enumeration: %.1fs, %llu evaluations\n", vx::elapsed(), (unsigned long long)st.evals.load());
        E.evaluations = st.evals.load();
        if (!st.finals || !st.nonfinals || !st.lock_ok || !st.lock_fail) { printf("HARNESS-ERROR C05 enumeration lacks an outcome class\n"); bad = true; }
        E.sample("enum: IsFinalTx final=" + std::to_string(st.finals.load()) + " nonfinal=" + std::to_string(st.nonfinals.load()) + "; sequence locks satisfied=" + std::to_string(st.lock_ok.load()) + " unsatisfied=" + std::to_string(st.lock_fail.load()));
    }
    // ---------------------------------------------------------------- (b1)
    GridTotals G;
    if (hist.empty()) {
        std::vector<int> patterns = big ? std::vector<int>{0, 1, 2, 3, 4} : std::vector<int>{0, 1, 2};
        for (int p : patterns) {
            if (vx::deadline_reached()) { E.exhaustive = false; break; }
            double t0 = vx::elapsed();
            RunGrid(p, big, workers, G, only);
            printf("grid pattern %d: %.1fs (cases so far %llu)\n", p, vx::elapsed() - t0, (unsigned long long)G.cases);
        }
        if (only.empty()) {
            E.evaluations += G.cases * 2;
            E.set("grid_cases", G.cases);
            E.set("grid_ref_accept", G.accept);
            E.set("grid_ref_reject", G.reject);
            std::string ks;
            for (auto& [k, pr] : G.kind) {
                ks += k + ":" + std::to_string(pr.first) + "+/" + std::to_string(pr.second) + "- ";
                if ((pr.first == 0 || pr.second == 0) && E.exhaustive) { printf("HARNESS-ERROR C05 grid kind %s lacks accepts or rejects\n", k.c_str()); bad = true; }
            }
            E.set_str("grid_kinds_accept_reject", ks);
            for (const char* r : {"bad-txns-nonfinal", "bad-txns-premature-spend-of-coinbase"})
                if (!G.reasons.count(r) && E.exhaustive) { printf("HARNESS-ERROR C05 grid never saw reason %s\n", r); bad = true; }
            if (G.harness_error) bad = true;
        } else {
            printf("replayed grid case '%s': %llu evaluated\n", only.c_str(), (unsigned long long)G.cases);
            return vx::rep().violations ? 1 : 0;
        }
    }
    // ---------------------------------------------------------------- (b2)
    {
        ck::NodeOpts o;
        o.min_validation_cache = true;
        ck::Node node(o);
        TLSim sim(node);
        sim.kinds = {"empty", "slow", "fund", "fundslow", "h", "t", "rh", "rt", "cb", "fund+rh"};
        sim.parents = {"t0", "t1"};
        int depth = big ? 3 : 2;
        sim.max_new_blocks = depth;
        if (!sim.Init()) return vx::finish();
        if (!hist.empty()) {
            sim.fs.sh = new vx::ForkShared();
            sim.fs.log_fd = 1;
            size_t pos = 0;
            while (pos < hist.size()) {
                size_t e = hist.find(" | ", pos);
                std::string ev = hist.substr(pos, e == std::string::npos ? std::string::npos : e - pos);
                printf("replay: %s (tip height %d)\n", ev.c_str(), node.height());
                sim.fs.hist.push_back(ev);
                sim.Apply(ev);
                if (e == std::string::npos) break;
                pos = e + 3;
            }
            printf("replay done: tip height %d, reports=%d\n", node.height(), (int)sim.fs.sh->violations.load());
            return sim.fs.sh->violations.load() ? 1 : 0;
        }
        sim.fs.workers = workers;
        double t0 = vx::elapsed();
        sim.Run(depth, big ? 1 : 0);
        printf("sim: %.1fs\n", vx::elapsed() - t0);
        E.set("sim_depth", (uint64_t)depth);
        E.set("sim_blocks_ref_valid", sim.fs.sh->outcome_classes[0].load());
        E.set("sim_blocks_ref_invalid", sim.fs.sh->outcome_classes[1].load());
        if (E.exhaustive && (!sim.fs.sh->outcome_classes[0].load() || !sim.fs.sh->outcome_classes[1].load())) { printf("HARNESS-ERROR C05 sim never delivered both valid and timelock-invalid blocks\n"); bad = true; }
        std::string kinds, parents;
        for (auto& k : sim.kinds) kinds += k + " ";
        for (auto& p : sim.parents) parents += p + " ";
        E.sample("sim event alphabet: B:{" + parents + "}:{" + kinds + "}; fixed txs: h (nLockTime=base+1), t (nLockTime=time of block 99 + 1 s), fund / fundslow (minimal timestamp), rh (seq=1 on fund's output), rt (seq=TYPE|1), cb (coinbase 5: depth 100 at height base+1), fund+rh (parent and its seq=1 child in one block)");
    }
    E.distinct_nontrivial = st.distinct.size() + G.distinct.size();
    E.rule = "(a) every combination of the boundary alphabets for IsFinalTx (locktime x height x time x sequence tuples) and for CalculateSequenceLocks/EvaluateSequenceLocks/SequenceLocks "
             "(5 timestamp patterns x block positions x versions {0,1,2,3,2^32-1} x flags x 1..3 inputs of (coin height, nSequence) around the boundary) vs the BIP65/68/113 transcription; "
             "(b1) grid of single candidate blocks at height 111 on base chains with controlled times through TestBlockValidity + ProcessNewBlock (2 evaluations per case), verdict and reason; "
             "(b2) states/transitions: fork-per-transition search over block deliveries containing fixed time-locked transactions on parents tip/tip-1(/tip-2); "
             "distinct = distinct (deciding clause, inputs) of (a) + distinct grid cases";
    E.assume("regtest (CSV/BIP113 active from height 1), synthetic CBlockIndex chains for (a); block timestamps > MTP(prev) and < mock now + 2h in (b)");
    int rc = vx::finish();
    if (bad && rc == 0) return 2;
    return rc;
}
