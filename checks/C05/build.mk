LINK := full
KITS := chainkit
