// C29 — Package acceptance is well-formed and leaves no dangling children.
// (a) VX-ENUM of the context-free predicates of src/policy/packages.cpp: every sequence of length 1..4 (thorough 5)
//     over a universe of 7 transactions (fixed dependency DAG: P1, P2, P3(P1), CH(P1,P2,P3), X (conflicts with P2),
//     T (same txid as P1, different witness), Z (no inputs)) against reference predicates written from the doc
//     comments in packages.h; count 25/26 and weight 404,000/404,001 edges.
// (b) every sequence over the 6 real transactions x mempool state {empty, parent present, twin present, conflicting
//     tx present, full with cheap fillers, full with expensive fillers} x fee profile {P1 pays, P1 pays nothing and
//     needs CH} x {submit, test_accept}: ProcessNewPackage on a real regtest node (ck::Node), one process per
//     (pool state, profile) group, pool restored after every case. Oracle: ill-formed (reference predicate) => package-wide PCKG_POLICY error, no per-tx result, pool
//     unchanged; afterwards no package tx is in the pool while an in-package parent is absent; every per-tx result is
//     keyed by a package wtxid and matches pool membership (txid for a different-witness twin); test_accept never
//     changes the pool; CTxMemPool::check passes.
//     A second family {M, Q1(M), Q2 replacing M by RBF, QC(Q1,Q2)} x pool {empty, M, M+Q1} covers package members that
//     replace a mempool ancestor of another member.
#include <vx/vx.h>

#include <kits/chainkit.h>

#include <chainparams.h>
#include <consensus/validation.h>
#include <crypto/sha256.h>
#include <policy/packages.h>
#include <policy/policy.h>
#include <util/time.h>

#include <filesystem>
#include <sys/resource.h>
#include <sys/wait.h>

using namespace ck;

static std::string u(int64_t v) { return std::to_string(v); }

// ---------------------------------------------------------------- reference predicates (from packages.h comments)
static bool ref_has_duplicates(const Package& p)
{
    std::set<uint256> ids;
    for (auto& t : p) ids.insert(t->GetHash().ToUint256());
    return ids.size() != p.size();
}
// "False if any tx spends the output of a tx that appears later in txns."
static bool ref_topo(const Package& p)
{
    for (size_t i = 0; i < p.size(); i++)
        for (auto& in : p[i]->vin)
            for (size_t j = i + 1; j < p.size(); j++)
                if (p[j]->GetHash() == in.prevout.hash) return false;
    return true;
}
// "False if any two transactions spend the same prevout"; "returns false immediately if any transactions have empty
// vin"; "does not check if a transaction spends the same prevout multiple times"; includes duplicate transactions.
static bool ref_consistent(const Package& p)
{
    std::set<COutPoint> seen;
    for (auto& t : p) {
        if (t->vin.empty()) return false;
        for (auto& in : t->vin) if (seen.count(in.prevout)) return false;
        for (auto& in : t->vin) seen.insert(in.prevout);
    }
    return true;
}
static int64_t ref_weight(const Package& p)
{
    int64_t w = 0;
    for (auto& t : p) w += GetTransactionWeight(*t);
    return w;
}
// 1. count <= 25; 2. total weight <= 404000 (reported only for multi-tx packages); 3. parents before children;
// 4. no conflicts, no duplicates
static std::string ref_wellformed(const Package& p)
{
    if (p.size() > 25) return "count";
    if (p.size() > 1 && ref_weight(p) > 404000) return "weight";
    if (ref_has_duplicates(p)) return "duplicates";
    if (!ref_topo(p)) return "unsorted";
    if (!ref_consistent(p)) return "conflict";
    return "";
}
// "exactly one child and its parents; not all parents need to be present, but the package must not contain any
// transactions that are not the child's parents ... the last transaction must be the child"
static bool ref_cwp(const Package& p)
{
    if (p.size() < 2) return false;
    for (size_t i = 0; i + 1 < p.size(); i++) {
        bool is_parent = false;
        for (auto& in : p.back()->vin) if (in.prevout.hash == p[i]->GetHash()) is_parent = true;
        if (!is_parent) return false;
    }
    return true;
}
// "... and none of the parents depend on each other"
static bool ref_tree(const Package& p)
{
    if (!ref_cwp(p)) return false;
    for (size_t i = 0; i + 1 < p.size(); i++)
        for (auto& in : p[i]->vin)
            for (size_t j = 0; j + 1 < p.size(); j++)
                if (in.prevout.hash == p[j]->GetHash()) return false;
    return true;
}

// ---------------------------------------------------------------- universe
static CScript DropScript() { return CScript() << OP_DROP << OP_1; }
static CScript P2wsh(const CScript& ws)
{
    uint256 h;
    CSHA256().Write(ws.data(), ws.size()).Finalize(h.begin());
    return CScript() << OP_0 << std::vector<unsigned char>(h.begin(), h.end());
}
enum { P1 = 0, P2, P3, CH, X, T, NREAL, Z = NREAL, NALL };
static const char* TXNAME[] = {"P1", "P2", "P3", "CH", "X", "T", "Z"};

// second family (replacement of a mempool ancestor): M (in the pool), Q1 spends M, Q2 double-spends M's input with a much
// higher fee (conflict with the mempool, not inside the package), QC spends Q1 and Q2
enum { FM = 0, FQ1, FQ2, FQC, NFAM1 };
static const char* TXNAME1[] = {"M", "Q1", "Q2", "QC"};

struct Universe {
    std::vector<const char*> name;         // names of tx[]
    int nreal{0};                          // transactions used for ProcessNewPackage sequences
    std::vector<CTransactionRef> tx;       // indexed by the enum
    std::vector<CTransactionRef> fillers;  // independent txs used to fill the pool
    CTransactionRef setup;                 // confirmed tx providing the coins
};
static const CAmount COIN_VALUE = 100000000;
static const int N_SETUP_OUT = 40;

static CMutableTransaction spend_with_drop_witness(const COutPoint& op, unsigned char x, const std::vector<TxOut>& outs)
{
    CMutableTransaction m = MakeTx({{op, 0xffffffff, false}}, outs);
    CScript ws = DropScript();
    m.vin[0].scriptWitness.stack = {std::vector<unsigned char>{x}, std::vector<unsigned char>(ws.begin(), ws.end())};
    return m;
}
// All transactions are a pure function of (setup txid, fee profile).
static Universe make_universe(const Txid& setup_txid, int profile, CAmount filler_fee, int family = 0)
{
    Universe U;
    if (family == 1) {
        auto c = [&](int i) { return COutPoint(setup_txid, (uint32_t)i); };
        U.name.assign(TXNAME1, TXNAME1 + NFAM1);
        U.nreal = NFAM1;
        U.tx.resize(NFAM1);
        U.tx[FM] = SpendTx({c(36)}, {COIN_VALUE - 10000});
        U.tx[FQ1] = SpendTx({COutPoint(U.tx[FM]->GetHash(), 0)}, {COIN_VALUE - 20000});
        U.tx[FQ2] = SpendTx({c(36), c(37)}, {2 * COIN_VALUE - 300000}); // replaces M (and its descendants) when admitted
        U.tx[FQC] = SpendTx({COutPoint(U.tx[FQ1]->GetHash(), 0), COutPoint(U.tx[FQ2]->GetHash(), 0)}, {3 * COIN_VALUE - 20000 - 300000 - 50000});
        return U;
    }
    U.name.assign(TXNAME, TXNAME + NALL);
    U.nreal = NREAL;
    U.tx.resize(NALL);
    const CAmount fee = 10000, p1fee = profile == 1 ? 0 : fee;
    auto c = [&](int i) { return COutPoint(setup_txid, (uint32_t)i); };
    const CAmount half = (COIN_VALUE - p1fee) / 2;
    U.tx[P1] = MakeTransactionRef(spend_with_drop_witness(c(0), 1, {{half, OpTrueSpk()}, {COIN_VALUE - p1fee - half, OpTrueSpk()}}));
    U.tx[T] = MakeTransactionRef(spend_with_drop_witness(c(0), 2, {{half, OpTrueSpk()}, {COIN_VALUE - p1fee - half, OpTrueSpk()}}));
    U.tx[P2] = SpendTx({c(1)}, {COIN_VALUE - fee});
    U.tx[X] = SpendTx({c(1)}, {COIN_VALUE - 12000});
    const Txid p1 = U.tx[P1]->GetHash();
    U.tx[P3] = SpendTx({c(2), COutPoint(p1, 1)}, {COIN_VALUE + (COIN_VALUE - p1fee - half) - fee});
    const CAmount in_ch = half + (COIN_VALUE - fee) + (COIN_VALUE + (COIN_VALUE - p1fee - half) - fee);
    U.tx[CH] = SpendTx({COutPoint(p1, 0), COutPoint(U.tx[P2]->GetHash(), 0), COutPoint(U.tx[P3]->GetHash(), 0)}, {in_ch - 100000});
    { CMutableTransaction z; z.version = 2; z.vout.emplace_back(1000, OpTrueSpk()); U.tx[Z] = MakeTransactionRef(z); }
    // fillers: 30 independent ~900 vB transactions (the pool limit must be >= 40 x the cluster size limit, see Flatten())
    for (int i = 0; i < 30; i++) {
        CMutableTransaction m = MakeTx({{c(3 + i)}}, {{COIN_VALUE - filler_fee * 8 - i, OpTrueSpk()}, {0, CScript() << OP_RETURN << std::vector<unsigned char>(780, (unsigned char)i)}});
        U.fillers.push_back(MakeTransactionRef(m));
    }
    return U;
}

// ---------------------------------------------------------------- (a) predicates
static void layer_a(const Universe& U, bool big)
{
    auto& E = vx::ev();
    const int maxlen = big ? 5 : 4;
    uint64_t n = 0;
    vx::Distinct classes;
    std::vector<int> idx;
    std::function<void()> rec = [&] {
        if (!idx.empty()) {
            Package p;
            std::string name;
            for (int i : idx) { p.push_back(U.tx[i]); name += std::string(TXNAME[i]) + " "; }
            PackageValidationState st;
            const bool wf = IsWellFormedPackage(p, st);
            const std::string rwf = ref_wellformed(p);
            if (wf != rwf.empty()) vx::violation("wellformed[" + name + "]", "IsWellFormedPackage=" + u(wf) + " (" + st.GetRejectReason() + "), reference: " + (rwf.empty() ? "well-formed" : rwf), name);
            if (!wf && (st.IsValid() || st.GetResult() != PackageValidationResult::PCKG_POLICY)) vx::violation("wellformed-state[" + name + "]", "false returned without a PCKG_POLICY state", name);
            if (wf && !st.IsValid()) vx::violation("wellformed-state-valid[" + name + "]", "true returned with an invalid state", name);
            const bool dup = ref_has_duplicates(p);
            if (!dup) { // IsTopoSortedPackage documents its precondition: the txids of txns are distinct
                if (IsTopoSortedPackage(p) != ref_topo(p)) vx::violation("toposorted[" + name + "]", "IsTopoSortedPackage=" + u(!ref_topo(p)) + " differs from the reference", name);
            }
            if (IsConsistentPackage(p) != ref_consistent(p)) vx::violation("consistent[" + name + "]", "IsConsistentPackage=" + u(!ref_consistent(p)) + " differs from the reference", name);
            if (IsChildWithParents(p) != ref_cwp(p)) vx::violation("childwithparents[" + name + "]", "IsChildWithParents=" + u(!ref_cwp(p)) + " differs from the reference", name);
            if (IsChildWithParentsTree(p) != ref_tree(p)) vx::violation("childwithparentstree[" + name + "]", "IsChildWithParentsTree=" + u(!ref_tree(p)) + " differs from the reference", name);
            n += dup ? 4 : 5;
            classes.add(rwf + "|" + u(ref_topo(p)) + u(ref_consistent(p)) + u(ref_cwp(p)) + u(ref_tree(p)) + "|" + u(p.size()));
        }
        if ((int)idx.size() == maxlen) return;
        for (int i = 0; i < NALL; i++) { idx.push_back(i); rec(); idx.pop_back(); }
    };
    rec();
    // count edge: 25 vs 26 independent transactions
    for (int cnt : {24, 25, 26, 27}) {
        Package p;
        for (int i = 0; i < cnt; i++) p.push_back(SpendTx({COutPoint(Txid::FromUint256(uint256{(uint8_t)(i + 1)}), 0)}, {1000}));
        PackageValidationState st;
        bool wf = IsWellFormedPackage(p, st);
        n++;
        if (wf != (cnt <= 25)) vx::violation("count-edge-" + u(cnt), "IsWellFormedPackage=" + u(wf) + " for " + u(cnt) + " independent transactions (" + st.GetRejectReason() + ")", u(cnt));
    }
    // weight edge: two transactions with total weight exactly 403,999 / 404,000 / 404,001 / 404,004; one tx alone above the limit
    for (int64_t target : {403999, 404000, 404001, 404004}) {
        CMutableTransaction a = MakeTx({{COutPoint(Txid::FromUint256(uint256{1}), 0)}}, {{1000, CScript() << OP_RETURN << std::vector<unsigned char>(70000, 1)}});
        CMutableTransaction b = MakeTx({{COutPoint(Txid::FromUint256(uint256{2}), 0)}}, {{1000, OpTrueSpk()}});
        int64_t wa = GetTransactionWeight(CTransaction(a)), wb = GetTransactionWeight(CTransaction(b));
        int64_t need = target - wa - wb; // grow b: 4 weight units per output-script byte, 1 per witness byte
        if (need < 0) { printf("HARNESS-ERROR property=C29 weight construction\n"); exit(2); }
        std::vector<unsigned char> pad((size_t)(need / 4), 2);
        b.vout.emplace_back(0, CScript() << OP_RETURN << pad);
        b.vin[0].scriptWitness.stack.insert(b.vin[0].scriptWitness.stack.begin(), std::vector<unsigned char>(1, 7));
        // fine adjustment with witness bytes
        for (int guard = 0; guard < 2000 && GetTransactionWeight(CTransaction(a)) + GetTransactionWeight(CTransaction(b)) != target; guard++) {
            int64_t w = GetTransactionWeight(CTransaction(a)) + GetTransactionWeight(CTransaction(b));
            auto& item = b.vin[0].scriptWitness.stack[0];
            if (w < target) item.push_back(7);
            else if (item.size() > 1) item.pop_back();
            else { b.vout.back().scriptPubKey = CScript() << OP_RETURN << std::vector<unsigned char>(pad.size() > 8 ? pad.size() - 8 : 0, 2); pad.resize(pad.size() > 8 ? pad.size() - 8 : 0); }
        }
        Package p{MakeTransactionRef(a), MakeTransactionRef(b)};
        if (ref_weight(p) != target) { printf("HARNESS-ERROR property=C29 could not construct weight %ld (got %ld)\n", (long)target, (long)ref_weight(p)); exit(2); }
        PackageValidationState st;
        bool wf = IsWellFormedPackage(p, st);
        n++;
        if (wf != (target <= 404000)) vx::violation("weight-edge-" + u(target), "IsWellFormedPackage=" + u(wf) + " for total weight " + u(target) + " (" + st.GetRejectReason() + ")", u(target));
        Package single{MakeTransactionRef(MakeTx({{COutPoint(Txid::FromUint256(uint256{3}), 0)}}, {{1000, CScript() << OP_RETURN << std::vector<unsigned char>(102000, 1)}}))};
        PackageValidationState st1;
        n++;
        if (ref_weight(single) <= 404000 || !IsWellFormedPackage(single, st1)) vx::violation("weight-single", "a single over-weight transaction must be left to the per-transaction policy (weight " + u(ref_weight(single)) + ")", "single");
    }
    E.evaluations += n;
    E.set("predicate_evaluations", n);
    E.set("predicate_distinct_classes", (uint64_t)classes.size());
    E.distinct_nontrivial += classes.size();
}

// ---------------------------------------------------------------- (b) ProcessNewPackage
enum PoolState { EMPTY = 0, PARENT, TWIN, CONFLICT, ANC, ANC_CHILD, FULL_CHEAP, FULL_RICH, FULL_RICH_WIDE, NSTATES };
static const char* STNAME[] = {"empty", "parent-P2-present", "twin-T-present", "conflict-X-present", "ancestor-M-present", "ancestor-M-and-child-Q1-present", "full-cheap-fillers", "full-rich-fillers", "full-rich-fillers-room-for-2"};

struct Group { int state, profile, test_accept; int family{0}; };

struct World {
    std::unique_ptr<Node> n;
    RefLedger L;
    Universe U;
    std::string tmpdir;
    ~World()
    {
        n.reset();
        if (!tmpdir.empty()) { std::error_code ec; std::filesystem::remove_all(tmpdir, ec); }
    }
    std::string Setup(const Group& g, int64_t max_pool_bytes)
    {
        // Every node process needs its own TMPDIR: the temp-datadir name generator of BasicTestingSetup was seeded in
        // the common ancestor, so sibling processes would otherwise pick the same directory.
        tmpdir = vx::scratch_dir() + "/C29-" + std::to_string(getpid());
        mkdir(tmpdir.c_str(), 0755);
        setenv("TMPDIR", tmpdir.c_str(), 1);
        NodeOpts o;
        if (max_pool_bytes > 0) o.mempool_tweak = [max_pool_bytes](CTxMemPool::Options& mo) { mo.max_size_bytes = max_pool_bytes; mo.limits.cluster_size_vbytes = 1000; };
        n = std::make_unique<Node>(o);
        L.AddGenesis(Params().GenesisBlock());
        SetMockTime(Params().GenesisBlock().nTime + 600 * 1000);
        auto hashes = MineEmpty(*n, L, 102);
        // setup tx: coinbase of block 1 -> N_SETUP_OUT coins; output 0 is P2WSH(OP_DROP OP_1) (allows two valid witnesses)
        const CBlock& b1 = L.blocks.at(hashes[0]).block;
        std::vector<TxOut> outs;
        outs.push_back({COIN_VALUE, P2wsh(DropScript())});
        for (int i = 1; i < N_SETUP_OUT; i++) outs.push_back({COIN_VALUE, OpTrueSpk()});
        CAmount cb = b1.vtx[0]->vout[0].nValue;
        CMutableTransaction s = MakeTx({{COutPoint(b1.vtx[0]->GetHash(), 0)}}, outs);
        CAmount fee = cb - COIN_VALUE * N_SETUP_OUT;
        U.setup = MakeTransactionRef(s);
        BlockOpts bo;
        bo.fees = fee;
        CBlock blk = MakeBlock(*n, n->tip(), {U.setup}, bo);
        BlockResult r = n->ProcessBlock(blk);
        if (!r.valid || n->tip()->GetBlockHash() != blk.GetHash()) return "setup block rejected: " + r.reason;
        L.Add(blk);
        U = [&] { Universe x = make_universe(s.GetHash(), g.profile, (g.state == FULL_RICH || g.state == FULL_RICH_WIDE) ? 400000 : 600, g.family); x.setup = U.setup; return x; }();
        // pool state
        auto must = [&](const CTransactionRef& t, const char* what) -> std::string {
            auto res = n->SubmitTx(t);
            if (res.m_result_type != MempoolAcceptResult::ResultType::VALID) return std::string("cannot prepare pool state (") + what + "): " + res.m_state.GetRejectReason();
            return "";
        };
        std::string e;
        if (g.state == PARENT) e = must(U.tx[P2], "P2");
        if (g.state == TWIN) e = must(U.tx[T], "T");
        if (g.state == CONFLICT) e = must(U.tx[X], "X");
        if (g.state == ANC || g.state == ANC_CHILD) e = must(U.tx[FM], "M");
        if (g.state == ANC_CHILD && e.empty()) e = must(U.tx[FQ1], "Q1");
        if (g.state >= FULL_CHEAP) for (auto& f : U.fillers) if (e.empty()) e = must(f, "filler");
        return e;
    }
};

static std::set<uint256> pool_wtxids(CTxMemPool& pool)
{
    std::set<uint256> s;
    for (auto& info : pool.infoAll()) s.insert(info.tx->GetWitnessHash().ToUint256());
    return s;
}

// Runs one package in the current process; returns "" or "key\twhat". `sig` receives a behaviour signature.
static std::string run_case(World& w, const Group& g, const std::vector<int>& seq, std::string& sig)
{
    Node& n = *w.n;
    CTxMemPool& pool = n.pool();
    Package p;
    std::string name;
    for (int i : seq) { p.push_back(w.U.tx[i]); name += std::string(w.U.name[i]) + " "; }
    const std::string where = "[" + name + "] pool=" + STNAME[g.state] + " profile=" + u(g.profile) + (g.test_accept ? " test_accept" : "");
    const std::string illformed = !ref_wellformed(p).empty() ? ref_wellformed(p) : (p.size() > 1 && !ref_cwp(p)) ? "not-child-with-parents" : "";
    const auto before = pool_wtxids(pool);
    PackageMempoolAcceptResult res = [&] {
        LOCK(cs_main);
        return ProcessNewPackage(n.cs(), pool, p, g.test_accept, /*client_maxfeerate=*/{});
    }();
    const auto after = pool_wtxids(pool);
    { LOCK(cs_main); pool.check(n.cs().CoinsTip(), n.height() + 1); }
    if (getenv("C29_DEBUG")) {
        LOCK(pool.cs);
        auto wc = pool.m_txgraph->GetWorstMainChunk();
        std::string names;
        for (auto ref : wc.first) { auto& e = static_cast<const CTxMemPoolEntry&>(*ref); for (int i = 0; i < w.U.nreal; i++) if (w.U.tx[i]->GetHash() == e.GetTx().GetHash()) names += std::string(w.U.name[i]) + " "; }
        fprintf(stderr, "[worst chunk] size %zu fee %ld size %d : %s\n", wc.first.size(), (long)wc.second.fee, (int)wc.second.size, names.c_str());
    }
    sig = std::string(STNAME[g.state]) + "|" + u(g.profile) + u(g.test_accept) + "|" + (illformed.empty() ? "ok" : illformed) + "|" + u(res.m_state.IsValid()) + "|";
    for (auto& t : p) {
        auto it = res.m_tx_results.find(t->GetWitnessHash());
        sig += it == res.m_tx_results.end() ? "-" : u((int)it->second.m_result_type);
        if (it != res.m_tx_results.end() && it->second.m_result_type == MempoolAcceptResult::ResultType::INVALID && it->second.m_state.GetRejectReason() == "mempool full") sig += "F";
        sig += after.count(t->GetWitnessHash().ToUint256()) ? "m" : pool.exists(t->GetHash()) ? "t" : ".";
    }
    for (auto& h : before) if (!after.count(h)) { sig += "|evicted"; break; }
    // test_accept with an arbitrary (non child-with-parents) package is allowed; ill-formedness there = not well-formed only
    const bool must_reject_early = g.test_accept ? !ref_wellformed(p).empty() : !illformed.empty();
    if (must_reject_early) {
        if (res.m_state.IsValid() || res.m_state.GetResult() != PackageValidationResult::PCKG_POLICY) return "illformed-not-rejected-" + illformed + "\till-formed package (" + illformed + ") did not get a package-wide policy error: " + where;
        if (!res.m_tx_results.empty()) return "illformed-evaluated-" + illformed + "\ttransactions of an ill-formed package (" + illformed + ") were evaluated (" + u(res.m_tx_results.size()) + " results): " + where;
        if (after != before) return "illformed-changed-pool-" + illformed + "\tmempool changed by an ill-formed package (" + illformed + "): " + where;
        return "";
    }
    if (g.test_accept) {
        if (after != before) return "testaccept-changed-pool\ttest_accept changed the mempool: " + where;
        return "";
    }
    if (res.m_state.IsInvalid() && res.m_state.GetResult() == PackageValidationResult::PCKG_POLICY && res.m_tx_results.empty())
        return "wellformed-rejected-as-policy\twell-formed child-with-parents package rejected with a package-wide policy error (" + res.m_state.GetRejectReason() + "): " + where;
    // no dangling children
    for (size_t i = 0; i < p.size(); i++) {
        if (!pool.exists(p[i]->GetHash())) continue;
        for (auto& in : p[i]->vin)
            for (size_t j = 0; j < p.size(); j++)
                if (j != i && in.prevout.hash == p[j]->GetHash() && !pool.exists(p[j]->GetHash()))
                    return std::string("dangling-child-") + w.U.name[seq[i]] + "-without-" + w.U.name[seq[j]] + "\t" + w.U.name[seq[i]] + " is in the mempool but its in-package parent " + w.U.name[seq[j]] + " is not: " + where;
    }
    // per-tx results: keyed by package wtxids, consistent with membership
    std::set<uint256> pkg_wtxids;
    for (auto& t : p) pkg_wtxids.insert(t->GetWitnessHash().ToUint256());
    for (auto& [wtxid, r] : res.m_tx_results)
        if (!pkg_wtxids.count(wtxid.ToUint256())) return "result-key-not-a-package-wtxid\tm_tx_results has a key that is not the wtxid of a package transaction: " + where;
    bool any_invalid = false;
    for (size_t i = 0; i < p.size(); i++) {
        auto it = res.m_tx_results.find(p[i]->GetWitnessHash());
        const bool in_w = pool.exists(p[i]->GetWitnessHash()), in_t = pool.exists(p[i]->GetHash());
        const std::string tn = w.U.name[seq[i]];
        if (it == res.m_tx_results.end()) {
            // "If a result is not present, it means validation was unfinished for that transaction."
            if (in_w && !before.count(p[i]->GetWitnessHash().ToUint256())) return "added-without-result-" + tn + "\t" + tn + " was added to the mempool but has no result: " + where;
            any_invalid = true;
            continue;
        }
        switch (it->second.m_result_type) {
        case MempoolAcceptResult::ResultType::VALID:
            if (!in_w) return "result-valid-but-absent-" + tn + "\t" + tn + " reported VALID but is not in the mempool: " + where;
            if (before.count(p[i]->GetWitnessHash().ToUint256())) return "result-valid-but-was-present-" + tn + "\t" + tn + " reported VALID (newly added) but was in the mempool before: " + where;
            break;
        case MempoolAcceptResult::ResultType::MEMPOOL_ENTRY:
            if (!in_w) return "result-mempoolentry-but-absent-" + tn + "\t" + tn + " reported MEMPOOL_ENTRY but is not in the mempool: " + where;
            break;
        case MempoolAcceptResult::ResultType::DIFFERENT_WITNESS:
            if (in_w || !in_t) return "result-differentwitness-membership-" + tn + "\t" + tn + " reported DIFFERENT_WITNESS but twin membership is wrong (own wtxid present=" + u(in_w) + ", txid present=" + u(in_t) + "): " + where;
            if (!it->second.m_other_wtxid || !pool.exists(*it->second.m_other_wtxid)) return "result-differentwitness-other-wtxid-" + tn + "\treported twin wtxid is not in the mempool: " + where;
            break;
        case MempoolAcceptResult::ResultType::INVALID:
            any_invalid = true;
            if (in_w) return "result-invalid-but-present-" + tn + "\t" + tn + " reported INVALID but is in the mempool: " + where;
            if (it->second.m_state.IsValid()) return "result-invalid-without-state-" + tn + "\tINVALID result with a valid state: " + where;
            break;
        }
    }
    if (res.m_state.IsValid()) {
        for (size_t i = 0; i < p.size(); i++)
            if (!pool.exists(p[i]->GetHash())) return std::string("package-valid-but-tx-absent-") + w.U.name[seq[i]] + "\tpackage state is valid but " + w.U.name[seq[i]] + " is not in the mempool: " + where;
        if (any_invalid) return "package-valid-with-invalid-tx\tpackage state is valid but a transaction failed: " + where;
    }
    return "";
}

// Restore the pool to the group's initial state after a case: remove everything that is not part of the initial
// state, reset the rolling minimum fee (private state; -fno-access-control), re-add initial transactions that were
// evicted or replaced. Returns "" or an error.
struct InitialState {
    std::vector<CTransactionRef> txs;   // in submission order
    std::set<uint256> wtxids;
    int64_t last_update{0};
    bool block_since{false};
    double rolling{0};
};
static std::string restore(World& w, const InitialState& init)
{
    CTxMemPool& pool = w.n->pool();
    {
        LOCK2(cs_main, pool.cs);
        for (auto& info : pool.infoAll()) // infoAll takes the (recursive) pool lock itself
            if (!init.wtxids.count(info.tx->GetWitnessHash().ToUint256()) && pool.exists(info.tx->GetWitnessHash())) pool.removeRecursive(*info.tx, MemPoolRemovalReason::REPLACED);
        pool.rollingMinimumFeeRate = init.rolling;
        pool.blockSinceLastRollingFeeBump = init.block_since;
        pool.lastRollingFeeUpdate = init.last_update;
    }
    for (auto& t : init.txs)
        if (!pool.exists(t->GetWitnessHash())) {
            auto res = w.n->SubmitTx(t);
            if (res.m_result_type != MempoolAcceptResult::ResultType::VALID) return "cannot re-add initial transaction: " + res.m_state.GetRejectReason();
        }
    {
        LOCK(pool.cs);
        pool.rollingMinimumFeeRate = init.rolling;
        pool.blockSinceLastRollingFeeBump = init.block_since;
        pool.lastRollingFeeUpdate = init.last_update;
    }
    if (pool_wtxids(pool) != init.wtxids) return "pool membership differs from the initial state after restoring";
    return "";
}

// One process per group. Cases run in-process; the pool is restored to the group's initial state after each case
// (a fork per case costs > 100 ms of CPU on the shared machine). "B" lines name the case being started, so that an
// abort inside validation code can be attributed by the root.
static void group_main(const Group& g, int64_t max_pool_bytes, int maxlen, const std::vector<int>& extra, int out)
{
    World w;
    FILE* f = fdopen(out, "w");
    setvbuf(f, nullptr, _IOLBF, 0);
    double t_a = vx::elapsed();
    std::string e = w.Setup(g, max_pool_bytes);
    if (!e.empty()) { fprintf(f, "H\t%s\n", e.c_str()); fclose(f); _exit(0); }
    InitialState init;
    {
        CTxMemPool& pool = w.n->pool();
        if (g.state == PARENT) init.txs = {w.U.tx[P2]};
        if (g.state == TWIN) init.txs = {w.U.tx[T]};
        if (g.state == CONFLICT) init.txs = {w.U.tx[X]};
        if (g.state == ANC) init.txs = {w.U.tx[FM]};
        if (g.state == ANC_CHILD) init.txs = {w.U.tx[FM], w.U.tx[FQ1]};
        if (g.state >= FULL_CHEAP) init.txs = w.U.fillers;
        init.wtxids = pool_wtxids(pool);
        LOCK(pool.cs);
        init.rolling = pool.rollingMinimumFeeRate;
        init.block_since = pool.blockSinceLastRollingFeeBump;
        init.last_update = pool.lastRollingFeeUpdate;
        if (init.wtxids.size() != init.txs.size()) { fprintf(f, "H\tinitial pool state has %zu transactions, expected %zu\n", init.wtxids.size(), init.txs.size()); fclose(f); _exit(0); }
    }
    uint64_t ncases = 0, nviol = 0;
    std::set<std::string> sigs, vkeys;
    bool incomplete = false;
    std::vector<int> idx;
    std::function<void()> rec_leaf = [&] {
        if (idx.empty() || incomplete) return;
        if (vx::deadline_reached()) { incomplete = true; return; }
        std::string name;
        for (int i : idx) name += std::string(w.U.name[i]) + " ";
        fprintf(f, "B\t%s\n", name.c_str());
        std::string sig;
        std::string r = run_case(w, g, idx, sig);
        ncases++;
        if (getenv("C29_DEBUG")) fprintf(stderr, "[case] %s/%d%s [%s] -> %s %s\n", STNAME[g.state], g.profile, g.test_accept ? "t" : "", name.c_str(), sig.c_str(), r.c_str());
        if (!r.empty()) {
            std::string key = r.substr(0, r.find('\t'));
            if (vkeys.insert(key).second && vkeys.size() <= 12) fprintf(f, "V\t%s\n", r.c_str());
            nviol++;
        } else sigs.insert(sig);
        std::string re = restore(w, init);
        if (!re.empty()) { fprintf(f, "H\trestore after [%s]: %s\n", name.c_str(), re.c_str()); fclose(f); _exit(0); }
    };
    std::function<void()> rec = [&] {
        rec_leaf();
        // full universe up to maxlen; one more level over the sub-universe `extra` (only sequences entirely inside it)
        if ((int)idx.size() < maxlen) { for (int i = 0; i < w.U.nreal; i++) { idx.push_back(i); rec(); idx.pop_back(); } }
        else if ((int)idx.size() == maxlen && !extra.empty()) {
            bool inside = true;
            for (int i : idx) inside &= std::find(extra.begin(), extra.end(), i) != extra.end();
            if (!inside) return;
            for (int i : extra) { idx.push_back(i); rec_leaf(); idx.pop_back(); }
        }
    };
    rec();
    if (getenv("C29_TIMING")) fprintf(stderr, "[C29 timing] group %s/%d %llu cases done at %.2fs (setup incl.)\n", STNAME[g.state], g.profile, (unsigned long long)ncases, vx::elapsed() - t_a);
    for (auto& s : sigs) fprintf(f, "G\t%s\n", s.c_str());
    fprintf(f, "S\t%" PRIu64 "\t%" PRIu64 "\t%d\n", ncases, nviol, incomplete ? 1 : 0);
    fclose(f);
    w.~World();
    _exit(0);
}

// calibration: DynamicMemoryUsage of the pool holding the fillers (+1 more tx)
static void calibrate_main(int out)
{
    World w;
    Group g{FULL_CHEAP, 0, 0};
    std::string e = w.Setup(g, 0);
    FILE* f = fdopen(out, "w");
    if (!e.empty()) { fprintf(f, "H\t%s\n", e.c_str()); fclose(f); _exit(0); }
    size_t u0 = w.n->pool().DynamicMemoryUsage();
    w.n->SubmitTx(w.U.tx[P2]);
    size_t u1 = w.n->pool().DynamicMemoryUsage();
    fprintf(f, "C\t%zu\t%zu\n", u0, u1);
    fclose(f);
    w.~World();
    _exit(0);
}

static std::string read_all(int fd)
{
    std::string s;
    char buf[65536];
    ssize_t k;
    while ((k = read(fd, buf, sizeof buf)) > 0) s.append(buf, k);
    close(fd);
    return s;
}

int main(int argc, char** argv)
{
    vx::init(argc, argv, "C29", "exploration");
    auto& E = vx::ev();
    const bool big = vx::thorough();
    vx::scratch_dir();
    setvbuf(stdout, nullptr, _IOLBF, 0);

    // ---- calibration child (the root never owns a node: every node lives in its own process)
    int64_t max_pool = 0, max_pool_wide = 0;
    {
        int pfd[2];
        if (pipe(pfd)) return 2;
        fflush(stdout);
        pid_t pid = fork();
        if (pid == 0) { close(pfd[0]); calibrate_main(pfd[1]); }
        close(pfd[1]);
        std::string s = read_all(pfd[0]);
        int st; waitpid(pid, &st, 0);
        { std::error_code ec; std::filesystem::remove_all(vx::scratch_dir() + "/C29-" + std::to_string(pid), ec); }
        size_t u0 = 0, u1 = 0;
        if (sscanf(s.c_str(), "C\t%zu\t%zu", &u0, &u1) != 2 || u1 <= u0) { printf("HARNESS-ERROR property=C29 calibration failed: %s\n", s.c_str()); return 2; }
        max_pool = (int64_t)u1 + (int64_t)(u1 - u0) / 2; // room for the fillers plus about one and a half transactions
        if (max_pool < 40 * 1000) { printf("HARNESS-ERROR property=C29 fillers too small for the minimum pool limit (%ld)\n", (long)max_pool); return 2; }
        max_pool_wide = (int64_t)u1 + (int64_t)(u1 - u0) * 8 / 5; // fillers plus about 2.6 transactions: a 3-4 tx chunk is evicted as a whole
        E.set("full_pool_limit_bytes", (uint64_t)max_pool);
        E.set("full_pool_wide_limit_bytes", (uint64_t)max_pool_wide);
    }
    // ---- (b) groups
    std::vector<Group> groups;
    for (int profile = 0; profile < 2; profile++)
        for (int st = 0; st < NSTATES; st++) {
            if (st == TWIN && profile == 1) continue; // the twin has P1's (zero) fee and cannot be put into the pool
            if (st == ANC || st == ANC_CHILD) continue; // states of the second family (below)
            groups.push_back({st, profile, 0});
        }
    // second family: a later package member replaces a mempool ancestor of an earlier one (conflict with the pool only)
    for (int st : {EMPTY, ANC, ANC_CHILD}) groups.push_back({st, 0, 0, 1});
    groups.push_back({ANC_CHILD, 0, 1, 1});
    groups.push_back({EMPTY, 0, 1});
    groups.push_back({PARENT, 1, 1});
    if (big) { groups.push_back({TWIN, 0, 1}); groups.push_back({FULL_RICH, 1, 1}); }
    struct Running { pid_t pid; int fd; size_t gi; };
    std::vector<Running> running;
    size_t next = 0;
    uint64_t total_cases = 0, total_viol = 0;
    vx::Distinct sigs;
    std::map<std::string, uint64_t> sig_flags;
    bool incomplete = false;
    const unsigned maxpar = std::max(1u, std::min(vx::ncpu(), 16u));
    auto reap = [&](Running r) {
        std::string s = read_all(r.fd);
        int st; waitpid(r.pid, &st, 0);
        { std::error_code ec; std::filesystem::remove_all(vx::scratch_dir() + "/C29-" + std::to_string(r.pid), ec); } // in case the child died
        const Group& g = groups[r.gi];
        bool summary = false;
        std::string last_begun;
        std::istringstream is(s);
        std::string line;
        while (std::getline(is, line)) {
            if (line.rfind("B\t", 0) == 0) { last_begun = line.substr(2); continue; }
            if (line.rfind("V\t", 0) == 0) {
                size_t t = line.find('\t', 2);
                vx::violation(line.substr(2, t - 2), line.substr(t + 1), line.substr(t + 1));
            } else if (line.rfind("G\t", 0) == 0) {
                sigs.add(line);
                // flags for the sanity gates
                std::string body = line.substr(2);
                std::vector<std::string> parts;
                std::istringstream ps(body); std::string tok;
                while (std::getline(ps, tok, '|')) parts.push_back(tok);
                if (parts.size() >= 5) {
                    if (parts[2] != "ok") sig_flags["illformed:" + parts[2]]++;
                    if (parts[4].find('F') != std::string::npos) sig_flags["evicted-after-acceptance(mempool full)"]++;
                    if (parts.size() >= 6 && parts[5] == "evicted") sig_flags["pool-transactions-evicted-or-replaced"]++;
                    for (char c : parts[4]) { if (c >= '0' && c <= '3') sig_flags[std::string("result:") + c]++; }
                    if (parts[2] == "ok" && parts[3] == "1" && parts[4].find('0') != std::string::npos && parts[0] != "") sig_flags["package-accepted"]++;
                    if (g.profile == 1 && parts[2] == "ok" && parts[3] == "1" && !g.test_accept) sig_flags["cpfp-profile-accepted"]++;
                }
            } else if (line.rfind("S\t", 0) == 0) {
                uint64_t c = 0, v = 0; int inc = 0;
                sscanf(line.c_str(), "S\t%" SCNu64 "\t%" SCNu64 "\t%d", &c, &v, &inc);
                total_cases += c; total_viol += v; incomplete |= inc != 0; summary = true;
            } else if (line.rfind("H\t", 0) == 0) {
                printf("HARNESS-ERROR property=C29 group %s/%d: %s\n", STNAME[g.state], g.profile, line.c_str() + 2);
                exit(2);
            }
        }
        if (!summary) {
            // the node process died: attribute it to the case it had announced last (assert/abort inside validation or mempool code)
            if (!last_begun.empty() && WIFSIGNALED(st)) {
                vx::violation(std::string("process-died-") + STNAME[g.state] + "-profile" + u(g.profile), "node process died (signal " + u(WTERMSIG(st)) + ") while processing package [" + last_begun + "] pool=" + STNAME[g.state] + " profile=" + u(g.profile) + (g.test_accept ? " test_accept" : ""), last_begun);
                incomplete = true;
            } else { printf("HARNESS-ERROR property=C29 group %s/%d died (status %d)\n", STNAME[g.state], g.profile, st); exit(2); }
        }
    };
    while (next < groups.size() || !running.empty()) {
        while (next < groups.size() && running.size() < maxpar) {
            int pfd[2];
            if (pipe(pfd)) return 2;
            fflush(stdout);
            pid_t pid = fork();
            if (pid == 0) {
                close(pfd[0]);
                for (auto& r : running) close(r.fd);
                const Group& g = groups[next];
                // quick: every sequence of length <= 3, plus length 4 over {P1,P2,P3,CH} where eviction / CPFP matter;
                // thorough: every sequence of length <= 5
                int maxlen = big ? 5 : 3;
                if (g.family == 1 && !big) maxlen = 4; // 4 transactions only: 340 sequences
                std::vector<int> extra;
                if (big) extra = {};
                else if (g.family == 0 && !g.test_accept && (g.state == EMPTY || g.state == FULL_RICH || g.state == FULL_RICH_WIDE)) extra = {P1, P2, P3, CH};
                group_main(g, g.state == FULL_RICH_WIDE ? max_pool_wide : g.state >= FULL_CHEAP ? max_pool : 0, maxlen, extra, pfd[1]);
            }
            close(pfd[1]);
            running.push_back({pid, pfd[0], next});
            next++;
        }
        // reap the oldest (summaries are small, so children never block on their pipe)
        Running r = running.front();
        running.erase(running.begin());
        reap(r);
    }
    // ---- (a) predicates. Done after all node processes were forked: the root must not touch the global RNG before
    // (children would inherit its state and pick identical temporary datadir names).
    {
        Universe U = make_universe(Txid::FromUint256(uint256{9}), 0, 600);
        layer_a(U, big);
    }
    E.evaluations += total_cases;
    E.distinct_nontrivial += sigs.size();
    E.set("package_submissions", total_cases);
    E.set("package_groups", (uint64_t)groups.size());
    E.set("distinct_behaviour_signatures", (uint64_t)sigs.size());
    std::string flags;
    for (auto& kv : sig_flags) flags += kv.first + "=" + u(kv.second) + " ";
    E.set_str("outcome_classes_seen", flags);
    E.exhaustive = !incomplete;
    E.rule = "(a) every sequence of length 1.." + u(big ? 5 : 4) + " over 7 transactions (P1,P2,P3(P1),CH(P1,P2,P3),X conflicts with P2,T twin of P1,Z no inputs) through the 5 context-free predicates vs reference predicates, "
             "count 24..27 and weight 403999..404004 edges; (b) every sequence of length 1.." + u(big ? 5 : 3) + " over the 6 real transactions" + (big ? "" : " plus every sequence of length 4 over {P1,P2,P3,CH} (empty and full-rich pools)") + " x pool state x fee profile x submit/test_accept; second family {M, Q1 spends M, Q2 double-spends M's input with a higher fee, QC spends Q1 and Q2}: every sequence of length 1.." + u(big ? 5 : 4) + " x pool {empty, M present, M and Q1 present} "
             "through ProcessNewPackage on a regtest node (one process per group, pool restored to the group's initial state after every case). distinct = predicate verdict classes + distinct (state, profile, well-formedness class, package verdict, per-tx result/membership) signatures";
    E.assume("the universe is one fixed dependency DAG (one child with three parents, one parent depending on another, one conflict pair, one same-txid twin); packages over other topologies (grandparents beyond one level, 25-transaction packages through ProcessNewPackage) are not enumerated");
    E.sample("signatures: " + flags.substr(0, 300));
    if (!incomplete && !vx::rep().violations) {
        for (const char* need : {"result:0", "result:1", "result:2", "result:3", "illformed:duplicates", "illformed:unsorted", "illformed:conflict", "illformed:not-child-with-parents", "package-accepted", "cpfp-profile-accepted", "evicted-after-acceptance(mempool full)", "pool-transactions-evicted-or-replaced"})
            if (!sig_flags.count(need)) { printf("HARNESS-ERROR property=C29 vacuous: outcome class '%s' never occurred (%s)\n", need, flags.c_str()); return 2; }
    }
    return vx::finish();
}
