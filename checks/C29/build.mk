LINK := full
KITS := chainkit
