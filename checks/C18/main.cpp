// C18 — UTXO database encoding preserves every spendable coin exactly.
// VX-ENUM. Real code: CompressAmount/DecompressAmount, CompressScript/DecompressScript, ScriptCompression,
// Coin::Serialize/Unserialize, TxInUndoFormatter (CTxUndo), CCoinsViewDB write -> fresh cache -> read.
// Oracle: round trip (value read back == value stored) and byte equality with the independent reference encoder
// ref/refmodel_coincodec.h.
#include <vx/vx.h>
#include <ref/refmodel_coincodec.h>

#include <coins.h>
#include <compressor.h>
#include <consensus/amount.h>
#include <primitives/transaction.h>
#include <script/script.h>
#include <streams.h>
#include <txdb.h>
#include <undo.h>

#include <csignal>

using refcoin::Bytes;
using refbig::Big;

namespace {

std::atomic<uint64_t> n_bad{0};
void bad(const std::string& key, const std::string& what)
{
    if (n_bad.fetch_add(1) < 12) vx::violation(key, what, key + "\n" + what);
}
std::mutex g_mu;
const char* volatile g_section = "startup";

// An assert inside the code under test (CompressAmount asserts on its digit) is a detection, not a harness crash.
void on_abort(int)
{
    char buf[256];
    int n = snprintf(buf, sizeof buf, "VIOLATION property=C18 replay=(none)\n  detail: abort :: assertion/abort inside the code under test during section '%s'\n", g_section);
    if (n > 0) (void)!write(1, buf, (size_t)n);
    _exit(1);
}

const uint64_t MAXM = 2100000000000000ULL;

// ---------------------------------------------------------------------------------------------- amounts
struct AmtStats { uint64_t n = 0, exp9 = 0, nonzero_exp = 0; };
inline void amount_case(uint64_t a, AmtStats& st)
{
    const uint64_t c = CompressAmount(a);
    const uint64_t back = DecompressAmount(c);
    const uint64_t want = refcoin::compress_amount(a);
    if (back != a || c != want)
        bad("amount " + std::to_string(a), "CompressAmount=" + std::to_string(c) + " (reference " + std::to_string(want) + "), DecompressAmount gives " + std::to_string(back));
    st.n++;
    st.exp9 += (a % 1000000000ULL == 0 && a != 0);
    st.nonzero_exp += (a % 10 == 0 && a != 0);
}
AmtStats g_amt;
void amount_range(uint64_t first, uint64_t count, uint64_t stride, const char* name)
{
    AmtStats tot;
    vx::par_for(count, 1 << 18, [&](uint64_t lo, uint64_t hi, unsigned) {
        AmtStats st;
        for (uint64_t k = lo; k < hi; k++) amount_case(first + k * stride, st);
        std::lock_guard<std::mutex> l(g_mu);
        tot.n += st.n; tot.exp9 += st.exp9; tot.nonzero_exp += st.nonzero_exp;
    });
    g_amt.n += tot.n; g_amt.exp9 += tot.exp9; g_amt.nonzero_exp += tot.nonzero_exp;
    vx::ev().set(std::string("amounts_") + name, tot.n);
}

// ---------------------------------------------------------------------------------------------- scripts
struct Script { Bytes bytes; Bytes enc; bool special; std::string label; };
std::vector<Script> g_scripts;
std::set<Bytes> g_script_seen;
void add_script(const Bytes& b, const std::string& label)
{
    if (!g_script_seen.insert(b).second) return;
    Script s{b, {}, false, label};
    Bytes sp;
    s.special = refcoin::special_form(b, sp);
    refcoin::put_script(s.enc, b);
    g_scripts.push_back(std::move(s));
}
std::string hexs(const Bytes& b) { return b.size() > 80 ? vx::hex(Bytes(b.begin(), b.begin() + 80)) + "...(" + std::to_string(b.size()) + " bytes)" : vx::hex(b); }

CScript to_cscript(const Bytes& b) { return CScript(b.begin(), b.end()); }
bool same(const CScript& s, const Bytes& b) { return s.size() == b.size() && std::equal(s.begin(), s.end(), b.begin()); }
Bytes stream_bytes(const DataStream& ds)
{
    Bytes o(ds.size());
    if (!o.empty()) memcpy(o.data(), ds.data(), ds.size());
    return o;
}

uint64_t n_special[6] = {0, 0, 0, 0, 0, 0}, n_raw = 0, n_near_miss = 0;

void script_case(const Script& s)
{
    const std::string key = "script " + s.label + " " + hexs(s.bytes);
    const CScript cs = to_cscript(s.bytes);
    // direct API
    CompressedScript out;
    const bool sp = CompressScript(cs, out);
    if (sp != s.special) bad(key + " CompressScript", std::string("returned ") + (sp ? "true" : "false") + ", reference says " + (s.special ? "special form" : "raw"));
    if (sp && s.special) {
        if (Bytes(out.begin(), out.end()) != s.enc) bad(key + " CompressScript bytes", "got " + vx::hex(out) + " want " + vx::hex(s.enc));
        else {
            if (GetSpecialScriptSize(out[0]) != out.size() - 1) bad(key + " GetSpecialScriptSize", "payload size mismatch for type " + std::to_string(out[0]));
            CScript back;
            const CompressedScript payload(out.begin() + 1, out.end());
            if (!DecompressScript(back, out[0], payload) || !same(back, s.bytes)) bad(key + " DecompressScript", "does not give back the original script: " + vx::hex(back));
        }
    }
    // serialized form (what the coin record contains)
    DataStream ds;
    CScript in = cs;
    ds << Using<ScriptCompression>(in);
    if (stream_bytes(ds) != s.enc) bad(key + " ScriptCompression::Ser", "got " + hexs(stream_bytes(ds)) + " want " + hexs(s.enc));
    CScript back;
    try {
        ds >> Using<ScriptCompression>(back);
        if (!same(back, s.bytes)) bad(key + " ScriptCompression round trip", "read back " + hexs(Bytes(back.begin(), back.end())));
        if (!ds.empty()) bad(key + " ScriptCompression round trip", "bytes left over after reading");
    } catch (const std::exception& e) {
        bad(key + " ScriptCompression round trip", std::string("exception ") + e.what());
    }
    if (s.special) n_special[s.enc[0]]++; else n_raw++;
}

// ---------------------------------------------------------------------------------------------- coins
struct CoinStats { uint64_t coin = 0, undo = 0, db = 0; };
CoinStats g_coin;

bool coin_equal(const Coin& c, uint32_t height, bool cb, uint64_t amount, const Bytes& script)
{
    return c.nHeight == height && c.fCoinBase == cb && c.out.nValue == (CAmount)amount && same(c.out.scriptPubKey, script);
}
std::string coin_key(uint32_t height, bool cb, uint64_t amount, const Script& s)
{
    return "coin height=" + std::to_string(height) + " coinbase=" + std::to_string(cb) + " amount=" + std::to_string(amount) + " script=" + s.label + " " + hexs(s.bytes);
}

void coin_case(uint32_t height, bool cb, uint64_t amount, const Script& s, CoinStats& st)
{
    const Coin coin(CTxOut((CAmount)amount, to_cscript(s.bytes)), (int)height, cb);
    const std::string key = coin_key(height, cb, amount, s);
    {
        DataStream ds;
        ds << coin;
        const Bytes want = refcoin::coin_record_pre(height, cb, amount, s.enc);
        if (stream_bytes(ds) != want) bad(key + " Coin::Serialize", "got " + hexs(stream_bytes(ds)) + " want " + hexs(want));
        Coin back;
        try {
            ds >> back;
            if (!coin_equal(back, height, cb, amount, s.bytes) || !ds.empty())
                bad(key + " Coin round trip", "read back height=" + std::to_string(back.nHeight) + " coinbase=" + std::to_string(back.fCoinBase) + " amount=" + std::to_string(back.out.nValue) + " script=" + hexs(Bytes(back.out.scriptPubKey.begin(), back.out.scriptPubKey.end())));
        } catch (const std::exception& e) { bad(key + " Coin round trip", std::string("exception ") + e.what()); }
        st.coin++;
    }
    {
        DataStream ds;
        ds << Using<TxInUndoFormatter>(coin);
        const Bytes want = refcoin::undo_record_pre(height, cb, amount, s.enc);
        if (stream_bytes(ds) != want) bad(key + " TxInUndoFormatter::Ser", "got " + hexs(stream_bytes(ds)) + " want " + hexs(want));
        Coin back;
        try {
            ds >> Using<TxInUndoFormatter>(back);
            if (!coin_equal(back, height, cb, amount, s.bytes) || !ds.empty())
                bad(key + " undo round trip", "read back height=" + std::to_string(back.nHeight) + " coinbase=" + std::to_string(back.fCoinBase) + " amount=" + std::to_string(back.out.nValue));
        } catch (const std::exception& e) { bad(key + " undo round trip", std::string("exception ") + e.what()); }
        st.undo++;
    }
}

} // namespace

int main(int argc, char** argv)
{
    vx::init(argc, argv, "C18", "exploration");
    auto& E = vx::ev();
    const bool big = vx::thorough();
    signal(SIGABRT, on_abort);
    if (!vx::ctx().replay.empty()) printf("replay: the key in the replay file names the amount / script / coin; re-run the tier to re-evaluate\n");

    // ---------------------------------------------------------------- A. amounts
    g_section = "amounts";
    {
        // all d*10^e +- k in range
        AmtStats st;
        std::set<uint64_t> seen;
        for (uint64_t d = 1; d <= 99; d++) {
            uint64_t p = 1;
            for (int e = 0; e <= 15; e++, p *= 10)
                for (int k = -2; k <= 2; k++) {
                    const __int128 a = (__int128)d * p + k;
                    if (a < 0 || a > (__int128)MAXM || !seen.insert((uint64_t)a).second) continue;
                    amount_case((uint64_t)a, st);
                }
        }
        for (uint64_t a : std::vector<uint64_t>{MAXM, MAXM - 1, MAXM - 10, MAXM - 1000000000ULL, (uint64_t)COIN, 50 * (uint64_t)COIN, 0ULL})
            if (seen.insert(a).second) amount_case(a, st);
        g_amt.n += st.n; g_amt.exp9 += st.exp9; g_amt.nonzero_exp += st.nonzero_exp;
        E.set("amounts_d_times_10e_pm_k", st.n);
        amount_range(0, big ? (1ULL << 32) + 1 : (1ULL << 24) + 1, 1, "every_value_from_0");
        amount_range(MAXM - (big ? (1ULL << 26) : (1ULL << 20)), (big ? (1ULL << 26) : (1ULL << 20)) + 1, 1, "every_value_below_max");
        // every multiple of 10^6 (thorough) / 10^8 (quick) up to MAX_MONEY
        const uint64_t stride = big ? 1000000ULL : 100000000ULL;
        amount_range(0, MAXM / stride + 1, stride, "multiples");
        // codes -> amounts -> codes (the encoding is a bijection onto its codes)
        uint64_t codes = 0;
        for (uint64_t x = 0; x < (big ? (1ULL << 24) : (1ULL << 20)); x++) {
            const uint64_t a = DecompressAmount(x);
            if (a > MAXM) continue;
            if (CompressAmount(a) != x) bad("amount code " + std::to_string(x), "DecompressAmount=" + std::to_string(a) + " but CompressAmount of that is " + std::to_string(CompressAmount(a)));
            codes++;
        }
        E.set("amount_codes_inverted", codes);
        E.evaluations += g_amt.n + codes;
        printf("amounts: %" PRIu64 " values, %.1fs\n", g_amt.n, vx::elapsed());
    }

    // ---------------------------------------------------------------- B. scripts
    g_section = "scripts";
    {
        // raw scripts: every length 0..130 (the varint of len+6 changes width at 122) and around the 10,000 limit
        std::vector<size_t> lens;
        for (size_t l = 0; l <= 130; l++) lens.push_back(l);
        for (size_t l : {251u, 252u, 253u, 254u, 255u, 256u, 519u, 520u, 521u, 9998u, 9999u, 10000u}) lens.push_back(l);
        for (size_t l : lens)
            for (int fill = 0; fill < 4; fill++) {
                Bytes b(l);
                for (size_t i = 0; i < l; i++) b[i] = fill == 0 ? 0x00 : fill == 1 ? 0xff : fill == 2 ? (unsigned char)(i * 7 + 1) : (unsigned char)(0x51 + i % 16);
                add_script(b, "raw" + std::to_string(l));
            }
        // templates
        std::vector<Bytes> hashes;
        for (int h = 0; h < 4; h++) {
            Bytes x(20);
            for (int i = 0; i < 20; i++) x[i] = h == 0 ? 0x00 : h == 1 ? 0xff : h == 2 ? (unsigned char)(i + 1) : (unsigned char)(0xa0 ^ (i * 13));
            hashes.push_back(x);
        }
        // keys: x coordinates 1.. and the generator; the reference decides which are on the curve and lifts y
        struct Key { Bytes x, y_even, y_odd; bool on; };
        std::vector<Key> keys;
        {
            std::vector<Big> xs;
            const unsigned char gx[32] = {0x79, 0xBE, 0x66, 0x7E, 0xF9, 0xDC, 0xBB, 0xAC, 0x55, 0xA0, 0x62, 0x95, 0xCE, 0x87, 0x0B, 0x07, 0x02, 0x9B, 0xFC, 0xDB, 0x2D, 0xCE, 0x28, 0xD9, 0x59, 0xF2, 0x81, 0x5B, 0x16, 0xF8, 0x17, 0x98};
            const unsigned char gy[32] = {0x48, 0x3A, 0xDA, 0x77, 0x26, 0xA3, 0xC4, 0x65, 0x5D, 0xA4, 0xFB, 0xFC, 0x0E, 0x11, 0x08, 0xA8, 0xFD, 0x17, 0xB4, 0x48, 0xA6, 0x85, 0x54, 0x19, 0x9C, 0x47, 0xD0, 0x8F, 0xFB, 0x10, 0xD4, 0xB8};
            Big ycheck;
            if (!refcoin::on_curve(refcoin::big_be(gx, 32), refcoin::big_be(gy, 32)) || !refcoin::lift_x(refcoin::big_be(gx, 32), ycheck) ||
                (ycheck != refcoin::big_be(gy, 32) && refcoin::field_p() - ycheck != refcoin::big_be(gy, 32))) {
                printf("HARNESS-ERROR property=C18 reference curve arithmetic fails on the generator point\n");
                return 2;
            }
            xs.push_back(refcoin::big_be(gx, 32));
            for (uint64_t v = 1; v <= (big ? 40u : 16u); v++) xs.push_back(Big(v));
            xs.push_back((Big(1) << 255) + Big(12345));
            xs.push_back(refcoin::field_p() - Big(1));
            xs.push_back(refcoin::field_p());           // not a field element
            xs.push_back(refcoin::field_p() + Big(1));  // = 1 mod p but not canonical
            xs.push_back((Big(1) << 256) - Big(1));
            xs.push_back(Big(0));
            for (const Big& x : xs) {
                Key k;
                k.x = refcoin::be32(x);
                Big y;
                k.on = refcoin::lift_x(x, y);
                if (k.on) {
                    const Big y2 = refcoin::field_p() - y;
                    const bool y_is_even = !y.bit(0);
                    k.y_even = refcoin::be32(y_is_even ? y : y2);
                    k.y_odd = refcoin::be32(y_is_even ? y2 : y);
                } else {
                    k.y_even = refcoin::be32(Big(2));
                    k.y_odd = refcoin::be32(Big(3));
                }
                keys.push_back(k);
            }
        }
        uint64_t on = 0, off = 0;
        for (const auto& k : keys) (k.on ? on : off)++;
        E.set("pubkey_x_on_curve", on);
        E.set("pubkey_x_off_curve", off);
        std::vector<Bytes> templates;
        for (const Bytes& h : hashes) {
            Bytes p2pkh = {0x76, 0xa9, 0x14};
            p2pkh.insert(p2pkh.end(), h.begin(), h.end());
            p2pkh.push_back(0x88); p2pkh.push_back(0xac);
            add_script(p2pkh, "p2pkh");
            Bytes p2sh = {0xa9, 0x14};
            p2sh.insert(p2sh.end(), h.begin(), h.end());
            p2sh.push_back(0x87);
            add_script(p2sh, "p2sh");
            if (&h == &hashes[2]) { templates.push_back(p2pkh); templates.push_back(p2sh); }
        }
        for (const Key& k : keys) {
            for (unsigned char prefix : {0x02, 0x03, 0x00, 0x01, 0x04, 0x05, 0x06, 0x07}) { // 33-byte push
                Bytes s = {0x21, prefix};
                s.insert(s.end(), k.x.begin(), k.x.end());
                s.push_back(0xac);
                add_script(s, std::string("p2pk33-") + (k.on ? "on" : "off"));
                if (&k == &keys[0] && prefix == 0x02) templates.push_back(s);
            }
            for (unsigned char prefix : {0x04, 0x06, 0x07, 0x05, 0x00, 0x02, 0x03}) // 65-byte push
                for (int yv = 0; yv < 4; yv++) {
                    Bytes y = yv == 0 ? k.y_even : yv == 1 ? k.y_odd : k.y_even;
                    if (yv == 2) y[31] ^= 0x02;  // wrong y (same parity)
                    if (yv == 3) y[0] ^= 0x80;   // wrong y (high bit)
                    Bytes s = {0x41, prefix};
                    s.insert(s.end(), k.x.begin(), k.x.end());
                    s.insert(s.end(), y.begin(), y.end());
                    s.push_back(0xac);
                    add_script(s, std::string("p2pk65-") + (k.on ? "on" : "off") + "-y" + std::to_string(yv));
                    if (&k == &keys[0] && prefix == 0x04 && yv == 0) templates.push_back(s);
                    if (&k == &keys[1] && prefix == 0x04 && yv == 1 && k.on) templates.push_back(s);
                }
        }
        // near misses: every single byte of each template replaced, one byte appended / removed / prepended
        const size_t before = g_scripts.size();
        for (const Bytes& t : templates) {
            for (size_t i = 0; i < t.size(); i++)
                for (unsigned char v : {(unsigned char)(t[i] ^ 0x01), (unsigned char)(t[i] ^ 0x80), (unsigned char)(t[i] + 1), (unsigned char)(t[i] - 1), (unsigned char)0x00, (unsigned char)0xff}) {
                    if (v == t[i]) continue;
                    Bytes m = t;
                    m[i] = v;
                    add_script(m, "near-miss@" + std::to_string(i));
                }
            Bytes a = t; a.push_back(0xac); add_script(a, "near-miss-append");
            Bytes r(t.begin(), t.end() - 1); add_script(r, "near-miss-truncate");
            Bytes p = t; p.insert(p.begin(), 0x00); add_script(p, "near-miss-prepend");
        }
        n_near_miss = g_scripts.size() - before;
        for (const Script& s : g_scripts) script_case(s);
        E.evaluations += g_scripts.size();
        E.set("scripts", g_scripts.size());
        E.set("scripts_near_miss", n_near_miss);
        E.set_str("script_classes", "p2pkh=" + std::to_string(n_special[0]) + " p2sh=" + std::to_string(n_special[1]) + " pk02=" + std::to_string(n_special[2]) + " pk03=" + std::to_string(n_special[3]) + " pk04_even=" + std::to_string(n_special[4]) + " pk04_odd=" + std::to_string(n_special[5]) + " raw=" + std::to_string(n_raw));
        printf("scripts: %zu, %.1fs\n", g_scripts.size(), vx::elapsed());
    }

    // ---------------------------------------------------------------- C. coin and undo records
    g_section = "coin records";
    const std::vector<uint32_t> HEIGHTS = {0, 1, 2, 63, 64, 8255, 8256, 500000, 1u << 24, 0x3fffffffu, 0x40000000u, 0x7ffffffeu, 0x7fffffffu};
    const std::vector<uint64_t> AMOUNTS = {0, 1, 9, 10, 546, 123456789, 5000000000ULL, 1000000000ULL, 999999999ULL, 20999999ULL * 100000000ULL + 1, MAXM - 1, MAXM};
    {
        vx::par_for(g_scripts.size(), 8, [&](uint64_t lo, uint64_t hi, unsigned) {
            CoinStats st;
            for (uint64_t i = lo; i < hi; i++) {
                const Script& s = g_scripts[i];
                if (s.bytes.size() > 600 && (i % 4)) continue; // the big raw scripts: one fill pattern is enough here
                for (uint32_t h : HEIGHTS)
                    for (int cb = 0; cb < 2; cb++)
                        for (uint64_t a : AMOUNTS) coin_case(h, cb, a, s, st);
            }
            std::lock_guard<std::mutex> l(g_mu);
            g_coin.coin += st.coin; g_coin.undo += st.undo;
        });
        // CTxUndo: a vector of spent coins in one record
        for (size_t i = 0; i + 3 <= g_scripts.size(); i += 97) {
            CTxUndo u;
            for (int k = 0; k < 3; k++) u.vprevout.emplace_back(CTxOut((CAmount)AMOUNTS[(i + k) % AMOUNTS.size()], to_cscript(g_scripts[i + k].bytes)), (int)HEIGHTS[(i + k) % HEIGHTS.size()], (bool)(k & 1));
            DataStream ds;
            ds << u;
            Bytes want{3};
            for (int k = 0; k < 3; k++) {
                Bytes r = refcoin::undo_record_pre(HEIGHTS[(i + k) % HEIGHTS.size()], k & 1, AMOUNTS[(i + k) % AMOUNTS.size()], g_scripts[i + k].enc);
                want.insert(want.end(), r.begin(), r.end());
            }
            if (stream_bytes(ds) != want) bad("CTxUndo starting at script #" + std::to_string(i), "serialization differs from the reference");
            CTxUndo back;
            ds >> back;
            bool ok = back.vprevout.size() == 3;
            for (int k = 0; ok && k < 3; k++) ok = coin_equal(back.vprevout[k], HEIGHTS[(i + k) % HEIGHTS.size()], k & 1, AMOUNTS[(i + k) % AMOUNTS.size()], g_scripts[i + k].bytes);
            if (!ok) bad("CTxUndo starting at script #" + std::to_string(i), "round trip differs");
            g_coin.undo++;
        }
        E.evaluations += g_coin.coin + g_coin.undo;
        E.set("coin_records", g_coin.coin);
        E.set("undo_records", g_coin.undo);
        printf("coin records: %" PRIu64 ", %.1fs\n", g_coin.coin, vx::elapsed());
    }

    // ---------------------------------------------------------------- D. through the coins database
    g_section = "coins database";
    {
        CCoinsViewDB db{{.path = "vx-c18", .cache_bytes = 8 << 20, .memory_only = true}, {}};
        struct Rec { COutPoint op; uint32_t h; bool cb; uint64_t a; size_t s; };
        std::vector<Rec> recs;
        uint32_t n = 0;
        auto outpoint = [&](uint32_t k) {
            uint256 h;
            memcpy(h.data(), &k, sizeof k);
            h.data()[31] = 0x18;
            return COutPoint(Txid::FromUint256(h), k % 5);
        };
        // every script once (rotating metadata), and the full metadata cross product on a spread of scripts
        for (size_t i = 0; i < g_scripts.size(); i++) {
            if (g_scripts[i].bytes.size() > 600 && (i % 4)) continue;
            if (!g_scripts[i].bytes.empty() && g_scripts[i].bytes[0] == 0x6a) continue; // OP_RETURN: unspendable, never stored
            recs.push_back({outpoint(n), HEIGHTS[n % HEIGHTS.size()], (bool)(n & 1), AMOUNTS[n % AMOUNTS.size()], i});
            n++;
        }
        for (size_t i = 0; i < g_scripts.size(); i += big ? 23 : 101)
            for (uint32_t h : HEIGHTS)
                for (int cb = 0; cb < 2; cb++)
                    for (uint64_t a : AMOUNTS) { recs.push_back({outpoint(n), h, (bool)cb, a, i}); n++; }
        {
            CCoinsViewCache cache(&db);
            for (const Rec& r : recs) cache.AddCoin(r.op, Coin(CTxOut((CAmount)r.a, to_cscript(g_scripts[r.s].bytes)), (int)r.h, r.cb), false);
            cache.SetBestBlock(uint256{1});
            cache.Flush();
        }
        CCoinsViewCache fresh(&db);
        for (const Rec& r : recs) {
            const std::string key = coin_key(r.h, r.cb, r.a, g_scripts[r.s]) + " via CCoinsViewDB";
            const std::optional<Coin> direct = db.GetCoin(r.op);
            if (!direct || !coin_equal(*direct, r.h, r.cb, r.a, g_scripts[r.s].bytes)) bad(key, direct ? "coin read from the database differs" : "coin missing in the database");
            const Coin& c = fresh.AccessCoin(r.op);
            if (c.IsSpent() || !coin_equal(c, r.h, r.cb, r.a, g_scripts[r.s].bytes)) bad(key + " (fresh cache)", "coin read through a fresh cache differs");
            g_coin.db++;
        }
        E.evaluations += g_coin.db;
        E.set("db_coins", g_coin.db);
        printf("coins db: %" PRIu64 " coins, %.1fs\n", g_coin.db, vx::elapsed());
    }
    g_section = "finish";

    E.distinct_nontrivial = g_amt.nonzero_exp + (g_scripts.size() - n_raw) + n_near_miss + g_coin.db;
    E.rule = std::string("(A) amounts: all d*10^e+-k (d 1..99, e 0..15, k 0..2) in [0,MAX_MONEY], every value 0..2^") + (big ? "32" : "24") + ", every value in the top 2^" + (big ? "26" : "20") + " below MAX_MONEY, every multiple of 10^" + (big ? "6" : "8") + " up to MAX_MONEY: Decompress(Compress(a))==a and Compress(a)==reference; codes 0..2^" + (big ? "24" : "20") + " re-compress to themselves; "
             "(B) scripts: raw of every length 0..130 and 251..256, 519..521, 9998..10000 x 4 fills; P2PKH/P2SH x 4 hashes; 33-byte-push x 8 prefixes and 65-byte-push x 7 prefixes x 4 y-variants (correct even/odd, two wrong) over x in {G, 1.." + (big ? "40" : "16") + ", 2^255+12345, p-1, p, p+1, 2^256-1, 0}; every single byte of 5 templates replaced by 6 values, append/truncate/prepend: CompressScript/DecompressScript/ScriptCompression vs reference bytes and round trip; "
             "(C) Coin and TxInUndoFormatter records for every script x 13 heights x coinbase x 12 amounts (bytes == reference, round trip), CTxUndo vectors; (D) CCoinsViewDB: AddCoin -> Flush -> GetCoin and fresh cache for every script and the metadata cross product on a spread of scripts. "
             "distinct_nontrivial = amounts with a non-zero exponent + special-form scripts + near-miss scripts + coins read back from the database";
    E.sample("amounts: " + std::to_string(g_amt.n) + " values, " + std::to_string(g_amt.nonzero_exp) + " with exponent>0, " + std::to_string(g_amt.exp9) + " with exponent 9 (e.g. 21000000 BTC -> 0x1406f40)");
    E.sample("scripts: " + std::to_string(g_scripts.size()) + " (special " + std::to_string(g_scripts.size() - n_raw) + ", near misses " + std::to_string(n_near_miss) + ")");
    E.sample("coin record of height 500000 coinbase amount 50 BTC p2pkh: varint(1000001) varint(0x32) 00 <20-byte hash>");
    E.assume("scripts longer than 10,000 bytes are unspendable and deliberately not preserved by the format, so they are outside the property and not enumerated; amounts are within [0, MAX_MONEY]");

    if (vx::rep().violations == 0) {
        const char* miss = nullptr;
        for (int i = 0; i < 6; i++) if (!n_special[i]) miss = "special script class";
        if (!n_raw || !n_near_miss) miss = "raw / near-miss scripts";
        if (!g_amt.exp9) miss = "amount with exponent 9";
        if (!g_coin.db || !g_coin.coin || !g_coin.undo) miss = "coin records";
        if (miss) {
            printf("HARNESS-ERROR property=C18 class never occurred: %s\n", miss);
            vx::finish();
            return 2;
        }
    }
    return vx::finish();
}
