// C12 — evaluation server: runs the real EvalScript / VerifyScript on cases sent by checks/C12/check.py.
//
// The Python side (check.py) is the single enumerator of the bounded space and holds the independent reference
// interpreter (ref/ref_script.py). This binary only executes the code under test with a rule-based fake signature
// checker and reports (success, ScriptError name, hash of the final stack). Protocol (one command per stdin line):
//   D <hex|->                                  define the next blob (index = order of definition)
//   S <stack>;<stack>;...                      define the next stack set; <stack> = i,j,k (blob indices) or -
//   Q                                          -> "<mandatory> <standard>" flag sets of the tree, in the protocol's numbering
//   E  <sv> <flags> <lt> <seq> <ver> <w> <script> <stack>      EvalScript            -> "<ok> <err> <hash|->"
//   EV ... same ...                                            verbose               -> "... <hex,hex,...>"
//   X  <sv> <flags> <lt> <seq> <ver> <w> <script> <stackset>   EvalScript for every stack of the set (one line each)
//   V  <flags> <lt> <seq> <ver> <scriptSig> <scriptPubKey> <witness>   VerifyScript   -> "<ok> <err>"
// <script> = i+j+k (concatenation of blobs) or -, <flags> = hex bitmask over kFlags (numbering by *name*, independent
// of the tree's enum values), <sv> = 0 BASE, 1 WITNESS_V0, 3 TAPSCRIPT, <w> = initial tapscript validation weight.
#include <vx/vx.h>

#include <crypto/sha256.h>
#include <policy/policy.h>
#include <primitives/transaction.h>
#include <script/interpreter.h>
#include <script/script.h>
#include <script/script_error.h>
#include <util/strencodings.h>

#include <iostream>

namespace {
using valtype = std::vector<unsigned char>;

struct FlagName { const char* name; script_verify_flags flag; };
const FlagName kFlags[] = {
    {"P2SH", SCRIPT_VERIFY_P2SH}, {"STRICTENC", SCRIPT_VERIFY_STRICTENC}, {"DERSIG", SCRIPT_VERIFY_DERSIG},
    {"LOW_S", SCRIPT_VERIFY_LOW_S}, {"NULLDUMMY", SCRIPT_VERIFY_NULLDUMMY}, {"SIGPUSHONLY", SCRIPT_VERIFY_SIGPUSHONLY},
    {"MINIMALDATA", SCRIPT_VERIFY_MINIMALDATA}, {"DISCOURAGE_UPGRADABLE_NOPS", SCRIPT_VERIFY_DISCOURAGE_UPGRADABLE_NOPS},
    {"CLEANSTACK", SCRIPT_VERIFY_CLEANSTACK}, {"CHECKLOCKTIMEVERIFY", SCRIPT_VERIFY_CHECKLOCKTIMEVERIFY},
    {"CHECKSEQUENCEVERIFY", SCRIPT_VERIFY_CHECKSEQUENCEVERIFY}, {"WITNESS", SCRIPT_VERIFY_WITNESS},
    {"DISCOURAGE_UPGRADABLE_WITNESS_PROGRAM", SCRIPT_VERIFY_DISCOURAGE_UPGRADABLE_WITNESS_PROGRAM},
    {"MINIMALIF", SCRIPT_VERIFY_MINIMALIF}, {"NULLFAIL", SCRIPT_VERIFY_NULLFAIL},
    {"WITNESS_PUBKEYTYPE", SCRIPT_VERIFY_WITNESS_PUBKEYTYPE}, {"CONST_SCRIPTCODE", SCRIPT_VERIFY_CONST_SCRIPTCODE},
    {"TAPROOT", SCRIPT_VERIFY_TAPROOT},
    {"DISCOURAGE_UPGRADABLE_TAPROOT_VERSION", SCRIPT_VERIFY_DISCOURAGE_UPGRADABLE_TAPROOT_VERSION},
    {"DISCOURAGE_OP_SUCCESS", SCRIPT_VERIFY_DISCOURAGE_OP_SUCCESS},
    {"DISCOURAGE_UPGRADABLE_PUBKEYTYPE", SCRIPT_VERIFY_DISCOURAGE_UPGRADABLE_PUBKEYTYPE},
};
constexpr size_t kNumFlags = sizeof(kFlags) / sizeof(kFlags[0]);

script_verify_flags to_real_flags(uint64_t mine)
{
    script_verify_flags f = SCRIPT_VERIFY_NONE;
    for (size_t i = 0; i < kNumFlags; i++) if (mine >> i & 1) f |= kFlags[i].flag;
    return f;
}
// returns the protocol numbering; bits of the tree that have no name here are reported in `unknown`
uint64_t from_real_flags(script_verify_flags f, bool& unknown)
{
    uint64_t m = 0;
    script_verify_flags left = f;
    for (size_t i = 0; i < kNumFlags; i++) if ((f & kFlags[i].flag) != 0) { m |= uint64_t{1} << i; left &= ~kFlags[i].flag; }
    unknown = left != 0;
    return m;
}

const char* err_name(ScriptError e)
{
    switch (e) {
#define X(n) case SCRIPT_ERR_##n: return #n;
    X(OK) X(UNKNOWN_ERROR) X(EVAL_FALSE) X(OP_RETURN) X(SCRIPTNUM) X(SCRIPT_SIZE) X(PUSH_SIZE) X(OP_COUNT) X(STACK_SIZE)
    X(SIG_COUNT) X(PUBKEY_COUNT) X(VERIFY) X(EQUALVERIFY) X(CHECKMULTISIGVERIFY) X(CHECKSIGVERIFY) X(NUMEQUALVERIFY)
    X(BAD_OPCODE) X(DISABLED_OPCODE) X(INVALID_STACK_OPERATION) X(INVALID_ALTSTACK_OPERATION) X(UNBALANCED_CONDITIONAL)
    X(NEGATIVE_LOCKTIME) X(UNSATISFIED_LOCKTIME) X(SIG_HASHTYPE) X(SIG_DER) X(MINIMALDATA) X(SIG_PUSHONLY) X(SIG_HIGH_S)
    X(SIG_NULLDUMMY) X(PUBKEYTYPE) X(CLEANSTACK) X(MINIMALIF) X(SIG_NULLFAIL) X(DISCOURAGE_UPGRADABLE_NOPS)
    X(DISCOURAGE_UPGRADABLE_WITNESS_PROGRAM) X(DISCOURAGE_UPGRADABLE_TAPROOT_VERSION) X(DISCOURAGE_OP_SUCCESS)
    X(DISCOURAGE_UPGRADABLE_PUBKEYTYPE) X(WITNESS_PROGRAM_WRONG_LENGTH) X(WITNESS_PROGRAM_WITNESS_EMPTY)
    X(WITNESS_PROGRAM_MISMATCH) X(WITNESS_MALLEATED) X(WITNESS_MALLEATED_P2SH) X(WITNESS_UNEXPECTED) X(WITNESS_PUBKEYTYPE)
    X(SCHNORR_SIG_SIZE) X(SCHNORR_SIG_HASHTYPE) X(SCHNORR_SIG) X(TAPROOT_WRONG_CONTROL_SIZE) X(TAPSCRIPT_VALIDATION_WEIGHT)
    X(TAPSCRIPT_CHECKMULTISIG) X(TAPSCRIPT_MINIMALIF) X(TAPSCRIPT_EMPTY_PUBKEY) X(OP_CODESEPARATOR) X(SIG_FINDANDDELETE)
#undef X
    default: return "?";
    }
}

// standard CRC-32 (IEEE 802.3, reflected, as zlib.crc32)
struct Crc32 {
    uint32_t table[256];
    Crc32()
    {
        for (uint32_t i = 0; i < 256; i++) {
            uint32_t c = i;
            for (int k = 0; k < 8; k++) c = (c & 1) ? 0xEDB88320u ^ (c >> 1) : c >> 1;
            table[i] = c;
        }
    }
    uint32_t operator()(const valtype& d) const
    {
        uint32_t c = 0xFFFFFFFFu;
        for (unsigned char b : d) c = table[(c ^ b) & 0xff] ^ (c >> 8);
        return c ^ 0xFFFFFFFFu;
    }
};
const Crc32 g_crc;

// Rule-based fake checker: signature validity is a pure function of everything the interpreter hands over
// (so a wrong scriptCode / sigversion / codeseparator position / tapleaf hash / annex flips verdicts).
// CheckLockTime / CheckSequence are the tree's own BIP65/BIP112 implementations on a one-input transaction.
class FakeChecker : public BaseSignatureChecker
{
    CMutableTransaction m_tx;
    MutableTransactionSignatureChecker m_real;

public:
    static CMutableTransaction make_tx(uint32_t locktime, uint32_t sequence, uint32_t version)
    {
        CMutableTransaction tx;
        tx.version = version;
        tx.nLockTime = locktime;
        tx.vin.resize(1);
        tx.vin[0].nSequence = sequence;
        tx.vout.resize(1);
        return tx;
    }
    FakeChecker(uint32_t locktime, uint32_t sequence, uint32_t version)
        : m_tx(make_tx(locktime, sequence, version)), m_real(&m_tx, 0, 0, MissingDataBehavior::FAIL) {}

    bool CheckECDSASignature(const valtype& sig, const valtype& pubkey, const CScript& scriptCode, SigVersion sigversion) const override
    {
        if (sig.empty() || pubkey.empty()) return false;
        valtype m;
        m.push_back(sig.size() & 0xff); m.push_back(sig.size() >> 8 & 0xff);
        m.insert(m.end(), sig.begin(), sig.end());
        m.push_back(pubkey.size() & 0xff); m.push_back(pubkey.size() >> 8 & 0xff);
        m.insert(m.end(), pubkey.begin(), pubkey.end());
        m.push_back((unsigned char)sigversion);
        m.insert(m.end(), scriptCode.begin(), scriptCode.end());
        return g_crc(m) % 3 == 0;
    }
    bool CheckSchnorrSignature(std::span<const unsigned char> sig, std::span<const unsigned char> pubkey, SigVersion sigversion, ScriptExecutionData& execdata, ScriptError* serror) const override
    {
        auto fail = [&](ScriptError e) { if (serror) *serror = e; return false; };
        if (sig.size() != 64 && sig.size() != 65) return fail(SCRIPT_ERR_SCHNORR_SIG_SIZE);
        if (sig.size() == 65) {
            unsigned char ht = sig[64];
            if (!(ht == 1 || ht == 2 || ht == 3 || ht == 0x81 || ht == 0x82 || ht == 0x83)) return fail(SCRIPT_ERR_SCHNORR_SIG_HASHTYPE);
        }
        valtype m(sig.begin(), sig.end());
        m.insert(m.end(), pubkey.begin(), pubkey.end());
        m.push_back((unsigned char)sigversion);
        if (sigversion == SigVersion::TAPSCRIPT) {
            if (!execdata.m_tapleaf_hash_init || !execdata.m_codeseparator_pos_init) return fail(SCRIPT_ERR_UNKNOWN_ERROR);
            m.insert(m.end(), execdata.m_tapleaf_hash.begin(), execdata.m_tapleaf_hash.end());
            for (int i = 0; i < 4; i++) m.push_back(execdata.m_codeseparator_pos >> (8 * i) & 0xff);
        }
        if (!execdata.m_annex_init) return fail(SCRIPT_ERR_UNKNOWN_ERROR);
        m.push_back(execdata.m_annex_present ? 1 : 0);
        if (execdata.m_annex_present) m.insert(m.end(), execdata.m_annex_hash.begin(), execdata.m_annex_hash.end());
        if (g_crc(m) % 3 != 0) return fail(SCRIPT_ERR_SCHNORR_SIG);
        return true;
    }
    bool CheckLockTime(const CScriptNum& n) const override { return m_real.CheckLockTime(n); }
    bool CheckSequence(const CScriptNum& n) const override { return m_real.CheckSequence(n); }
};

std::vector<valtype> g_blobs;
std::vector<std::vector<std::vector<uint32_t>>> g_stacksets;

bool parse_idx_list(const std::string& s, char sep, std::vector<uint32_t>& out)
{
    out.clear();
    if (s == "-") return true;
    size_t i = 0;
    while (i < s.size()) {
        size_t j = s.find(sep, i);
        if (j == std::string::npos) j = s.size();
        uint32_t v = (uint32_t)strtoul(s.substr(i, j - i).c_str(), nullptr, 10);
        if (v >= g_blobs.size()) return false;
        out.push_back(v);
        i = j + 1;
    }
    return true;
}
bool build_script(const std::string& spec, CScript& out)
{
    std::vector<uint32_t> ids;
    if (!parse_idx_list(spec, '+', ids)) return false;
    out.clear();
    for (uint32_t i : ids) out.insert(out.end(), g_blobs[i].begin(), g_blobs[i].end());
    return true;
}
bool build_stack(const std::string& spec, std::vector<valtype>& out)
{
    std::vector<uint32_t> ids;
    if (!parse_idx_list(spec, ',', ids)) return false;
    out.clear();
    for (uint32_t i : ids) out.push_back(g_blobs[i]);
    return true;
}

std::string stack_hash(const std::vector<valtype>& st)
{
    CSHA256 h;
    for (const auto& e : st) {
        unsigned char l[4] = {(unsigned char)(e.size() & 0xff), (unsigned char)(e.size() >> 8 & 0xff), (unsigned char)(e.size() >> 16 & 0xff), (unsigned char)(e.size() >> 24 & 0xff)};
        h.Write(l, 4);
        h.Write(e.data(), e.size());
    }
    unsigned char out[32];
    h.Finalize(out);
    return vx::hex(out, 8);
}

struct EvalReq { int sv; uint64_t flags; uint32_t lt, seq, ver; int64_t weight; };

void run_eval(const EvalReq& r, const CScript& script, std::vector<valtype> stack, bool verbose, std::string& out)
{
    FakeChecker checker(r.lt, r.seq, r.ver);
    ScriptExecutionData execdata;
    execdata.m_tapleaf_hash_init = true;          // zero hash for direct evaluations
    execdata.m_annex_init = true;
    execdata.m_annex_present = false;
    execdata.m_validation_weight_left_init = true;
    execdata.m_validation_weight_left = r.weight;
    ScriptError err = SCRIPT_ERR_UNKNOWN_ERROR;
    bool ok = EvalScript(stack, script, to_real_flags(r.flags), checker, (SigVersion)r.sv, execdata, &err);
    out += ok ? "1 " : "0 ";
    out += err_name(err);
    out += ' ';
    out += ok ? stack_hash(stack) : std::string("-");
    if (verbose) {
        out += ' ';
        for (size_t i = 0; i < stack.size(); i++) { if (i) out += ','; out += stack[i].empty() ? std::string("e") : vx::hex(stack[i]); }
        if (stack.empty()) out += "[]";
    }
    out += '\n';
}

int serve()
{
    std::ios::sync_with_stdio(false);
    std::string line, out;
    uint64_t n = 0;
    while (std::getline(std::cin, line)) {
        if (line.empty()) continue;
        std::istringstream is(line);
        std::string cmd;
        is >> cmd;
        if (cmd == "D") {
            std::string h; is >> h;
            if (h == "-") g_blobs.emplace_back();
            else g_blobs.push_back(ParseHex(h));
        } else if (cmd == "S") {
            std::string all; is >> all;
            std::vector<std::vector<uint32_t>> set;
            size_t i = 0;
            while (i <= all.size()) {
                size_t j = all.find(';', i);
                if (j == std::string::npos) j = all.size();
                std::vector<uint32_t> ids;
                if (!parse_idx_list(all.substr(i, j - i), ',', ids)) { printf("HARNESS-ERROR bad stack set\n"); return 2; }
                set.push_back(ids);
                i = j + 1;
            }
            g_stacksets.push_back(std::move(set));
        } else if (cmd == "Q") {
            bool u1, u2;
            uint64_t m = from_real_flags(MANDATORY_SCRIPT_VERIFY_FLAGS, u1), s = from_real_flags(STANDARD_SCRIPT_VERIFY_FLAGS, u2);
            char b[64];
            snprintf(b, sizeof b, "%" PRIx64 " %" PRIx64 " %d\n", m, s, (int)(u1 || u2));
            out += b;
        } else if (cmd == "E" || cmd == "EV" || cmd == "X") {
            EvalReq r; std::string fl, sc, st;
            is >> r.sv >> fl >> r.lt >> r.seq >> r.ver >> r.weight >> sc >> st;
            r.flags = strtoull(fl.c_str(), nullptr, 16);
            CScript script;
            if (!is || !build_script(sc, script)) { printf("HARNESS-ERROR bad request: %s\n", line.c_str()); return 2; }
            if (cmd == "X") {
                size_t id = strtoul(st.c_str(), nullptr, 10);
                if (id >= g_stacksets.size()) { printf("HARNESS-ERROR bad stack set id\n"); return 2; }
                for (const auto& ids : g_stacksets[id]) {
                    std::vector<valtype> stack;
                    for (uint32_t i : ids) stack.push_back(g_blobs[i]);
                    run_eval(r, script, std::move(stack), false, out);
                    n++;
                }
            } else {
                std::vector<valtype> stack;
                if (!build_stack(st, stack)) { printf("HARNESS-ERROR bad request: %s\n", line.c_str()); return 2; }
                run_eval(r, script, std::move(stack), cmd == "EV", out);
                n++;
            }
        } else if (cmd == "V") {
            std::string fl, ss, spk, wit; uint32_t lt, seq, ver;
            is >> fl >> lt >> seq >> ver >> ss >> spk >> wit;
            uint64_t flags = strtoull(fl.c_str(), nullptr, 16);
            CScript scriptSig, scriptPubKey;
            CScriptWitness witness;
            if (!is || !build_script(ss, scriptSig) || !build_script(spk, scriptPubKey) || !build_stack(wit, witness.stack)) { printf("HARNESS-ERROR bad request: %s\n", line.c_str()); return 2; }
            FakeChecker checker(lt, seq, ver);
            ScriptError err = SCRIPT_ERR_UNKNOWN_ERROR;
            bool ok = VerifyScript(scriptSig, scriptPubKey, &witness, to_real_flags(flags), checker, &err);
            out += ok ? "1 " : "0 ";
            out += err_name(err);
            out += '\n';
            n++;
        } else {
            printf("HARNESS-ERROR unknown command: %s\n", line.c_str());
            return 2;
        }
        if (out.size() > (1 << 16)) { fwrite(out.data(), 1, out.size(), stdout); out.clear(); }
    }
    fwrite(out.data(), 1, out.size(), stdout);
    fflush(stdout);
    return 0;
}
} // namespace

int main(int argc, char** argv)
{
    // No evidence is written here: check.py owns counting and reporting; this process only evaluates.
    (void)argc; (void)argv;
    return serve();
}
