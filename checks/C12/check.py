#!/usr/bin/env python3
"""C12 — the script interpreter vs an independent reference interpreter (ref/ref_script.py).

This file is the single enumerator of the bounded space. For every case it computes the reference verdict and asks the
C++ evaluation server (checks/C12/main.cpp = real EvalScript / VerifyScript with a rule-based fake signature checker)
for the implementation's verdict. Compared: success flag, final stack (on success; via SHA256 of the serialised
stack), and the ScriptError at *class* granularity (ref_script.ERR_CLASS).

Families (see `build_jobs`):
  single     every script atom (each opcode 0x00..0xff, pushes completed with data, + non-minimal/truncated/oversized
             pushes) x boundary stacks x (sigversion, flag set)
  flags      the same over a smaller stack set for every single flag and the union of the non-EvalScript flags
  pairs      (thorough) every ordered pair of atoms
  cond       all sequences over {IF NOTIF ELSE ENDIF VERIF 0 1 CAT RESERVED NOP} up to a length bound
  limits     201/202 ops, 1000/1001 stack items, 10000/10001-byte scripts, 520/521-byte pushes
  multisig   CHECKMULTISIG(VERIFY) for n,m in 0..21 with all sig/key match patterns for small n
  sig        signature/pubkey encodings, NULLFAIL, FindAndDelete, CODESEPARATOR, CHECKSIGADD, tapscript weight
  locktime   CLTV/CSV operand x transaction grid
  wrap       VerifyScript: the atoms wrapped as bare / P2SH / P2WSH / P2SH-P2WSH / P2TR script path
  witness    VerifyScript: directed witness-program / taproot dispatch cases x all valid subsets of the dispatch flags
"""
import hashlib
import itertools
import multiprocessing
import os
import subprocess
import sys
from collections import Counter

sys.path.insert(0, '/verif')
from vx.vxpy import Run  # noqa: E402  (also puts /verif/ref on sys.path)
import ref_script as R  # noqa: E402

SV_NAME = {R.BASE: 'BASE', R.WITNESS_V0: 'WITNESS_V0', R.TAPSCRIPT: 'TAPSCRIPT'}
HARNESS = None   # set in main / worker init
MANDATORY = R.MANDATORY
STANDARD = R.STANDARD


def flag_names(f):
    if f == 0: return 'NONE'
    return '|'.join(n for i, n in enumerate(R.FLAG_NAMES) if f >> i & 1)


# ------------------------------------------------------------------------------------------------ alphabets
def pat(n, seed=7):
    return bytes((i * 31 + seed) & 0xff for i in range(n))


B520 = pat(520)
B521 = pat(520) + b'\x01'
K32 = pat(32, 11)
S64 = pat(64, 13)
K33 = b'\x02' + pat(32, 17)
K65 = b'\x04' + pat(64, 19)
DER_R = bytes([0x21]) + pat(31, 23)
DER_S_LOW = bytes([0x11]) + pat(31, 29)
DER_S_HIGH = bytes([0x00, 0xf1]) + pat(31, 29)     # > n/2, < n; needs the leading 0 (top bit set)


def der_sig(r, s, hashtype=1):
    body = b'\x02' + bytes([len(r)]) + r + b'\x02' + bytes([len(s)]) + s
    return b'\x30' + bytes([len(body)]) + body + bytes([hashtype])


DER = der_sig(DER_R, DER_S_LOW)

E_NUM = [b'', b'\x00', b'\x80', b'\x01', b'\x81', b'\x02', b'\x7f', b'\xff\x7f', b'\xff\xff\xff\x7f',
         b'\xff\xff\xff\xff', b'\x00\x00\x00\x80\x00', b'\x00\x00\x00\x00\x80', B520, B521]
E_ALL = E_NUM + [K32, S64, K33, DER]
E_SMALL = [b'', b'\x00', b'\x80', b'\x01', b'\x81', b'\x02', b'\x7f', b'\xff\xff\xff\x7f', b'\x00\x00\x00\x80\x00']
E_FLAG = [b'', b'\x00', b'\x01', b'\x02', b'\x81', b'\x7f', b'\x00\x00\x00\x80\x00', K32, S64, K33, DER, B521]
MARK = [bytes([0x0a + i]) for i in range(8)]


def stacks_upto(alphabet, depth):
    out = []
    for d in range(depth + 1):
        out.extend(list(t) for t in itertools.product(alphabet, repeat=d))
    return out


def deep_stacks():
    out = []
    for k in range(4, 8):
        out.append(MARK[:k])
    for n in (b'', b'\x01', b'\x02', b'\x03', b'\x04', b'\x05'):
        out.append(MARK[:4] + [n])
    return out


def make_atoms():
    atoms = []
    for op in range(256):
        if op == 0: b = b'\x00'
        elif op <= 75: b = bytes([op]) + bytes((0x40 + op + i) & 0xff for i in range(op))
        elif op == 0x4c: b = b'\x4c\x4c' + pat(76)
        elif op == 0x4d: b = b'\x4d\x00\x01' + pat(256)
        elif op == 0x4e: b = b'\x4e\x01\x00\x00\x00\x42'
        else: b = bytes([op])
        atoms.append(b)
    atoms += [
        b'\x01\x01', b'\x01\x10', b'\x01\x81', b'\x01\x00', b'\x01\x80', b'\x01\x11',      # 1-byte pushes (OP_N forms exist for some)
        b'\x4c\x00', b'\x4c\x01\x42', b'\x4c\x4b' + pat(75), b'\x4c\xff' + pat(255),         # PUSHDATA1: empty, 1, 75 (non-minimal), 255
        b'\x4d\x00\x00', b'\x4d\x01\x00\x42', b'\x4d\xff\x00' + pat(255),                    # PUSHDATA2 non-minimal
        b'\x4d\x08\x02' + B520, b'\x4d\x09\x02' + B521,                                      # 520 ok / 521 too big
        b'\x4e\x00\x00\x00\x00', b'\x4e\x09\x02\x00\x00' + B521,
        b'\x4c', b'\x4c\x05\x42\x42', b'\x4d\x01', b'\x4d\x05\x00\x42', b'\x4e\x01\x00\x00', b'\x4e\xff\xff\xff\xff\x42',
        b'\x05\x42\x42',                                                                      # truncated pushes
        b'\x02\x00\x00', b'\x02\x00\x80', b'\x04\xff\xff\xff\x7f', b'\x05\x00\x00\x00\x80\x00',   # number operands via push
        b'\x20' + K32, b'\x40' + S64, b'\x21' + K33, R.push_data(DER),
    ]
    return atoms


ATOMS = make_atoms()


def stack_hash(st):
    h = hashlib.sha256()
    for e in st:
        h.update(len(e).to_bytes(4, 'little'))
        h.update(e)
    return h.hexdigest()[:16]


def prescan_op_success(script):
    """BIP342 pre-scan: True if an OP_SUCCESSx is met before any parse failure."""
    pc = 0
    while pc < len(script):
        r = R.parse_op(script, pc)
        if r is None: return False
        if r[0] in R.OP_SUCCESS: return True
        pc = r[2]
    return False


# ------------------------------------------------------------------------------------------------ server session
class Session:
    """Collects requests + expected answers of one job, then runs them through one evaluation-server process."""

    def __init__(self):
        self.req = []
        self.exp = []      # (ok, class, hash) per expected response line
        self.desc = []     # lazily evaluated description per response line: tuple understood by describe()
        self.blob_ix = {}
        self.nsets = 0
        self.errs = Counter()
        self.succ = 0

    def blob(self, b):
        b = bytes(b)
        i = self.blob_ix.get(b)
        if i is None:
            i = self.blob_ix[b] = len(self.blob_ix)
            self.req.append('D ' + (b.hex() if b else '-'))
        return i

    def stack_spec(self, st):
        return ','.join(str(self.blob(e)) for e in st) if st else '-'

    def script_spec(self, parts):
        parts = [p for p in parts if len(p)]
        return '+'.join(str(self.blob(p)) for p in parts) if parts else '-'

    def stackset(self, stacks):
        self.req.append('S ' + ';'.join(self.stack_spec(s) for s in stacks))
        self.nsets += 1
        return self.nsets - 1

    def _expect_eval(self, sv, flags, c, script, st):
        ctx = R.Ctx(c[0], c[1], c[2], c[3])
        ok, err, fin = R.eval_script(st, script, flags, sv, ctx)
        self.errs[err] += 1
        if ok:
            self.succ += 1
            return ('1', 'ok', stack_hash(fin))
        return ('0', R.ERR_CLASS[err], '-')

    def eval_set(self, sv, flags, c, parts, set_id, stacks):
        """c = (locktime, sequence, version, weight)."""
        script = b''.join(parts)
        self.req.append('X %d %x %d %d %d %d %s %d' % (sv, flags, c[0], c[1], c[2], c[3], self.script_spec(parts), set_id))
        for st in stacks:
            self.exp.append(self._expect_eval(sv, flags, c, script, st))
            self.desc.append(('E', sv, flags, c, script, st))

    def eval_one(self, sv, flags, c, parts, st):
        script = b''.join(parts)
        self.req.append('E %d %x %d %d %d %d %s %s' % (sv, flags, c[0], c[1], c[2], c[3], self.script_spec(parts), self.stack_spec(st)))
        self.exp.append(self._expect_eval(sv, flags, c, script, st))
        self.desc.append(('E', sv, flags, c, script, st))

    def verify_one(self, flags, c, ssig_parts, spk, wit):
        ssig = b''.join(ssig_parts)
        self.req.append('V %x %d %d %d %s %s %s' % (flags, c[0], c[1], c[2], self.script_spec(ssig_parts), self.script_spec([spk]), self.stack_spec(wit)))
        ctx = R.Ctx(c[0], c[1], c[2], 0)
        ok, err = R.verify_script(ssig, spk, wit, flags, ctx)
        self.errs[err] += 1
        if ok: self.succ += 1
        self.exp.append(('1', 'ok') if ok else ('0', R.ERR_CLASS[err]))
        self.desc.append(('V', flags, c, ssig, spk, wit))

    def run(self):
        """Returns list of mismatches (description tuple, expected, got-line)."""
        data = ('\n'.join(self.req) + '\n').encode()
        p = subprocess.run([HARNESS], input=data, stdout=subprocess.PIPE)
        out = p.stdout.decode().split('\n')
        if out and out[-1] == '': out.pop()
        if p.returncode != 0 or len(out) != len(self.exp):
            raise RuntimeError('evaluation server: rc=%d, %d answers for %d cases; first lines: %r' % (p.returncode, len(out), len(self.exp), out[:3]))
        bad = []
        cls = R.ERR_CLASS
        for i, (line, e) in enumerate(zip(out, self.exp)):
            g = line.split(' ')
            g[1] = cls.get(g[1], '?' + g[1])
            if tuple(g) != e:
                bad.append((self.desc[i], e, line))
        return bad


def describe(d):
    if d[0] == 'E':
        _, sv, flags, c, script, st = d
        return 'EvalScript sigversion=%s flags=%s tx(locktime=%d,sequence=%d,version=%d) weight=%d script=%s stack=[%s]' % (
            SV_NAME[sv], flag_names(flags), c[0], c[1], c[2], c[3], script.hex() or '-', ' '.join(e.hex() or '""' for e in st))
    _, flags, c, ssig, spk, wit = d
    return 'VerifyScript flags=%s tx(locktime=%d,sequence=%d,version=%d) scriptSig=%s scriptPubKey=%s witness=[%s]' % (
        flag_names(flags), c[0], c[1], c[2], ssig.hex() or '-', spk.hex() or '-', ' '.join(e.hex() or '""' for e in wit))


def replay_lines(d):
    """Self-contained server input for one case (verbose)."""
    s = Session()
    if d[0] == 'E':
        _, sv, flags, c, script, st = d
        spec = s.script_spec([script]); sts = s.stack_spec(st)
        s.req.append('EV %d %x %d %d %d %d %s %s' % (sv, flags, c[0], c[1], c[2], c[3], spec, sts))
    else:
        _, flags, c, ssig, spk, wit = d
        s.req.append('V %x %d %d %d %s %s %s' % (flags, c[0], c[1], c[2], s.script_spec([ssig]), s.script_spec([spk]), s.stack_spec(wit)))
    return s.req


CTX0 = (127, 2, 2, 75)     # default transaction context: nLockTime 127, nSequence 2, version 2; tapscript weight 75


# ------------------------------------------------------------------------------------------------ job bodies
ALL_SV = (R.BASE, R.WITNESS_V0, R.TAPSCRIPT)
EVAL_FLAGS = ['STRICTENC', 'DERSIG', 'LOW_S', 'NULLDUMMY', 'MINIMALDATA', 'DISCOURAGE_UPGRADABLE_NOPS', 'CHECKLOCKTIMEVERIFY',
              'CHECKSEQUENCEVERIFY', 'MINIMALIF', 'NULLFAIL', 'WITNESS_PUBKEYTYPE', 'CONST_SCRIPTCODE',
              'DISCOURAGE_UPGRADABLE_PUBKEYTYPE']
NON_EVAL_UNION = sum(R.F[n] for n in R.FLAG_NAMES if n not in EVAL_FLAGS)
F = R.F


def job_single(args):
    """atoms[lo:hi] x stack set x one config."""
    sv, flags, setname, lo, hi = args
    s = Session()
    stacks = STACKSETS[setname]
    sid = s.stackset(stacks)
    for a in ATOMS[lo:hi]:
        if sv == R.TAPSCRIPT and prescan_op_success(a): continue
        s.eval_set(sv, flags, CTX0, [a], sid, stacks)
    return s


def job_pairs(args):
    sv, flags, setname, lo, hi = args
    s = Session()
    stacks = STACKSETS[setname]
    sid = s.stackset(stacks)
    for a in ATOMS[lo:hi]:
        for b in ATOMS:
            if sv == R.TAPSCRIPT and prescan_op_success(a + b): continue
            s.eval_set(sv, flags, CTX0, [a, b], sid, stacks)
    return s


COND_SYMS = [b'\x63', b'\x64', b'\x67', b'\x68', b'\x65', b'\x00', b'\x51', b'\x7e', b'\x50', b'\x61']
COND_SYMS_SMALL = COND_SYMS[:7]
COND_STACKS = [[], [b''], [b'\x01'], [b'\x02'], [b'', b'\x01'], [b'\x01', b''], [b'\x01', b'\x01']]


def job_cond(args):
    """all sequences of the given length with a fixed first symbol."""
    syms, length, first = args
    s = Session()
    sid = s.stackset(COND_STACKS)
    for rest in itertools.product(syms, repeat=length - 1):
        parts = [syms[first]] + list(rest)
        script = b''.join(parts)
        for sv, fl in ((R.BASE, 0), (R.WITNESS_V0, STANDARD), (R.TAPSCRIPT, 0)):
            if sv == R.TAPSCRIPT and prescan_op_success(script): continue
            s.eval_set(sv, fl, CTX0, [script], sid, COND_STACKS)
    return s


NUM_OPS = [bytes([o]) for o in range(0x8b, 0xa6) if o not in R.DISABLED] + [b'\x82', b'\x76', b'\x7c', b'\x73']
ARITH_ELEMS = [b'\xff\xff\xff\x7f', b'\xff\xff\xff\xff', b'\x01', b'\x81', b'', b'\x00\x00\x00\x80']


def job_arith(args):
    """every ordered pair of numeric opcodes on depth-3 stacks of 4-byte boundary numbers (5-byte intermediate results)."""
    lo, hi = args
    s = Session()
    stacks = [list(t) for t in itertools.product(ARITH_ELEMS, repeat=3)]
    sid = s.stackset(stacks)
    for a in NUM_OPS[lo:hi]:
        for b in NUM_OPS:
            for sv, fl in ((R.BASE, 0), (R.TAPSCRIPT, STANDARD)):
                s.eval_set(sv, fl, CTX0, [a, b], sid, stacks)
    return s


def job_limits(args):
    s = Session()
    NOP, ONE, DROP, DUP = b'\x61', b'\x51', b'\x75', b'\x76'
    cases = []   # (script parts, stack)
    for k in (200, 201, 202):
        cases.append(([NOP * k], [b'\x01']))
    for k in (201, 202, 300):
        cases.append(([ONE * k], []))
        cases.append(([b'\x01\x42' * k], []))                       # direct pushes never count
        cases.append(([b'\x00\x63' + b'\x50' * k + b'\x68\x51'], []))   # OP_RESERVED in a dead branch: below OP_16, not counted
    for k in (198, 199, 200):
        cases.append(([b'\x00\x63' + NOP * k + b'\x68\x51'], []))  # dead-branch opcodes count: IF + k + ENDIF
        cases.append(([b'\x51\x63' + NOP * k + b'\x68\x51'], []))
    for n in (0, 1, 3, 20):                                         # CHECKMULTISIG adds n to the op count
        keys = b''.join(R.push_data(K33) for _ in range(n))
        tail = b'\x00\x00' + keys + push_min(R.num_encode(n)) + b'\xae'
        for extra in (-1, 0, 1):
            cases.append(([NOP * (200 - n + extra) + tail], []))
    for k in (999, 1000, 1001):
        cases.append(([ONE * k], []))
        cases.append(([ONE * (k - 3)], [b'\x01', b'\x02', b'\x03']))     # initial stack items count
    cases.append(([ONE * 997 + b'\x6f'], []))                        # 3DUP to exactly 1000
    cases.append(([ONE * 998 + b'\x6f'], []))                        # ... 1001
    cases.append(([ONE * 999 + b'\x74'], []))                        # DEPTH pushes 999 -> 1000 items
    cases.append(([ONE * 1000 + b'\x74'], []))
    for k in (4, 5, 6):                                              # altstack items count towards the same limit
        cases.append(([ONE * 1000 + b'\x6b' * 5 + ONE * k], []))
        cases.append(([ONE * 995 + b'\x6b' * 5 + ONE * k + b'\x6c' * 5], []))
    chunk = b'\x4d\x08\x02' + B520 + DROP                            # 524 bytes
    for size in (9999, 10000, 10001, 10524):
        body = chunk * (size // 524)
        body += NOP * (size - len(body))
        cases.append(([body], [b'\x01']))
    cases.append(([b'\x4d\x08\x02' + B520], []))
    cases.append(([b'\x4d\x09\x02' + B521], []))
    cases.append(([b'\x00\x63\x4d\x09\x02' + B521 + b'\x68\x51'], []))   # oversized push in a dead branch still fails
    for sp, st in cases:
        for sv in ALL_SV:
            for fl in (0, STANDARD):
                s.eval_one(sv, fl, CTX0, sp, st)
    return s


def mkkey(i, prefix=2):
    return bytes([prefix]) + pat(32, 40 + 3 * i)


def search_sig(pred, kind='der', hashtype=1, s_val=None):
    """First signature (deterministic order) of the given shape for which pred(sig) holds."""
    for t in range(1, 4000):
        tw = bytes([1 + t % 120, 1 + t // 120])
        if kind == 'der':
            sig = der_sig(tw + DER_R[2:], s_val or DER_S_LOW, hashtype)
        elif kind == 'raw':
            sig = b'\x99' + tw
        elif kind == 'schnorr':
            sig = tw + S64[2:] + (bytes([hashtype]) if hashtype else b'')
        if pred(sig): return sig
    raise RuntimeError('no signature found')


def job_multisig_small(args):
    """n<=3 keys, m<=n signatures: all sequences over 3 keys x all sequences over a pool of 7 signatures."""
    sv, opcode = args
    s = Session()
    script = bytes([opcode]) + (b'\x51' if opcode == 0xaf else b'')
    keys = [mkkey(0), mkkey(1), mkkey(2, 3)]
    val = lambda sig, k: R.fake_ecdsa(sig, k, script, sv)
    pool = [b'']
    for i in range(3):
        pool.append(search_sig(lambda g: [val(g, k) for k in keys] == [j == i for j in range(3)]))
    pool.append(search_sig(lambda g: not any(val(g, k) for k in keys)))
    pool.append(search_sig(lambda g: all(val(g, k) for k in keys)))
    pool.append(search_sig(lambda g: val(g, keys[0]) and val(g, keys[1]) and not val(g, keys[2]), kind='raw'))
    flagsets = [0, F['NULLFAIL'], F['NULLDUMMY'], F['NULLFAIL'] | F['NULLDUMMY'] | F['DERSIG'], STANDARD]
    for n in range(4):
        for ks in itertools.product(keys, repeat=n):
            for m in range(n + 1):
                for sg in itertools.product(pool, repeat=m):
                    for dummy in (b'', b'\x01'):
                        st = [dummy] + list(sg) + [R.num_encode(m)] + list(ks) + [R.num_encode(n)]
                        for fl in flagsets:
                            s.eval_one(sv, fl, CTX0, [script], st)
    return s


def job_multisig_big(args):
    """n, m in -1..21 with structured signature patterns."""
    sv, = args
    s = Session()
    for opcode in (0xae, 0xaf):
        script = bytes([opcode]) + (b'\x51' if opcode == 0xaf else b'')
        keys = [mkkey(i, 2 + i % 2) for i in range(21)]
        sigs = [search_sig(lambda g, k=k: R.fake_ecdsa(g, k, script, sv)) for k in keys]
        for n in range(-1, 22):
            for m in range(-1, 23):
                ks = keys[:max(n, 0)]
                mm = max(m, 0)
                pats = [sigs[:mm], sigs[max(n, 0) - mm:max(n, 0)] if mm <= max(n, 0) else sigs[:mm], sigs[:mm][::-1], [b''] * mm]
                if mm: pats.append(sigs[:mm - 1] + [sigs[20]])
                for sg in pats:
                    st = [b''] + list(sg) + [R.num_encode(m)] + ks + [R.num_encode(n)]
                    for fl in (0, F['NULLFAIL'], STANDARD):
                        s.eval_one(sv, fl, CTX0, [script], st)
                    s.eval_one(sv, 0, CTX0, [script], st[1:])          # one element short
    return s


def job_sigenc(args):
    """CHECKSIG / CHECKSIGVERIFY (BASE, WITNESS_V0): signature and public key encodings x all subsets of 5 flags."""
    sv, = args
    s = Session()
    r_neg = bytes([0x80]) + pat(31, 23)
    sigs = [b'', DER, der_sig(DER_R, DER_S_HIGH), der_sig(DER_R, DER_S_LOW, 0), der_sig(DER_R, DER_S_LOW, 4),
            der_sig(DER_R, DER_S_LOW, 0x81), der_sig(DER_R, DER_S_LOW, 0x83), der_sig(DER_R, DER_S_LOW, 0x84), der_sig(DER_R, DER_S_LOW, 0x80),
            der_sig(r_neg, DER_S_LOW), der_sig(b'\x00' + DER_R, DER_S_LOW), der_sig(b'\x00' + r_neg, DER_S_LOW),
            der_sig(DER_R, b'\x00' + DER_S_LOW), der_sig(b'', DER_S_LOW), der_sig(DER_R, b''), der_sig(b'\x01', b'\x01'),
            DER[:-1], DER + b'\x01', b'\x30\x06\x02\x01\x01\x02\x01\x01'[:8], b'\x31' + DER[1:], DER[:2] + b'\x03' + DER[3:],
            b'\x01', b'\x99\x01\x02', pat(73, 3), pat(74, 3)]
    extra = []
    for base in (DER, der_sig(DER_R, DER_S_HIGH)):         # same shapes, other CRC verdicts
        for t in range(1, 4):
            extra.append(base[:6] + bytes([t]) + base[7:])
    sigs += extra
    keys = [K33, b'\x03' + K33[1:], K65, b'\x06' + K65[1:], b'\x07' + K65[1:], b'\x05' + K33[1:], b'\x02' + K65[1:], b'\x04' + K33[1:],
            K32, b'', b'\x02', K33 + b'\x00']
    fl5 = [F['STRICTENC'], F['DERSIG'], F['LOW_S'], F['NULLFAIL'], F['WITNESS_PUBKEYTYPE']]
    for opcode in (b'\xac', b'\xad\x51'):
        for sig in sigs:
            for k in keys:
                for bits in range(32):
                    fl = sum(f for i, f in enumerate(fl5) if bits >> i & 1)
                    s.eval_one(sv, fl, CTX0, [opcode], [sig, k])
        for fl in (0, STANDARD):
            s.eval_one(sv, fl, CTX0, [opcode], [DER])
    # 1-of-1 CHECKMULTISIG evaluates encodings lazily (only for the pairs it reaches)
    for sig in sigs[:12]:
        for k in keys[:6]:
            for bits in range(32):
                fl = sum(f for i, f in enumerate(fl5) if bits >> i & 1)
                s.eval_one(sv, fl, CTX0, [b'\xae'], [b'', sig, b'\x01', k, b'\x01'])
                s.eval_one(sv, fl, CTX0, [b'\xae'], [b'', sig, b'\x01', k, keys[0], b'\x02'])
    return s


def job_scriptcode(args):
    """CODESEPARATOR positions and FindAndDelete: the fake signature verdict commits to the exact scriptCode."""
    sv, = args
    s = Session()
    CS = b'\xab'
    for sig in (b'', b'\x99\x05', DER, b'\x01'):
        psig = R.push_data(sig)
        for key in (K33, K65):
            pk = R.push_data(key)
            tails = [b'', b'\x00\x63' + psig + b'\x68', R.push_data(psig) + b'\x75', psig + b'\x75', b'\x00\x63' + CS + b'\x68',
                     b'\x00\x75', b'\x4c' + bytes([len(sig)]) + sig + b'\x75' if sig else b'\x4c\x00\x75', b'\x05' + psig[:3]]
            for tail in tails:
                for cs in range(16):
                    # prefixes: CODESEPARATOR in a dead branch (must not move the scriptCode start), in a live IF and in a live ELSE
                    for pre in (b'', b'\x00\x63' + CS + b'\x68', b'\x51\x63' + CS + b'\x68', b'\x00\x63\x67' + CS + b'\x68', b'\x51\x63\x67' + CS + b'\x68'):
                        if pre and tail not in (tails[0], tails[1]): continue
                        parts = [pre, CS if cs & 1 else b'', psig, CS if cs & 2 else b'', pk, CS if cs & 4 else b'', b'\xac', CS if cs & 8 else b'', tail]
                        for fl in (0, F['CONST_SCRIPTCODE'], F['NULLFAIL'], STANDARD):
                            s.eval_one(sv, fl, CTX0, [b''.join(parts)], [])
                        # CHECKMULTISIG 1-of-1 with the signature pushed by the script
                        parts = [pre, b'\x00', CS if cs & 1 else b'', psig, b'\x51', CS if cs & 2 else b'', pk, b'\x51', CS if cs & 4 else b'', b'\xae', CS if cs & 8 else b'', tail]
                        for fl in (0, F['CONST_SCRIPTCODE'], STANDARD):
                            s.eval_one(sv, fl, CTX0, [b''.join(parts)], [])
    return s


def job_tapsig(args):
    """Tapscript CHECKSIG / CHECKSIGVERIFY / CHECKSIGADD: BIP342 signature opcode rules, weight budget, codeseparator position."""
    s = Session()
    sv = R.TAPSCRIPT
    prefixes = [b'', b'\xab', b'\x61\xab', b'\x00\x63\xab\x68', b'\x51\x63\xab\x68', b'\x01\x42\x75\x61\xab']
    keys = [K32, pat(32, 99), b'', b'\x01', K33, pat(31, 5)]
    nums = [b'', b'\x01', b'\x81', b'\xff\xff\xff\x7f', b'\xff\xff\xff\xff\x7f', b'\x00', b'\x10']
    for pre in prefixes:
        for key in keys:
            for opc, withnum in ((b'\xac', False), (b'\xad\x51', False), (b'\xba', True)):
                script = pre + opc
                sigs = [b'', S64, S64 + b'\x01', S64 + b'\x00', S64 + b'\x04', S64 + b'\x83', S64[:63], S64 + b'\x01\x01', b'\x01']
                if len(key) == 32:
                    sigs.append(search_sig(lambda g: R.fake_schnorr(g, key, sv, _ctx_for(script)) is None, kind='schnorr', hashtype=0))
                    sigs.append(search_sig(lambda g: R.fake_schnorr(g, key, sv, _ctx_for(script)) is None, kind='schnorr', hashtype=2))
                    sigs.append(search_sig(lambda g: R.fake_schnorr(g, key, sv, _ctx_for(script)) is not None, kind='schnorr', hashtype=0))
                for sig in sigs:
                    for w in (0, 49, 50, 51):
                        for fl in (0, F['DISCOURAGE_UPGRADABLE_PUBKEYTYPE'], F['MINIMALDATA'], STANDARD):
                            c = (CTX0[0], CTX0[1], CTX0[2], w)
                            if withnum:
                                for nm in nums: s.eval_one(sv, fl, c, [script], [sig, nm, key])
                            else:
                                s.eval_one(sv, fl, c, [script], [sig, key])
    # k passing signature checks against budgets 50k-1, 50k, 50k+1
    for k in range(1, 5):
        script = b'\x6e\xac\x75' * k + b'\x6d\x51'       # (2DUP CHECKSIG DROP)*k 2DROP 1
        for key in (K33, K32):
            sig = b'\x01' if key is K33 else search_sig(lambda g: R.fake_schnorr(g, key, sv, _ctx_for(script)) is None, kind='schnorr', hashtype=0)
            for w in (50 * k - 51, 50 * k - 1, 50 * k, 50 * k + 1):
                for fl in (0, STANDARD & ~F['DISCOURAGE_UPGRADABLE_PUBKEYTYPE']):
                    s.eval_one(sv, fl, (CTX0[0], CTX0[1], CTX0[2], w), [script], [sig, key])
                    s.eval_one(sv, fl, (CTX0[0], CTX0[1], CTX0[2], w), [script], [b'', key])   # empty signatures are free
    return s


def _ctx_for(script):
    """Ctx as the reference interpreter leaves it after running `script` (for signature search): codeseparator position."""
    c = R.Ctx(*CTX0)
    c.weight_left = 10 ** 6
    R.eval_script([b'', b'', b'\x01'], script, 0, R.TAPSCRIPT, c)
    return c


def job_locktime(args):
    s = Session()
    n5 = lambda v: R.num_encode(v)
    cltv_ops = [b'', b'\x01', b'\x7f', b'\x80', b'\x81', n5(126), n5(127), n5(128), n5(499999999), n5(500000000), n5(500000001), b'\xff\xff\xff\xff',
                n5(0xffffffff), n5(2 ** 39 - 1), b'\x00\x00\x00\x00\x00\x01', b'\x00\x00', b'\x7f\x00', n5(2 ** 31)]
    for op in cltv_ops:
        for lt in (0, 1, 126, 127, 128, 499999999, 500000000, 500000001, 0xffffffff):
            for seq in (0, 0xfffffffe, 0xffffffff):
                for fl in (0, F['CHECKLOCKTIMEVERIFY'], F['CHECKLOCKTIMEVERIFY'] | F['MINIMALDATA'], F['CHECKSEQUENCEVERIFY'], STANDARD):
                    for sv in ALL_SV:
                        s.eval_one(sv, fl, (lt, seq, 2, 75), [b'\xb1'], [op])
    T = 1 << 22
    csv_ops = [b'', b'\x01', b'\x02', b'\x03', b'\x80', b'\x81', n5(0xffff), n5(0x10000), n5(0x10002), n5(T), n5(T | 1), n5(T | 2), n5(T | 0xffff), n5(T | 0x10000 | 1),
               n5(1 << 31), n5(1 << 31 | 1), n5(1 << 31 | T), b'\xff\xff\xff\x7f', n5(2 ** 39 - 1), b'\x00\x00\x00\x00\x00\x01', b'\x02\x00', n5(1 << 23 | 1)]
    for op in csv_ops:
        for seq in (0, 1, 2, 3, 0xffff, 0x10002, T, T | 2, T | 0xffff, 1 << 31, 1 << 31 | 2, 0xffffffff, 1 << 23 | 2, T | 1 << 23 | 2):
            for ver in (0, 1, 2, 3, 0xffffffff):
                for fl in (0, F['CHECKSEQUENCEVERIFY'], F['CHECKSEQUENCEVERIFY'] | F['MINIMALDATA'], F['CHECKLOCKTIMEVERIFY'], STANDARD):
                    for sv in ALL_SV:
                        s.eval_one(sv, fl, (0, seq, ver, 75), [b'\xb2'], [op])
    for fl in (0, STANDARD):
        for sv in ALL_SV:
            s.eval_one(sv, fl, CTX0, [b'\xb1'], [])
            s.eval_one(sv, fl, CTX0, [b'\xb2'], [])
    return s


# ---------------------------------------------------------------------------------------------- VerifyScript families
def push_min(e):
    """Canonical (minimal) push of a stack element."""
    if len(e) == 0: return b'\x00'
    if len(e) == 1 and 1 <= e[0] <= 16: return bytes([0x50 + e[0]])
    if e == b'\x81': return b'\x4f'
    return R.push_data(e)


def internal_key():
    from test_framework.crypto import secp256k1
    return (7 * secp256k1.G).to_bytes_xonly()


_TAP_CACHE = {}


def taproot_build(script, leaf_ver=0xc0, path=(), prime=False):
    """Returns (scriptPubKey, control block) committing to `script` (BIP341), computed with the vendored key.py."""
    from test_framework.key import tweak_add_pubkey
    key = (script, leaf_ver, path)
    r = _TAP_CACHE.get(key)
    if r is None:
        P = internal_key()
        leaf = R.tagged_hash('TapLeaf', bytes([leaf_ver]) + R.compact_size(len(script)) + script)
        k = leaf
        for node in path:
            k = R.tagged_hash('TapBranch', k + node if k < node else node + k)
        q, neg = tweak_add_pubkey(P, R.tagged_hash('TapTweak', P + k))
        control = bytes([leaf_ver | (1 if neg else 0)]) + P + b''.join(path)
        r = _TAP_CACHE[key] = (b'\x51\x20' + q, control)
        if prime:
            R._COMMIT_CACHE[(control, q, leaf)] = True
    return r


def wrap_cases(script, st, prime=False):
    """(name, scriptSig parts, scriptPubKey, witness) for the five ways of committing to `script` with inputs `st`."""
    pushes = b''.join(push_min(e) for e in st)
    out = [('bare', [pushes], script, [])]
    out.append(('p2sh', [pushes, R.push_data(script)], b'\xa9\x14' + R.hash160(script) + b'\x87', []))
    wprog = b'\x00\x20' + R._sha256(script)
    out.append(('p2wsh', [], wprog, list(st) + [script]))
    out.append(('p2sh-p2wsh', [R.push_data(wprog)], b'\xa9\x14' + R.hash160(wprog) + b'\x87', list(st) + [script]))
    spk, control = taproot_build(script, prime=prime)
    out.append(('p2tr', [], spk, list(st) + [script, control]))
    return out


WRAP_STACKS = [[e] for e in E_FLAG] + [[], [b'\x01', b'\x01'], [b'', b'\x01'], [b'\x01', b''], [S64, K32], [DER, K33], [b'\x01', K33]]


def wrap_flagsets():
    return [0, F['P2SH'], F['P2SH'] | F['WITNESS'], MANDATORY, STANDARD,
            STANDARD & ~(F['CLEANSTACK'] | F['DISCOURAGE_OP_SUCCESS'] | F['MINIMALIF'] | F['MINIMALDATA'] | F['DISCOURAGE_UPGRADABLE_NOPS'])]


def job_wrap(args):
    lo, hi = args
    s = Session()
    for a in ATOMS[lo:hi]:
        for st in WRAP_STACKS:
            for name, ssig, spk, wit in wrap_cases(a, st):
                for fl in wrap_flagsets():
                    s.verify_one(fl, CTX0, ssig, spk, wit)
    return s


WRAP_PAIR_STACKS = [[], [b'\x01'], [b''], [b'\x02', b'\x01']]


def job_wrap_pairs(args):
    lo, hi = args
    s = Session()
    fls = [0, MANDATORY, STANDARD]
    for a in ATOMS[lo:hi]:
        for b in ATOMS:
            for st in WRAP_PAIR_STACKS:
                for name, ssig, spk, wit in wrap_cases(a + b, st, prime=True):
                    for fl in fls:
                        s.verify_one(fl, CTX0, ssig, spk, wit)
    return s


DISPATCH_FLAGS = ['P2SH', 'WITNESS', 'TAPROOT', 'CLEANSTACK', 'SIGPUSHONLY', 'DISCOURAGE_UPGRADABLE_WITNESS_PROGRAM',
                  'DISCOURAGE_UPGRADABLE_TAPROOT_VERSION', 'DISCOURAGE_OP_SUCCESS', 'DISCOURAGE_UPGRADABLE_PUBKEYTYPE', 'MINIMALIF',
                  'WITNESS_PUBKEYTYPE']


_WC = []


def witness_cases():
    if not _WC: _WC.extend(_witness_cases())
    return _WC


def _witness_cases():
    """Directed (scriptSig, scriptPubKey, witness) triples around witness-program / P2SH / taproot dispatch."""
    C = []
    add = lambda ssig, spk, wit: C.append((ssig, spk, wit))
    sha = R._sha256
    p2sh = lambda redeem: b'\xa9\x14' + R.hash160(redeem) + b'\x87'
    ONE = b'\x51'
    # --- native P2WSH
    for script, st in ((ONE, []), (b'\x00', []), (b'\x51\x51', []), (ONE, [b'\x01']), (b'\x75\x51', [B520]), (b'\x75\x51', [B521]),
                       (b'\x63\x51\x67\x00\x68', [b'\x02']), (b'\x63\x51\x67\x00\x68', [b'\x01']), (b'\x64\x51\x67\x00\x68', [b'\x00']),
                       (b'\x61' * 9999 + ONE, []), (b'\x61' * 10000 + ONE, []), (b'\xac', [DER, K33]), (b'\xac', [DER, K65]), (b'\xac', [b'', K65]),
                       (b'\xba', [b'', b'', K32]), (b'\x50', []), (b'\x6a', [])):
        add(b'', b'\x00\x20' + sha(script), st + [script])
        add(R.push_data(b'\x00\x20' + sha(script)), p2sh(b'\x00\x20' + sha(script)), st + [script])
    add(b'', b'\x00\x20' + sha(ONE), [])
    add(b'', b'\x00\x20' + sha(ONE), [b'\x52'])                       # hash mismatch
    add(b'', b'\x00\x20' + sha(ONE), [ONE, b'\x50'])                  # last item is the script, not an annex (v0)
    add(ONE, b'\x00\x20' + sha(ONE), [ONE])                           # non-empty scriptSig
    add(b'\x00', b'\x00\x20' + sha(ONE), [ONE])
    # --- P2WPKH
    for key in (K33, K65, b'\x03' + K33[1:]):
        prog = R.hash160(key)
        implied = b'\x76\xa9\x14' + prog + b'\x88\xac'
        good = search_sig(lambda g: R.fake_ecdsa(g, key, implied, R.WITNESS_V0))
        bad = search_sig(lambda g: not R.fake_ecdsa(g, key, implied, R.WITNESS_V0))
        for wit in ([good, key], [bad, key], [b'', key], [good, K33 + b'\x00'], [good], [good, key, b'\x01'], [], [b'\x01', good, key][1:] + [b'']):
            add(b'', b'\x00\x14' + prog, wit)
            add(R.push_data(b'\x00\x14' + prog), p2sh(b'\x00\x14' + prog), wit)
    # --- v0 programs of other lengths, other versions and lengths
    for ln in (2, 19, 21, 31, 33, 40):
        add(b'', b'\x00' + bytes([ln]) + pat(ln), [ONE])
        add(b'', b'\x00' + bytes([ln]) + pat(ln), [])
    for ver in (1, 2, 16):
        for ln in (2, 20, 31, 32, 33, 40):
            spk = bytes([0x50 + ver, ln]) + pat(ln)
            add(b'', spk, [ONE]); add(b'', spk, [])
            add(R.push_data(spk), p2sh(spk), [ONE])
            add(R.push_data(spk), p2sh(spk), [])
    add(b'', b'\x51\x02\x4e\x73', []); add(b'', b'\x51\x02\x4e\x73', [ONE]); add(b'', b'\x52\x02\x4e\x73', [])      # pay-to-anchor
    add(R.push_data(b'\x51\x02\x4e\x73'), p2sh(b'\x51\x02\x4e\x73'), [])
    add(b'', b'\x51\x03\x4e\x73\x00', [])
    for spk in (b'\x51\x29' + pat(41), b'\x51\x01\x42', b'\x4f\x20' + pat(32), b'\x51\x4c\x20' + pat(32), b'\x51\x20' + pat(32) + b'\x61', ONE, b'\x00\x51'):
        add(b'', spk, []); add(b'', spk, [ONE])                       # not witness programs
    # --- P2SH
    for redeem, ssig_pre in ((ONE, b''), (b'\x00', b''), (b'\x51\x51', b''), (b'\x75\x51', b'\x51'), (b'\x87', b'\x51\x51'), (b'\x6a', b'')):
        add(ssig_pre + R.push_data(redeem), p2sh(redeem), [])
        add(ssig_pre + R.push_data(redeem), p2sh(redeem), [ONE])       # unexpected witness
        add(b'\x61' + ssig_pre + R.push_data(redeem), p2sh(redeem), [])   # not push-only
        add(ssig_pre + b'\x50' + R.push_data(redeem), p2sh(redeem), [])   # OP_RESERVED counts as push for IsPushOnly but fails
    add(R.push_data(ONE), b'\xa9\x14' + pat(20) + b'\x87', [])          # hash mismatch
    add(b'', p2sh(ONE), [])
    w = b'\x00\x20' + sha(ONE)
    add(b'\x4c' + bytes([len(w)]) + w, p2sh(w), [ONE])                   # non-canonical push of the redeem script
    add(b'\x51' + R.push_data(w), p2sh(w), [ONE])                        # extra push
    add(b'\x00' + R.push_data(w), p2sh(w), [ONE])
    # --- bare scripts: CLEANSTACK, SIGPUSHONLY, unexpected witness
    for ssig, spk in ((b'', ONE), (b'\x51', ONE), (b'\x51', b'\x61'), (b'\x61', ONE), (b'\x51\x51', b'\x87'), (b'', b'\x00'), (b'\x00', b'\x91'), (b'\x51\x75', ONE)):
        add(ssig, spk, []); add(ssig, spk, [b''])
    # --- taproot key path
    spk, control = taproot_build(ONE)
    q = spk[2:]
    kctx = R.Ctx(*CTX0)
    good = search_sig(lambda g: R.fake_schnorr(g, q, R.TAPROOT, kctx) is None, kind='schnorr', hashtype=0)
    good65 = search_sig(lambda g: R.fake_schnorr(g, q, R.TAPROOT, kctx) is None, kind='schnorr', hashtype=3)
    bad = search_sig(lambda g: R.fake_schnorr(g, q, R.TAPROOT, kctx) is not None, kind='schnorr', hashtype=0)
    annex = b'\x50\x01\x02'
    actx = R.Ctx(*CTX0); actx.annex_present = True; actx.annex_hash = R._sha256(R.compact_size(len(annex)) + annex)
    good_annex = search_sig(lambda g: R.fake_schnorr(g, q, R.TAPROOT, actx) is None and R.fake_schnorr(g, q, R.TAPROOT, kctx) is not None, kind='schnorr', hashtype=0)
    for wit in ([good], [good65], [bad], [good + b'\x00'], [good + b'\x05'], [good[:63]], [b''], [annex], [good, annex], [good_annex, annex], [good_annex],
                [good_annex, b'\x50'], [good, b'\x51\x01'], []):
        add(b'', spk, wit)
        add(R.push_data(spk), p2sh(spk), wit)
    add(b'\x00', spk, [good])
    # --- taproot script path
    node = pat(32, 77)
    for script, st in ((ONE, []), (b'\x00', []), (b'\x51\x51', []), (b'\x50', []), (b'\x50', [B521]), (b'\x50', [b'\x01'] * 1001), (b'\x01\x50', []), (b'\x4c\x50', []), (b'\x50\x4c', []),
                       (b'\x61\xfe\x6a', []), (b'\x00\x63\x50\x68\x51', []), (b'\x75\x51', [B521]), (b'\x74\x75' + b'\x6d' * 500 + ONE, [b'\x01'] * 1000),
                       (b'\x74\x75' + b'\x6d' * 500 + b'\x75' + ONE, [b'\x01'] * 1001), (b'\x63\x51\x67\x00\x68', [b'\x02']), (b'\xae', [b'', b'', b'']),
                       (b'\x61' * 10001 + ONE, []), (b'\x61' * 202 + ONE, []), (b'\xac', [b'\x01', K33]), (b'\xac', [b'\x01', b'']), (b'\xac', [b'', K32]), (b'\xba', [b'', b'', K32])):
        for path in ((), (node,)):
            spk, control = taproot_build(script, 0xc0, path)
            add(b'', spk, st + [script, control])
            if len(st) < 10:
                add(b'', spk, st + [script, control, annex])
    spk, control = taproot_build(ONE)
    add(b'', spk, [ONE, bytes([control[0] ^ 1]) + control[1:]])                 # wrong parity
    add(b'', spk, [ONE, control[:1] + pat(32, 1)])                              # internal key x not matching
    add(b'', spk, [ONE, control[:1] + bytes(32)])                               # internal key not on the curve (x = 0)
    add(b'', spk, [b'\x52', control])                                            # other script
    add(b'', spk, [ONE, control + node])                                         # extra path element
    add(b'', spk[:2] + pat(32, 3), [ONE, control])                               # other output key
    for ln in (0, 1, 32, 34, 64, 33 + 32 * 128 + 1, 33 + 32 * 129):
        add(b'', spk, [ONE, (control + pat(33 + 32 * 130))[:ln]])                # wrong control sizes
    spk128, control128 = taproot_build(ONE, 0xc0, tuple(pat(32, i) for i in range(128)))
    add(b'', spk128, [ONE, control128])
    for lv in (0xc2, 0x50, 0xfe, 0x00):
        spk2, control2 = taproot_build(b'\x00', lv)
        add(b'', spk2, [b'\x00', control2]); add(b'', spk2, [b'\x01', b'\x00', control2])
        add(b'', spk2, [b'\x00', bytes([control2[0] & 1 | 0xc0]) + control2[1:]])   # committed as lv, claimed as tapscript
    # --- tapscript signature checks through the full dispatch (tapleaf hash, annex, codeseparator position, weight)
    for script in (b'\xac', b'\x61\xab\xac', b'\xad\x51'):
        for path in ((), (node,)):
            for anx in (None, annex):
                spk, control = taproot_build(script, 0xc0, path)
                c = R.Ctx(*CTX0)
                c.tapleaf_hash = R.tagged_hash('TapLeaf', b'\xc0' + R.compact_size(len(script)) + script)
                c.codesep_pos = 1 if b'\xab' in script else 0xffffffff
                if anx: c.annex_present = True; c.annex_hash = R._sha256(R.compact_size(len(anx)) + anx)
                g = search_sig(lambda x: R.fake_schnorr(x, K32, R.TAPSCRIPT, c) is None, kind='schnorr', hashtype=0)
                b = search_sig(lambda x: R.fake_schnorr(x, K32, R.TAPSCRIPT, c) is not None, kind='schnorr', hashtype=0)
                for sg in (g, b, b''):
                    add(b'', spk, [sg, K32, script, control] + ([anx] if anx else []))
    # validation weight: budget = serialized witness size + 50; k = 3 passing checks with an unknown key type need 150
    script = b'\x6e\xac\x75' * 3 + b'\x6d\x51'
    spk, control = taproot_build(script)
    base = [b'\x01', K33, script, control]
    size0 = len(R.compact_size(5)) + sum(len(R.compact_size(len(e))) + len(e) for e in base) + 50
    for target in (149, 150, 151):
        ln = target - size0 - 1          # annex of ln bytes adds 1 + ln
        if ln >= 1:
            add(b'', spk, base + [b'\x50' + bytes(ln - 1)])
    add(b'', spk, base)
    return C


def dispatch_flagsets():
    out = []
    for bits in range(1 << len(DISPATCH_FLAGS)):
        f = sum(F[n] for i, n in enumerate(DISPATCH_FLAGS) if bits >> i & 1)
        if R.flags_valid(f): out.append(f)
    return out + [MANDATORY, STANDARD]


def job_witness(args):
    lo, hi = args
    s = Session()
    cases = witness_cases()[lo:hi]
    fls = dispatch_flagsets()
    for ssig, spk, wit in cases:
        for fl in fls:
            s.verify_one(fl, CTX0, [ssig], spk, wit)
    return s


STACKSETS = {}


def init_stacksets(thorough):
    STACKSETS['main'] = stacks_upto(E_ALL, 2) + [list(t) for t in itertools.product(E_NUM if thorough else E_SMALL, repeat=3)] + deep_stacks()
    STACKSETS['flag'] = stacks_upto(E_FLAG, 2)


JOB_FUNCS = {'single': job_single, 'flags': job_single, 'pairs': job_pairs, 'cond': job_cond, 'arith': job_arith, 'limits': job_limits,
             'multisig': job_multisig_small, 'multisig_big': job_multisig_big, 'sigenc': job_sigenc, 'scriptcode': job_scriptcode,
             'tapsig': job_tapsig, 'locktime': job_locktime, 'wrap': job_wrap, 'wrap_pairs': job_wrap_pairs, 'witness': job_witness}


def run_job(job):
    idx, kind, args = job
    s = JOB_FUNCS[kind](args)
    bad = s.run()
    sample = None
    if s.exp:
        k = len(s.exp) // 2
        sample = describe(s.desc[k])[:400] + ' -> ' + ' '.join(s.exp[k])
    return idx, kind, len(s.exp), s.succ, dict(s.errs), bad[:5], len(bad), sample


def build_jobs(thorough):
    """Work units in execution order: the small directed families first, then the big products (a deadline cuts the tail)."""
    jobs = []
    na = len(ATOMS)
    jobs.append(('limits', ()))
    for sv in (R.BASE, R.WITNESS_V0):
        for opcode in (0xae, 0xaf):
            jobs.append(('multisig', (sv, opcode)))
        jobs.append(('multisig_big', (sv,)))
        jobs.append(('sigenc', (sv,)))
        jobs.append(('scriptcode', (sv,)))
    jobs.append(('tapsig', ()))
    jobs.append(('locktime', ()))
    nw = len(witness_cases())
    for lo in range(0, nw, 16):
        jobs.append(('witness', (lo, min(nw, lo + 16))))
    for lo in range(0, na, 16):
        jobs.append(('wrap', (lo, min(na, lo + 16))))
    for lo in range(0, len(NUM_OPS), 4):
        jobs.append(('arith', (lo, min(len(NUM_OPS), lo + 4))))
    for length in range(1, 5):
        for first in range(len(COND_SYMS)):
            jobs.append(('cond', (COND_SYMS, length, first)))
    cfgs = [(R.BASE, 0), (R.BASE, STANDARD), (R.BASE, MANDATORY), (R.WITNESS_V0, 0), (R.WITNESS_V0, STANDARD),
            (R.TAPSCRIPT, 0), (R.TAPSCRIPT, STANDARD)]
    step = 4 if thorough else 16
    for sv, fl in cfgs:
        for lo in range(0, na, step):
            jobs.append(('single', (sv, fl, 'main', lo, min(na, lo + step))))
    single_flags = [F[n] for n in EVAL_FLAGS] + [NON_EVAL_UNION]
    for fl in single_flags:
        for sv in ALL_SV:
            for lo in range(0, na, 64):
                jobs.append(('flags', (sv, fl, 'flag', lo, min(na, lo + 64))))
    if thorough:
        for first in range(len(COND_SYMS)):
            jobs.append(('cond', (COND_SYMS, 5, first)))
        for first in range(len(COND_SYMS_SMALL)):
            jobs.append(('cond', (COND_SYMS_SMALL, 6, first)))
        for sv, fl in ((R.BASE, 0), (R.BASE, STANDARD), (R.WITNESS_V0, STANDARD), (R.TAPSCRIPT, STANDARD)):
            for lo in range(na):
                jobs.append(('pairs', (sv, fl, 'flag', lo, lo + 1)))
        for lo in range(na):
            jobs.append(('wrap_pairs', (lo, lo + 1)))
    return jobs


def worker_init(harness, thorough, mandatory, standard):
    global HARNESS, MANDATORY, STANDARD
    HARNESS = harness
    MANDATORY, STANDARD = mandatory, standard
    init_stacksets(thorough)


def case_key(d):
    h = hashlib.sha256(repr(d).encode()).hexdigest()[:12]
    if d[0] == 'E':
        return 'eval|%s|%s|%s|%s' % (SV_NAME[d[1]], flag_names(d[2]), d[4].hex()[:80], h)
    return 'verify|%s|%s|%s' % (flag_names(d[1]), d[4].hex()[:80], h)


def replay(run):
    lines = [l for l in open(run.replay).read().split('\n') if l and not l.startswith('#')]
    p = subprocess.run([HARNESS], input=('\n'.join(lines) + '\n').encode(), stdout=subprocess.PIPE)
    print('request :', lines[-1])
    print('impl    :', p.stdout.decode().strip())
    for l in open(run.replay):
        if l.startswith('# expected') or l.startswith('# case'): print(l.strip())
    return 0


RULE = ('cases are enumerated by check.py (single enumerator) and evaluated by the real EvalScript/VerifyScript with a rule-based fake '
        'signature checker (CRC32 rule over sig, pubkey, scriptCode/sigversion resp. tapleaf hash, codeseparator position, annex; real BIP65/112 '
        'CheckLockTime/CheckSequence) and by the from-scratch reference ref/ref_script.py; families: single = each of %d script atoms (every opcode '
        '0x00-0xff, pushes completed, + non-minimal/truncated/oversized pushes) x %d boundary stacks x 7 (sigversion,flags) configs; flags = atoms x %d stacks x '
        '3 sigversions x (13 single flags + union of non-EvalScript flags); cond = all IF/NOTIF/ELSE/ENDIF/VERIF/0/1/CAT/RESERVED/NOP sequences to length %s; '
        'arith = ordered pairs of numeric opcodes on depth-3 stacks; limits (201/202 ops, 1000/1001 items, 10000/10001 bytes, 520/521 pushes); multisig n,m<=3 all '
        'key/signature sequences + n,m in -1..22 structured; sigenc (31 signature x 12 key encodings x 32 flag subsets); scriptcode (CODESEPARATOR subsets x '
        'FindAndDelete); tapsig (BIP342 sig opcodes, weight 50k+-1); locktime grids; wrap = atoms x 19 stacks x {bare,P2SH,P2WSH,P2SH-P2WSH,P2TR} x 6 flag '
        'sets via VerifyScript; witness = %d directed dispatch cases x all %d valid subsets of 11 dispatch flags%s. '
        'Compared: success flag, SHA256 of final stack on success, ScriptError class. distinct_nontrivial = number of (distinct by construction) cases that '
        'the reference evaluates to success (whole script executed, final stack compared)')


def main():
    global HARNESS, MANDATORY, STANDARD
    run = Run('C12', 'exploration')
    HARNESS = run.harness
    if run.replay:
        return replay(run)
    # the tree's own MANDATORY / STANDARD flag sets (by flag name)
    q = subprocess.run([HARNESS], input=b'Q\n', stdout=subprocess.PIPE).stdout.decode().split()
    if len(q) != 3 or q[2] != '0':
        print('HARNESS-ERROR property=C12 cannot read flag sets from the evaluation server: %r' % q)
        return 2
    MANDATORY, STANDARD = int(q[0], 16), int(q[1], 16)
    if not (R.flags_valid(MANDATORY) and R.flags_valid(STANDARD)):
        print('HARNESS-ERROR property=C12 tree flag sets are not valid combinations')
        return 2
    init_stacksets(run.thorough)
    jobs = [(i, k, a) for i, (k, a) in enumerate(build_jobs(run.thorough))]
    nproc = int(os.environ.get('VERIF_JOBS', '0') or 0) or os.cpu_count() or 4
    total = succ = done = 0
    errs = Counter()
    per_kind = Counter()
    succ_kind = Counter()
    samples = {}
    exhaustive = True
    try:
        with multiprocessing.Pool(nproc, worker_init, (HARNESS, run.thorough, MANDATORY, STANDARD)) as pool:
            for idx, kind, n, ns, er, bad, nbad, sample in pool.imap(run_job, jobs, chunksize=1):
                total += n; succ += ns; errs.update(er); per_kind[kind] += n; succ_kind[kind] += ns; done += 1
                if sample and kind not in samples: samples[kind] = sample
                for d, e, got in bad:
                    run.violation(case_key(d), '%s: reference expects "%s", implementation answered "%s" (%d mismatches in this work unit)' % (describe(d)[:1500], ' '.join(e), got, nbad),
                                  '\n'.join(replay_lines(d)) + '\n# case: ' + describe(d) + '\n# expected (ok, error class, stack hash): ' + ' '.join(e))
                if run.deadline_reached() and done < len(jobs):
                    exhaustive = False
                    pool.terminate()
                    break
    except RuntimeError as e:
        print('HARNESS-ERROR property=C12 %s' % e)
        return 2
    run.evaluations = total
    run.distinct = succ
    for k in sorted(samples): run.sample(k + ': ' + samples[k])
    run.extra['per_family'] = dict(sorted(per_kind.items()))
    run.extra['reference_errors_seen'] = dict(sorted(errs.items()))
    run.extra['work_units_done'] = done
    run.extra['work_units_planned'] = len(jobs)
    run.assumptions += [
        'signature validity is decided by a rule-based fake BaseSignatureChecker (identical CRC32 rule in main.cpp and ref_script.py); real ECDSA/Schnorr verification and sighash computation are outside this check (C10)',
        'LOW_S is exercised with S in (n/2, n) only; DER signatures whose R or S is >= the group order are not in the space',
        'the final stack is compared only when evaluation succeeds; on failure only the ScriptError class is compared',
        'direct EvalScript(TAPSCRIPT) cases skip scripts in which the BIP342 pre-scan meets an OP_SUCCESSx; those are covered through VerifyScript (P2TR)',
        'the taproot commitment (tweak) is recomputed with the vendored test_framework/key.py']
    if exhaustive:
        missing = [n for n in R.ERR_CLASS if n not in errs and n != 'UNKNOWN_ERROR']
        novar = [k for k in per_kind if succ_kind[k] == 0 or succ_kind[k] == per_kind[k]]
        if missing or novar:
            print('HARNESS-ERROR property=C12 vacuous: error reasons never expected by the reference: %s; families without both verdicts: %s' % (missing, novar))
            run.finish(rule='(vacuous run)', exhaustive=False)
            return 2
    condlen = '5 (+6 over 7 symbols)' if run.thorough else '4'
    extra = '; pairs = every ordered pair of atoms x %d stacks x 4 configs (BASE/NONE, BASE/STANDARD, WITNESS_V0/STANDARD, TAPSCRIPT/STANDARD); wrap_pairs = every ordered pair x 4 stacks x 5 wrappers x 3 flag sets' % len(STACKSETS['flag']) if run.thorough else ''
    rule = RULE % (len(ATOMS), len(STACKSETS['main']), len(STACKSETS['flag']), condlen, len(witness_cases()), len(dispatch_flagsets()), extra)
    return run.finish(rule=rule, exhaustive=exhaustive)


if __name__ == '__main__':
    sys.exit(main())
