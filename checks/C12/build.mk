LINK := small
