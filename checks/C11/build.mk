LINK := full
