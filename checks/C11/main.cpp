// C11 — script verification flags behave as soft forks.
// VX-ENUM over a generated corpus of (scriptSig, scriptPubKey, witness) triples:
//   * signature-free corpus (no valid signature involved; garbage signatures exercise the encoding flags):
//     inner scripts X (one or more per flag-gated branch of the interpreter) x input stacks I, each embedded as
//     bare / P2SH / P2WSH / P2SH-P2WSH / P2TR-script-path, plus directed witness-program shapes.
//     Flag space: EVERY valid combination of all flag bits (2^21 minus invalid), so every covering pair F c F+{b} is compared.
//   * real-signature corpus (P2PK, P2PKH, multisig, P2WPKH, P2WSH, P2TR key+script path with valid / high-S / padded-DER /
//     odd-hashtype / hybrid-key / wrong signatures): all valid flag sets within Hamming distance 2 of the named sets
//     {NONE, MANDATORY, STANDARD, ALL, every GetBlockScriptFlags value on mainnet/testnet4/signet/regtest heights}.
// Oracle: success(F + {b}) => success(F); determinism (second evaluation gives same verdict and ScriptError);
//         success(STANDARD) => success(C) for every consensus flag set C; ret == (serror == OK).
#include <vx/vx.h>

#include <addresstype.h>
#include <chainparams.h>
#include <consensus/amount.h>
#include <crypto/sha256.h>
#include <hash.h>
#include <key.h>
#include <policy/policy.h>
#include <primitives/transaction.h>
#include <pubkey.h>
#include <script/interpreter.h>
#include <script/script.h>
#include <script/script_error.h>
#include <script/signingprovider.h>
#include <secp256k1.h>
#include <test/util/script.h>
#include <test/util/setup_common.h>
#include <util/chaintype.h>
#include <util/strencodings.h>
#include <validation.h>

#include <bit>
#include <fstream>
#include <iostream>

namespace {
using valtype = std::vector<unsigned char>;
constexpr int NBITS = MAX_SCRIPT_VERIFY_FLAGS_BITS;

struct Triple {
    std::string name;
    CScript scriptSig, scriptPubKey;
    CScriptWitness witness;
    bool real_sigs = false;
    bool full = false;   // evaluated under every valid flag combination (else: neighbourhoods of the named sets)
    bool heavy = false;  // taproot commitment check dominates the cost
};

const CAmount AMOUNT = 12345;

CMutableTransaction make_tx()
{
    CMutableTransaction tx;
    tx.version = 2;
    tx.nLockTime = 10;
    tx.vin.resize(1);
    tx.vin[0].prevout = COutPoint(Txid::FromUint256(uint256{7}), 3);
    tx.vin[0].nSequence = 5;
    tx.vout.resize(1);
    tx.vout[0].nValue = 1000;
    tx.vout[0].scriptPubKey = CScript() << OP_1;
    return tx;
}

std::string flag_str(uint64_t f)
{
    std::string s;
    for (const auto& n : GetScriptFlagNames(script_verify_flags::from_int(f))) { if (!s.empty()) s += ","; s += n; }
    return s.empty() ? "NONE" : s;
}
std::string bit_name(int b) { return flag_str(uint64_t{1} << b); }

bool valid_flags(uint64_t f)
{
    const uint64_t P = script_verify_flags{SCRIPT_VERIFY_P2SH}.as_int(), W = script_verify_flags{SCRIPT_VERIFY_WITNESS}.as_int(), C = script_verify_flags{SCRIPT_VERIFY_CLEANSTACK}.as_int();
    if ((f & C) && !((f & P) && (f & W))) return false;
    if ((f & W) && !(f & P)) return false;
    return true;
}

std::string describe(const Triple& t)
{
    std::string w;
    for (const auto& e : t.witness.stack) w += (w.empty() ? "" : " ") + (e.empty() ? std::string("\"\"") : vx::hex(e));
    return t.name + " scriptSig=" + vx::hex(t.scriptSig) + " scriptPubKey=" + vx::hex(t.scriptPubKey) + " witness=[" + w + "]";
}

struct Evaluator {
    CMutableTransaction tx = make_tx();
    PrecomputedTransactionData txdata;
    const Triple& t;
    std::unique_ptr<MutableTransactionSignatureChecker> checker;
    explicit Evaluator(const Triple& tr) : t(tr)
    {
        tx.vin[0].scriptSig = t.scriptSig;
        tx.vin[0].scriptWitness = t.witness;
        txdata.Init(tx, {CTxOut(AMOUNT, t.scriptPubKey)}, /*force=*/true);
        checker = std::make_unique<MutableTransactionSignatureChecker>(&tx, 0, AMOUNT, txdata, MissingDataBehavior::FAIL);
    }
    // returns ScriptError + 1 (so 1 == success); reports ret/serror inconsistency
    uint8_t eval(uint64_t f)
    {
        ScriptError err = SCRIPT_ERR_UNKNOWN_ERROR;
        bool ok = VerifyScript(t.scriptSig, t.scriptPubKey, &t.witness, script_verify_flags::from_int(f), *checker, &err);
        if (ok != (err == SCRIPT_ERR_OK))
            vx::violation("ret-vs-serror|" + t.name, "VerifyScript returned " + std::to_string(ok) + " with serror=" + ScriptErrorString(err) + " flags=" + flag_str(f) + " " + describe(t), describe(t) + "\nflags " + flag_str(f));
        return (uint8_t)((ok ? 0 : std::max<int>(1, err)) + 1);
    }
};

// ------------------------------------------------------------------------------------------------ corpus helpers
CScript push_only(const std::vector<valtype>& st)
{
    CScript s;
    for (const auto& e : st) {       // minimal pushes (BIP62 rule 3); non-minimal ones are separate corpus entries
        if (e.size() == 1 && e[0] >= 1 && e[0] <= 16) s << (opcodetype)(OP_1 + e[0] - 1);
        else if (e.size() == 1 && e[0] == 0x81) s << OP_1NEGATE;
        else s << e;
    }
    return s;
}
valtype sv(const CScript& s) { return valtype(s.begin(), s.end()); }
CScript p2sh_of(const CScript& redeem) { return GetScriptForDestination(ScriptHash(redeem)); }
CScript p2wsh_of(const CScript& ws) { return GetScriptForDestination(WitnessV0ScriptHash(ws)); }

struct Tap { CScript spk; valtype control; uint256 merkle_root; };
XOnlyPubKey g_internal;
Tap taproot_of(const CScript& leaf, int leaf_ver = 0xc0, bool two_leaves = false)
{
    TaprootBuilder b;
    if (two_leaves) {
        b.Add(1, leaf, leaf_ver);
        b.Add(1, CScript() << OP_2 << OP_DROP << OP_1, 0xc0);
    } else {
        b.Add(0, leaf, leaf_ver);
    }
    b.Finalize(g_internal);
    Tap t;
    t.spk = GetScriptForDestination(b.GetOutput());
    auto sd = b.GetSpendData();
    t.control = *sd.scripts.at({sv(leaf), leaf_ver}).begin();
    t.merkle_root = sd.merkle_root;
    return t;
}

std::vector<Triple> g_free, g_sig;

bool g_big = false;
void add_free(const std::string& name, const CScript& ssig, const CScript& spk, const std::vector<valtype>& wit = {}, int full = -1)
{
    Triple t; t.name = "free/" + name; t.scriptSig = ssig; t.scriptPubKey = spk; t.witness.stack = wit;
    t.full = full < 0 ? g_big : full > 0;
    t.heavy = spk.IsPayToTaproot();
    g_free.push_back(std::move(t));
}

// every way of committing to inner script X with input stack I
void embed(const std::string& name, const CScript& X, const std::vector<valtype>& I, bool full, bool full_tr)
{
    add_free(name + "/bare", push_only(I), X, {}, full);
    { CScript ss = push_only(I); ss << sv(X); add_free(name + "/p2sh", ss, p2sh_of(X), {}, full); }
    { auto w = I; w.push_back(sv(X)); add_free(name + "/p2wsh", CScript(), p2wsh_of(X), w, full); }
    { auto w = I; w.push_back(sv(X)); CScript prog = p2wsh_of(X); add_free(name + "/p2sh-p2wsh", CScript() << sv(prog), p2sh_of(prog), w, full); }
    { Tap t = taproot_of(X); auto w = I; w.push_back(sv(X)); w.push_back(t.control); add_free(name + "/p2tr", CScript(), t.spk, w, full_tr); }
}

valtype der(const valtype& r, const valtype& s, unsigned char ht)
{
    valtype o{0x30, (unsigned char)(4 + r.size() + s.size()), 0x02, (unsigned char)r.size()};
    o.insert(o.end(), r.begin(), r.end());
    o.push_back(0x02); o.push_back((unsigned char)s.size());
    o.insert(o.end(), s.begin(), s.end());
    o.push_back(ht);
    return o;
}
valtype fill(size_t n, unsigned char first, unsigned char rest) { valtype v(n, rest); if (n) v[0] = first; return v; }

void build_free_corpus(bool big)
{
    g_big = big;
    const valtype E{}, ONE{1}, TWO{2}, ZERO1{0}, NEG0{0x80}, FIVE{5}, SIX{6}, ELEVEN{11}, TEN{10};
    // garbage signatures / keys (never valid; they drive the encoding rules)
    const valtype r32 = fill(32, 0x21, 0x55), slow = fill(32, 0x11, 0x66), shigh = fill(33, 0x00, 0xf1);
    const valtype sig_ok = der(r32, slow, 1), sig_high = der(r32, shigh, 1), sig_ht0 = der(r32, slow, 0), sig_ht4 = der(r32, slow, 4);
    valtype rpad = r32; rpad.insert(rpad.begin(), 0x00);
    const valtype sig_pad = der(rpad, slow, 1), sig_junk{0x01, 0x02, 0x03};
    const valtype key_c = fill(33, 0x02, 0x77), key_u = fill(65, 0x04, 0x77), key_h = fill(65, 0x06, 0x77), key_x = fill(33, 0x05, 0x77), key32 = fill(32, 0x79, 0x13);

    struct Inner { std::string name; CScript X; std::vector<std::vector<valtype>> inputs; bool core; };
    std::vector<Inner> inner;
    auto in = [&](const std::string& n, const CScript& X, std::vector<std::vector<valtype>> I, bool core = false) { inner.push_back({n, X, std::move(I), core}); };

    in("empty", CScript(), {{ONE}, {E}, {ONE, ONE}, {}}, true);
    in("true", CScript() << OP_1, {{}, {ONE}, {E}}, true);
    in("nop1", CScript() << OP_NOP1, {{ONE}, {E}}, true);
    in("nop10-1", CScript() << OP_NOP10 << OP_1, {{}, {ONE}});
    in("nop4-in-dead-branch", CScript() << OP_0 << OP_IF << OP_NOP4 << OP_ENDIF << OP_1, {{}});
    in("cltv", CScript() << OP_CHECKLOCKTIMEVERIFY, {{ONE}, {TEN}, {ELEVEN}, {ONE, E}, {E}, {ONE, valtype{0x81}}, {}, {ONE, valtype{0, 0, 0, 0, 0, 1}}, {valtype{10, 0}}}, true);
    in("cltv-drop-1", CScript() << OP_CHECKLOCKTIMEVERIFY << OP_DROP << OP_1, {{TEN}, {ELEVEN}, {E}, {valtype{0x81}}, {}});
    in("csv", CScript() << OP_CHECKSEQUENCEVERIFY, {{ONE}, {FIVE}, {SIX}, {ONE, E}, {ONE, valtype{0x81}}, {}, {valtype{0, 0, 0, 0x80, 0}}, {valtype{5, 0}}}, true);
    in("csv-drop-1", CScript() << OP_CHECKSEQUENCEVERIFY << OP_DROP << OP_1, {{FIVE}, {SIX}, {E}, {valtype{0x81}}, {}});
    in("if", CScript() << OP_IF << OP_1 << OP_ELSE << OP_0 << OP_ENDIF, {{ONE}, {TWO}, {E}, {ZERO1}, {valtype{1, 0}}, {}}, true);
    in("notif", CScript() << OP_NOTIF << OP_1 << OP_ELSE << OP_0 << OP_ENDIF, {{ONE}, {TWO}, {E}, {ZERO1}, {NEG0}});
    in("cms-0of0", CScript() << OP_0 << OP_0 << OP_CHECKMULTISIG, {{E}, {ONE}, {ZERO1}, {}, {ONE, E}}, true);
    in("cms-0of0-not", CScript() << OP_0 << OP_0 << OP_CHECKMULTISIG << OP_NOT, {{E}, {ONE}});
    in("cms-0of1", CScript() << OP_0 << key_c << OP_1 << OP_CHECKMULTISIG, {{E}, {ONE}});
    in("cms-1of1-not", CScript() << OP_1 << key_c << OP_1 << OP_CHECKMULTISIG << OP_NOT, {{E, E}, {E, sig_ok}, {ONE, sig_ok}, {E, sig_junk}, {E, sig_high}}, true);
    in("cms-1of2-not", CScript() << OP_1 << key_x << key_c << OP_2 << OP_CHECKMULTISIG << OP_NOT, {{E, E}, {E, sig_ok}, {E, sig_ht4}});
    in("codesep-1", CScript() << OP_CODESEPARATOR << OP_1, {{}}, true);
    in("codesep-dead", CScript() << OP_0 << OP_IF << OP_CODESEPARATOR << OP_ENDIF << OP_1, {{}});
    for (const auto& [kn, key] : std::vector<std::pair<std::string, valtype>>{{"kc", key_c}, {"ku", key_u}, {"kh", key_h}, {"kx", key_x}, {"k32", key32}, {"k0", E}}) {
        in("checksig-not-" + kn, CScript() << key << OP_CHECKSIG << OP_NOT, {{E}, {sig_ok}, {sig_high}, {sig_ht0}, {sig_ht4}, {sig_pad}, {sig_junk}, {}}, kn == "kc" || kn == "kh");
        if (big) in("checksig-" + kn, CScript() << key << OP_CHECKSIG, {{E}, {sig_ok}, {sig_junk}});
    }
    in("checksigverify-1", CScript() << key_c << OP_CHECKSIGVERIFY << OP_1, {{E}, {sig_ok}});
    in("find-and-delete", CScript() << sig_ok << OP_DROP << key_c << OP_CHECKSIG << OP_NOT, {{sig_ok}, {E}, {sig_ht4}}, true);
    in("find-and-delete-cms", CScript() << sig_ok << OP_DROP << OP_1 << key_c << OP_1 << OP_CHECKMULTISIG << OP_NOT, {{E, sig_ok}, {E, E}});
    in("checksigadd", CScript() << OP_0 << key32 << OP_CHECKSIGADD << OP_NOT, {{E}, {sig_junk}, {fill(64, 1, 2)}}, true);
    in("checksigadd-unknown-key", CScript() << OP_0 << key_c << OP_CHECKSIGADD, {{E}, {ONE}});
    in("1add-2-equal", CScript() << OP_1ADD << OP_2 << OP_EQUAL, {{ONE}, {valtype{1, 0}}, {valtype{1, 0, 0, 0, 0}}}, true);
    in("pick", CScript() << OP_PICK, {{ONE, E}, {ONE, ZERO1}, {ONE, ONE, valtype{1, 0}}});
    in("depth-1-equal", CScript() << OP_DEPTH << OP_1 << OP_EQUAL, {{}, {E}, {ONE}, {ONE, ONE}});
    in("drop-1", CScript() << OP_DROP << OP_1, {{ONE}, {ONE, ONE}, {}});
    in("success80", CScript() << OP_RESERVED, {{}, {ONE}}, true);
    in("success-after-1", CScript() << OP_1 << static_cast<opcodetype>(0xbb), {{}});
    in("1-in-if-success", CScript() << OP_1 << OP_0 << OP_IF << static_cast<opcodetype>(0x7e) << OP_ENDIF, {{}});
    in("return", CScript() << OP_RETURN, {{ONE}});
    in("verify-1", CScript() << OP_VERIFY << OP_1, {{ONE}, {E}});
    {   // non-minimal pushes inside the script
        CScript x; x.push_back(0x01); x.push_back(0x01);
        in("nonminimal-push-1", x, {{}, {ONE}}, true);
        CScript y; y.push_back(0x4c); y.push_back(0x01); y.push_back(0x42);
        in("pushdata1-short", y, {{}});
    }
    for (const auto& i : inner) {
        int k = 0;
        for (const auto& I : i.inputs) {
            // quick: every flag combination for the first input of each core script (P2TR for four of them), neighbourhoods for the rest;
            // thorough: every flag combination for everything except non-core P2TR embeddings
            const bool tr_core = i.name == "true" || i.name == "if" || i.name == "success80" || i.name == "checksigadd";
            const bool full = big || (i.core && k == 0);
            const bool full_tr = big ? (i.core && k < 3) : (tr_core && k == 0);
            embed(i.name + "/" + std::to_string(k), i.X, I, full, full_tr);
            k++;
        }
    }

    // --- scriptSig shapes that only make sense bare / p2sh
    CScript notpush = CScript() << OP_1 << OP_NOP;
    add_free("sigpushonly/nop", notpush, CScript() << OP_1);
    add_free("sigpushonly/p2sh", CScript() << OP_NOP << sv(CScript() << OP_1), p2sh_of(CScript() << OP_1));
    add_free("scriptsig-nop1", CScript() << OP_1 << OP_NOP1, CScript());
    { CScript s; s.push_back(0x01); s.push_back(0x01); add_free("scriptsig-nonminimal", s, CScript()); }
    { CScript s; s.push_back(0x4c); s.push_back(0x01); s.push_back(0x51); add_free("p2sh-nonminimal-redeem-push", s, p2sh_of(CScript() << OP_1)); }
    add_free("scriptsig-codesep", CScript() << OP_1 << OP_CODESEPARATOR, CScript());
    add_free("p2sh-bad-hash", CScript() << sv(CScript() << OP_1), GetScriptForDestination(ScriptHash(uint160{})));
    add_free("p2sh-redeem-false", CScript() << sv(CScript() << OP_0), p2sh_of(CScript() << OP_0));
    add_free("p2sh-extra-item", CScript() << OP_1 << sv(CScript() << OP_1), p2sh_of(CScript() << OP_1));
    // --- witness program shapes
    const CScript T = CScript() << OP_1;
    add_free("unexpected-witness/bare", CScript(), T, {ONE});
    add_free("unexpected-witness/p2sh", CScript() << sv(T), p2sh_of(T), {ONE});
    add_free("p2wsh/empty-witness", CScript(), p2wsh_of(T), {});
    add_free("p2wsh/mismatch", CScript(), p2wsh_of(T), {sv(CScript() << OP_2)});
    add_free("p2wsh/scriptsig-nonempty", CScript() << OP_1, p2wsh_of(T), {sv(T)});
    add_free("p2wsh/big-element", CScript(), p2wsh_of(CScript() << OP_DROP << OP_1), {valtype(521, 1), sv(CScript() << OP_DROP << OP_1)});
    add_free("p2sh-p2wsh/extra-push", CScript() << OP_1 << sv(p2wsh_of(T)), p2sh_of(p2wsh_of(T)), {sv(T)});
    { CScript prog = p2wsh_of(T); CScript s; s.push_back(0x4c); s.push_back((unsigned char)prog.size()); s.insert(s.end(), prog.begin(), prog.end());
      add_free("p2sh-p2wsh/nonminimal-push", s, p2sh_of(prog), {sv(T)}); }
    add_free("p2wpkh/garbage", CScript(), CScript() << OP_0 << valtype(20, 9), {sig_ok, key_c});
    add_free("p2wpkh/one-item", CScript(), CScript() << OP_0 << valtype(20, 9), {key_c});
    { valtype h(20); CHash160().Write(key_c).Finalize(h); add_free("p2wpkh/empty-sig", CScript(), CScript() << OP_0 << h, {E, key_c});
      add_free("p2wpkh/junk-sig", CScript(), CScript() << OP_0 << h, {sig_junk, key_c}); }
    for (int ln : {2, 21, 33, 40}) add_free("v0-len" + std::to_string(ln), CScript(), CScript() << OP_0 << valtype(ln, 3), {ONE});
    for (int ver : {1, 2, 16}) for (int ln : {2, 20, 32, 40}) {
        CScript spk = CScript() << (opcodetype)(OP_1 + ver - 1) << valtype(ln, 3);
        add_free("v" + std::to_string(ver) + "-len" + std::to_string(ln), CScript(), spk, {ONE});
        add_free("v" + std::to_string(ver) + "-len" + std::to_string(ln) + "/nowit", CScript(), spk, {});
        if (big || ln == 32) add_free("p2sh-v" + std::to_string(ver) + "-len" + std::to_string(ln), CScript() << sv(spk), p2sh_of(spk), {ONE});
    }
    // witness programs whose bytes cast to FALSE (all zero / negative zero) or TRUE (control), native and P2SH-wrapped:
    // the P2SH redeemScript leaves the program on top of the stack, so the legacy truthiness rule must hold with and without WITNESS
    for (int ver : {0, 1, 2, 16}) for (int ln : {2, 20, 32, 40}) {
        for (int content = 0; content < 3; content++) {
            valtype prog(ln, content == 2 ? 0x01 : 0x00);
            if (content == 1) prog.back() = 0x80;
            CScript wp = CScript() << (ver == 0 ? OP_0 : (opcodetype)(OP_1 + ver - 1)) << prog;
            const std::string nm = "falsy-program/v" + std::to_string(ver) + "-len" + std::to_string(ln) + "-" + (content == 0 ? "zero" : content == 1 ? "negzero" : "true");
            const int core = (ver == 1 || ver == 16) && (ln == 2 || ln == 32);     // quick: every flag combination for these
            add_free(nm + "/p2sh", CScript() << sv(wp), p2sh_of(wp), {}, big || core);
            add_free(nm + "/native", CScript(), wp, {}, big || core);
            add_free(nm + "/p2sh-witness", CScript() << sv(wp), p2sh_of(wp), {ONE}, big);
            add_free(nm + "/native-witness", CScript(), wp, {ONE}, big);
        }
    }
    add_free("p2a", CScript(), CScript() << OP_1 << valtype{0x4e, 0x73}, {});
    add_free("p2a/witness", CScript(), CScript() << OP_1 << valtype{0x4e, 0x73}, {ONE});
    add_free("p2sh-p2a", CScript() << sv(CScript() << OP_1 << valtype{0x4e, 0x73}), p2sh_of(CScript() << OP_1 << valtype{0x4e, 0x73}), {});
    // --- taproot shapes
    {
        Tap t = taproot_of(T);
        add_free("p2tr/keypath-garbage64", CScript(), t.spk, {valtype(64, 1)});
        add_free("p2tr/keypath-garbage65", CScript(), t.spk, {valtype(65, 1)});
        add_free("p2tr/keypath-size63", CScript(), t.spk, {valtype(63, 1)});
        add_free("p2tr/keypath-annex", CScript(), t.spk, {valtype(64, 1), valtype{0x50, 1}});
        add_free("p2tr/empty-witness", CScript(), t.spk, {});
        add_free("p2tr/scriptsig-nonempty", CScript() << OP_1, t.spk, {sv(T), t.control});
        add_free("p2tr/annex", CScript(), t.spk, {sv(T), t.control, valtype{0x50}});
        valtype bad = t.control; bad[0] ^= 1;
        add_free("p2tr/wrong-parity", CScript(), t.spk, {sv(T), bad});
        valtype shortc(t.control.begin(), t.control.begin() + 32);
        add_free("p2tr/control-32", CScript(), t.spk, {sv(T), shortc});
        valtype longc = t.control; longc.push_back(0);
        add_free("p2tr/control-34", CScript(), t.spk, {sv(T), longc});
        add_free("p2sh-p2tr", CScript() << sv(t.spk), p2sh_of(t.spk), {sv(T), t.control});
        Tap t2 = taproot_of(T, 0xc0, true);
        add_free("p2tr/two-leaves", CScript(), t2.spk, {sv(T), t2.control});
        for (int lv : {0xc2, 0xfe, 0x00}) {
            Tap u = taproot_of(CScript() << OP_0, lv);
            add_free("p2tr/leaf-version-" + std::to_string(lv), CScript(), u.spk, {sv(CScript() << OP_0), u.control});
        }
        Tap big_stack = taproot_of(CScript() << OP_RESERVED);
        std::vector<valtype> w(1001, ONE); w.push_back(sv(CScript() << OP_RESERVED)); w.push_back(big_stack.control);
        add_free("p2tr/success-1001-items", CScript(), big_stack.spk, w);
        // validation weight: unknown pubkey type, three non-empty signatures
        CScript ws; for (int i = 0; i < 3; i++) ws << OP_2DUP << OP_CHECKSIG << OP_DROP; ws << OP_2DROP << OP_1;
        Tap tw = taproot_of(ws);
        add_free("p2tr/weight-short", CScript(), tw.spk, {ONE, key_c, sv(ws), tw.control});
        add_free("p2tr/weight-enough", CScript(), tw.spk, {ONE, key_c, sv(ws), tw.control, valtype(60, 0x50)});
    }
}

// ------------------------------------------------------------------------------------------------ real signatures
void add_sig(const std::string& name, const CScript& ssig, const CScript& spk, const std::vector<valtype>& wit = {})
{
    Triple t; t.name = "sig/" + name; t.scriptSig = ssig; t.scriptPubKey = spk; t.witness.stack = wit; t.real_sigs = true;
    g_sig.push_back(std::move(t));
}

valtype ecdsa(const CKey& key, const CScript& scriptCode, SigVersion sigversion, int hashtype, const CScript& spk_for_tx, const std::string& mode = "")
{
    CMutableTransaction tx = make_tx();
    uint256 h = SignatureHash(scriptCode, tx, 0, hashtype, AMOUNT, sigversion);
    if (mode == "wrong") h = uint256{9};
    valtype sig;
    key.Sign(h, sig);
    if (mode == "high" || mode == "pad") {
        secp256k1_ecdsa_signature s;
        secp256k1_ecdsa_signature_parse_der(secp256k1_context_static, &s, sig.data(), sig.size());
        unsigned char c[64];
        secp256k1_ecdsa_signature_serialize_compact(secp256k1_context_static, c, &s);
        valtype r(c, c + 32), sv2(c + 32, c + 64);
        if (mode == "high") secp256k1_ec_seckey_negate(secp256k1_context_static, sv2.data());
        auto enc = [](valtype v, bool pad) {
            while (v.size() > 1 && v[0] == 0 && !(v[1] & 0x80)) v.erase(v.begin());
            if (v[0] & 0x80) v.insert(v.begin(), 0);
            if (pad) v.insert(v.begin(), 0);
            return v;
        };
        valtype rr = enc(r, mode == "pad"), ss = enc(sv2, false);
        sig = der(rr, ss, 0);
        sig.pop_back();
    }
    sig.push_back((unsigned char)hashtype);
    (void)spk_for_tx;
    return sig;
}

void build_sig_corpus()
{
    CKey k1, k2;
    { valtype b(32, 0x11); k1.Set(b.begin(), b.end(), true); }
    { valtype b(32, 0x22); k2.Set(b.begin(), b.end(), false); } // uncompressed
    const CPubKey p1 = k1.GetPubKey(), p2 = k2.GetPubKey();
    valtype hybrid(p2.begin(), p2.end()); hybrid[0] = 0x06 | (hybrid[64] & 1);
    const valtype E{};
    struct Var { std::string n; int ht; std::string mode; };
    const std::vector<Var> vars{{"ok", 1, ""}, {"high", 1, "high"}, {"pad", 1, "pad"}, {"ht0", 0, ""}, {"ht4", 4, ""}, {"ht83", 0x83, ""}, {"ht2", 2, ""}, {"wrong", 1, "wrong"}};

    for (const auto& v : vars) {
        // P2PK (compressed, uncompressed, hybrid key)
        for (const auto& [kn, key, pub] : std::vector<std::tuple<std::string, const CKey*, valtype>>{{"c", &k1, valtype(p1.begin(), p1.end())}, {"u", &k2, valtype(p2.begin(), p2.end())}, {"h", &k2, hybrid}}) {
            CScript spk = CScript() << pub << OP_CHECKSIG;
            valtype sig = ecdsa(*key, spk, SigVersion::BASE, v.ht, spk, v.mode);
            add_sig("p2pk-" + kn + "/" + v.n, CScript() << sig, spk);
            CScript spkn = CScript() << pub << OP_CHECKSIG << OP_NOT;
            valtype sign = ecdsa(*key, spkn, SigVersion::BASE, v.ht, spkn, v.mode);
            add_sig("p2pk-not-" + kn + "/" + v.n, CScript() << sign, spkn);
            // segwit v0
            CScript ws = CScript() << pub << OP_CHECKSIG;
            valtype wsig = ecdsa(*key, ws, SigVersion::WITNESS_V0, v.ht, ws, v.mode);
            add_sig("p2wsh-pk-" + kn + "/" + v.n, CScript(), p2wsh_of(ws), {wsig, sv(ws)});
            add_sig("p2sh-p2wsh-pk-" + kn + "/" + v.n, CScript() << sv(p2wsh_of(ws)), p2sh_of(p2wsh_of(ws)), {wsig, sv(ws)});
        }
        // P2PKH / P2WPKH
        {
            CScript spk = GetScriptForDestination(PKHash(p1));
            valtype sig = ecdsa(k1, spk, SigVersion::BASE, v.ht, spk, v.mode);
            add_sig("p2pkh/" + v.n, CScript() << sig << ToByteVector(p1), spk);
            CScript wspk = GetScriptForDestination(WitnessV0KeyHash(p1));
            valtype wsig = ecdsa(k1, spk, SigVersion::WITNESS_V0, v.ht, wspk, v.mode);
            add_sig("p2wpkh/" + v.n, CScript(), wspk, {wsig, ToByteVector(p1)});
            add_sig("p2sh-p2wpkh/" + v.n, CScript() << sv(wspk), p2sh_of(wspk), {wsig, ToByteVector(p1)});
            CScript wspk2 = GetScriptForDestination(WitnessV0KeyHash(p2));
            CScript code2 = GetScriptForDestination(PKHash(p2));
            valtype wsig2 = ecdsa(k2, code2, SigVersion::WITNESS_V0, v.ht, wspk2, v.mode);
            add_sig("p2wpkh-uncompressed/" + v.n, CScript(), wspk2, {wsig2, ToByteVector(p2)});
        }
        // 1-of-2 multisig, bare and P2SH, null and non-null dummy, signature for the second key
        {
            CScript ms = CScript() << OP_1 << ToByteVector(p1) << ToByteVector(p2) << OP_2 << OP_CHECKMULTISIG;
            valtype s1 = ecdsa(k1, ms, SigVersion::BASE, v.ht, ms, v.mode), s2 = ecdsa(k2, ms, SigVersion::BASE, v.ht, ms, v.mode);
            add_sig("ms1of2-k1/" + v.n, CScript() << OP_0 << s1, ms);
            add_sig("ms1of2-k2/" + v.n, CScript() << OP_0 << s2, ms);
            add_sig("ms1of2-dummy1/" + v.n, CScript() << OP_1 << s1, ms);
            add_sig("p2sh-ms1of2/" + v.n, CScript() << OP_0 << s1 << sv(ms), p2sh_of(ms));
            CScript msn = CScript() << OP_2 << ToByteVector(p1) << ToByteVector(p2) << OP_2 << OP_CHECKMULTISIG << OP_NOT;
            valtype n1 = ecdsa(k1, msn, SigVersion::BASE, v.ht, msn, v.mode), n2 = ecdsa(k2, msn, SigVersion::BASE, 1, msn, "wrong");
            add_sig("ms2of2-not-one-wrong/" + v.n, CScript() << OP_0 << n1 << n2, msn);
            valtype w1 = ecdsa(k1, ms, SigVersion::WITNESS_V0, v.ht, ms, v.mode);
            add_sig("p2wsh-ms1of2/" + v.n, CScript(), p2wsh_of(ms), {E, w1, sv(ms)});
        }
    }
    // shapes around a valid P2PK spend
    {
        CScript spk = CScript() << ToByteVector(p1) << OP_CHECKSIG;
        valtype sig = ecdsa(k1, spk, SigVersion::BASE, 1, spk);
        add_sig("p2pk/extra-item", CScript() << OP_1 << sig, spk);
        add_sig("p2pk/nop", CScript() << OP_NOP << sig, spk);
        CScript nm; nm.push_back(0x4c); nm.push_back((unsigned char)sig.size()); nm.insert(nm.end(), sig.begin(), sig.end());
        add_sig("p2pk/pushdata1", nm, spk);
        add_sig("p2pk/unexpected-witness", CScript() << sig, spk, {valtype{1}});
        CScript cs = CScript() << OP_CODESEPARATOR << ToByteVector(p1) << OP_CHECKSIG;
        CScript code = CScript() << ToByteVector(p1) << OP_CHECKSIG;
        add_sig("p2pk/codeseparator", CScript() << ecdsa(k1, code, SigVersion::BASE, 1, cs), cs);
        add_sig("p2wsh/codeseparator", CScript(), p2wsh_of(cs), {ecdsa(k1, code, SigVersion::WITNESS_V0, 1, cs), sv(cs)});
        // FindAndDelete: the signature is also pushed (and dropped) inside the scriptPubKey; it signs the script without itself
        CScript tail = CScript() << OP_DROP << ToByteVector(p1) << OP_CHECKSIG;
        valtype fsig = ecdsa(k1, tail, SigVersion::BASE, 1, tail);
        CScript fspk = CScript() << fsig; fspk.insert(fspk.end(), tail.begin(), tail.end());
        add_sig("p2pk/find-and-delete", CScript() << fsig, fspk);
        // CLTV / CSV guarded spends
        for (int n : {5, 10, 11}) {
            CScript g1 = CScript() << n << OP_CHECKLOCKTIMEVERIFY << OP_DROP << ToByteVector(p1) << OP_CHECKSIG;
            add_sig("cltv-" + std::to_string(n) + "-p2pk", CScript() << ecdsa(k1, g1, SigVersion::BASE, 1, g1), g1);
            CScript g2 = CScript() << n << OP_CHECKSEQUENCEVERIFY << OP_DROP << ToByteVector(p1) << OP_CHECKSIG;
            add_sig("csv-" + std::to_string(n) + "-p2wsh", CScript(), p2wsh_of(g2), {ecdsa(k1, g2, SigVersion::WITNESS_V0, 1, g2), sv(g2)});
        }
        // MINIMALIF with a real signature behind it
        CScript mi = CScript() << OP_IF << ToByteVector(p1) << OP_CHECKSIG << OP_ELSE << OP_0 << OP_ENDIF;
        valtype misig = ecdsa(k1, mi, SigVersion::WITNESS_V0, 1, mi);
        add_sig("p2wsh-minimalif/01", CScript(), p2wsh_of(mi), {misig, valtype{1}, sv(mi)});
        add_sig("p2wsh-minimalif/02", CScript(), p2wsh_of(mi), {misig, valtype{2}, sv(mi)});
        valtype misig_b = ecdsa(k1, mi, SigVersion::BASE, 1, mi);
        add_sig("p2sh-minimalif/02", CScript() << misig_b << valtype{2} << sv(mi), p2sh_of(mi));
    }
    // taproot: key path and script path with Schnorr signatures
    {
        XOnlyPubKey xk{p1};
        CScript leaf = CScript() << ToByteVector(xk) << OP_CHECKSIG;
        CScript leaf_add = CScript() << OP_0 << ToByteVector(xk) << OP_CHECKSIGADD << OP_1 << OP_EQUAL;
        CScript leaf33 = CScript() << ToByteVector(p1) << OP_CHECKSIG;      // unknown public key type
        for (const auto& [ln, lf] : std::vector<std::pair<std::string, CScript>>{{"checksig", leaf}, {"checksigadd", leaf_add}, {"unknown-keytype", leaf33}}) {
            for (bool with_annex : {false, true}) {
                for (int ht : {0, 1, 0x83, 4}) {
                    Tap t = taproot_of(lf);
                    CMutableTransaction tx = make_tx();
                    valtype annex{0x50, 0x01};
                    std::vector<valtype> wit{valtype{}, sv(lf), t.control};
                    if (with_annex) wit.push_back(annex);
                    tx.vin[0].scriptWitness.stack = wit;
                    PrecomputedTransactionData txdata; txdata.Init(tx, {CTxOut(AMOUNT, t.spk)}, true);
                    ScriptExecutionData ed;
                    ed.m_annex_init = true; ed.m_annex_present = with_annex;
                    if (with_annex) ed.m_annex_hash = (HashWriter{} << annex).GetSHA256();
                    ed.m_tapleaf_hash_init = true; ed.m_tapleaf_hash = ComputeTapleafHash(0xc0, lf);
                    ed.m_codeseparator_pos_init = true; ed.m_codeseparator_pos = 0xffffffff;
                    uint256 h;
                    valtype sig(64);
                    if (SignatureHashSchnorr(h, ed, tx, 0, ht == 4 ? 1 : ht, SigVersion::TAPSCRIPT, txdata, MissingDataBehavior::FAIL)) {
                        k1.SignSchnorr(h, sig, nullptr, uint256{1});
                        if (ht) sig.push_back((unsigned char)ht);
                        wit[0] = sig;
                        add_sig("p2tr-script-" + ln + (with_annex ? "-annex" : "") + "/ht" + std::to_string(ht), CScript(), t.spk, wit);
                    }
                }
            }
        }
        // key path
        for (bool with_annex : {false, true}) {
            for (int ht : {0, 1, 0x82, 0x10}) {
                Tap t = taproot_of(leaf);
                // spend with the internal key of g_internal? we do not hold its secret: build an output whose internal key is k1
                TaprootBuilder b; b.Add(0, leaf, 0xc0); b.Finalize(xk);
                CScript spk = GetScriptForDestination(b.GetOutput());
                uint256 root = b.GetSpendData().merkle_root;
                CMutableTransaction tx = make_tx();
                valtype annex{0x50};
                std::vector<valtype> wit{valtype{}};
                if (with_annex) wit.push_back(annex);
                PrecomputedTransactionData txdata; txdata.Init(tx, {CTxOut(AMOUNT, spk)}, true);
                ScriptExecutionData ed;
                ed.m_annex_init = true; ed.m_annex_present = with_annex;
                if (with_annex) ed.m_annex_hash = (HashWriter{} << annex).GetSHA256();
                uint256 h;
                if (!SignatureHashSchnorr(h, ed, tx, 0, ht == 0x10 ? 1 : ht, SigVersion::TAPROOT, txdata, MissingDataBehavior::FAIL)) continue;
                valtype sig(64);
                k1.SignSchnorr(h, sig, &root, uint256{2});
                if (ht) sig.push_back((unsigned char)ht);
                wit[0] = sig;
                add_sig(std::string("p2tr-key") + (with_annex ? "-annex" : "") + "/ht" + std::to_string(ht), CScript(), spk, wit);
                (void)t;
            }
        }
    }
}

// ------------------------------------------------------------------------------------------------ consensus flag sets
std::map<uint64_t, std::string> consensus_flag_sets()
{
    std::map<uint64_t, std::string> out;
    for (ChainType ct : {ChainType::MAIN, ChainType::TESTNET4, ChainType::SIGNET, ChainType::REGTEST}) {
        TestingSetup setup{ct};
        const ChainstateManager& cm = *setup.m_node.chainman;
        const Consensus::Params& p = cm.GetConsensus();
        std::set<int> heights{0, 1, 2, 1000, 10'000'000};
        for (auto dep : {Consensus::DEPLOYMENT_HEIGHTINCB, Consensus::DEPLOYMENT_CLTV, Consensus::DEPLOYMENT_DERSIG, Consensus::DEPLOYMENT_CSV, Consensus::DEPLOYMENT_SEGWIT}) {
            int h = p.DeploymentHeight(dep);
            for (int d : {-1, 0, 1}) if (h + d >= 0) heights.insert(h + d);
        }
        std::vector<uint256> hashes{uint256{1}};
        for (const auto& [hash, fl] : p.script_flag_exceptions) hashes.push_back(hash);
        for (int h : heights) {
            for (const uint256& hash : hashes) {
                CBlockIndex prev, idx;
                uint256 hcopy = hash;
                idx.phashBlock = &hcopy;
                idx.nHeight = h;
                prev.nHeight = h - 1;
                if (h > 0) idx.pprev = &prev;
                script_verify_flags f = GetBlockScriptFlags(idx, cm);
                out.emplace(f.as_int(), ChainTypeToString(ct) + "@" + std::to_string(h) + (hash == uint256{1} ? "" : "(exception block)"));
            }
        }
    }
    return out;
}

} // namespace

int main(int argc, char** argv)
{
    vx::init(argc, argv, "C11", "exploration");
    auto& E = vx::ev();
    const bool big = vx::thorough();
    static_assert(NBITS <= 24);
    const uint64_t NF = uint64_t{1} << NBITS;

    if (!vx::ctx().replay.empty()) {
        // replay: re-evaluate the recorded triple under the recorded flag sets (flags_small / flags_big / flags lines) and print the verdicts
        ECC_Context ecc_r;
        std::ifstream f(vx::ctx().replay);
        std::string line; Triple t; t.name = "replay";
        std::vector<std::pair<std::string, std::string>> fl;
        auto field = [](const std::string& l, const std::string& k) { size_t a = l.find(k); if (a == std::string::npos) return std::string(); a += k.size(); size_t b = l.find_first_of(" ]", a); return l.substr(a, b == std::string::npos ? std::string::npos : b - a); };
        while (std::getline(f, line)) {
            if (line.empty() || line[0] == '#') continue;
            if (line.rfind("flags", 0) == 0) { size_t sp = line.find(' '); fl.emplace_back(line.substr(0, sp), line.substr(sp + 1)); continue; }
            if (line.find("scriptPubKey=") == std::string::npos) continue;
            auto ss = ParseHex(field(line, "scriptSig=")), pk = ParseHex(field(line, "scriptPubKey="));
            t.scriptSig = CScript(ss.begin(), ss.end()); t.scriptPubKey = CScript(pk.begin(), pk.end());
            size_t a = line.find("witness=["), b = line.rfind(']');
            std::istringstream ws(line.substr(a + 9, b - a - 9)); std::string e;
            while (ws >> e) t.witness.stack.push_back(e == "\"\"" ? valtype{} : ParseHex(e));
        }
        printf("replay %s\n", describe(t).c_str());
        Evaluator ev(t);
        if (fl.empty()) fl.emplace_back("flags", "NONE");
        for (auto& [k, names] : fl) {
            uint64_t v = 0; std::istringstream is(names); std::string n;
            while (std::getline(is, n, ',')) { auto it = ScriptFlagNamesToEnum().find(n); if (it != ScriptFlagNamesToEnum().end()) v |= script_verify_flags{it->second}.as_int(); }
            uint8_t r = ev.eval(v);
            printf("  %s {%s} -> %s\n", k.c_str(), flag_str(v).c_str(), r == 1 ? "success" : ScriptErrorString((ScriptError)(r - 1)).c_str());
        }
        return 0;
    }
    std::map<uint64_t, std::string> consensus = consensus_flag_sets();
    ECC_Context ecc;
    { CKey ik; valtype b(32, 0x33); ik.Set(b.begin(), b.end(), true); g_internal = XOnlyPubKey{ik.GetPubKey()}; }
    build_free_corpus(big);
    build_sig_corpus();

    const uint64_t STD = STANDARD_SCRIPT_VERIFY_FLAGS.as_int(), MAND = MANDATORY_SCRIPT_VERIFY_FLAGS.as_int();
    for (uint64_t f = 0; f < NF; f += 977) if (valid_flags(f) != IsValidFlagCombination(script_verify_flags::from_int(f))) { printf("HARNESS-ERROR flag validity rule differs from test util\n"); return 2; }
    for (const auto& [c, where] : consensus) {
        if (!valid_flags(c)) { printf("HARNESS-ERROR consensus flag set invalid\n"); return 2; }
        if ((c & ~STD) != 0) vx::violation("consensus-not-subset-of-standard|" + flag_str(c), "consensus flags at " + where + " contain bits not in STANDARD: " + flag_str(c & ~STD), flag_str(c));
    }

    std::atomic<uint64_t> live_mask{0};      // bits whose toggling changed some verdict
    std::atomic<uint64_t> varying{0};
    vx::Distinct errs_seen;
    std::mutex mu;

    struct Acc { std::atomic<uint64_t> live{0}; std::atomic<bool> any_ok{false}, any_fail{false}; };
    // compares all covering pairs whose smaller set is sets[lo..hi)
    auto check_range = [&](const Triple& t, const std::vector<uint8_t>& res, const std::vector<uint32_t>& sets, size_t lo, size_t hi, Acc& acc) {
        // res[F] = 0 (not evaluated) | 1 success | >1 failure. sets = evaluated flag sets.
        uint64_t live = 0;
        bool any_ok = false, any_fail = false;
        for (size_t k = lo; k < hi; k++) {
            const uint32_t f = sets[k];
            const bool okf = res[f] == 1;
            (okf ? any_ok : any_fail) = true;
            for (int b = 0; b < NBITS; b++) {
                if (f >> b & 1) continue;
                const uint32_t g = f | (1u << b);
                if (res[g] == 0) continue;
                const bool okg = res[g] == 1;
                if (okf != okg) live |= uint64_t{1} << b;
                if (okg && !okf)
                    vx::violation("monotone|" + t.name + "|" + bit_name(b),
                                  "succeeds under {" + flag_str(g) + "} but fails (" + ScriptErrorString((ScriptError)(res[f] - 1)) + ") under the subset {" + flag_str(f) + "}: " + describe(t),
                                  describe(t) + "\nflags_small " + flag_str(f) + "\nflags_big " + flag_str(g));
            }
        }
        acc.live |= live;
        if (any_ok) acc.any_ok = true;
        if (any_fail) acc.any_fail = true;
    };
    auto check_finish = [&](const Triple& t, const std::vector<uint8_t>& res, Acc& acc) {
        // accepted under the standard flags => accepted under every consensus flag set
        if (res[STD] == 1)
            for (const auto& [c, where] : consensus)
                if (res[c] > 1)
                    vx::violation("standard-implies-consensus|" + t.name + "|" + flag_str(c), "accepted under STANDARD flags but rejected (" + ScriptErrorString((ScriptError)(res[c] - 1)) + ") under the consensus flags of " + where + " {" + flag_str(c) + "}: " + describe(t), describe(t) + "\nflags_small " + flag_str(c) + "\nflags_big " + flag_str(STD));
        live_mask |= acc.live.load();
        if (acc.any_ok && acc.any_fail) varying++;
    };
    auto check_pairs = [&](const Triple& t, const std::vector<uint8_t>& res, const std::vector<uint32_t>& sets) {
        Acc acc;
        check_range(t, res, sets, 0, sets.size(), acc);
        check_finish(t, res, acc);
    };

    std::atomic<bool> cut{false};
    // ---- part 2: real-signature corpus x Hamming-distance-2 neighbourhoods of the named flag sets
    std::set<uint32_t> nb;
    std::vector<uint64_t> centers{0, MAND, STD, NF - 1};
    for (const auto& [c, w] : consensus) centers.push_back(c);
    for (uint64_t c : centers) {
        for (int a = -1; a < NBITS; a++) for (int b = a; b < NBITS; b++) {
            uint64_t f = c;
            if (a >= 0) f ^= uint64_t{1} << a;
            if (b >= 0 && b != a) f ^= uint64_t{1} << b;
            if (valid_flags(f)) nb.insert((uint32_t)f);
        }
    }
    std::vector<uint32_t> nbv(nb.begin(), nb.end());
    std::atomic<uint64_t> done_sig{0};
    std::atomic<uint64_t> sig_ok_std{0};
    vx::par_for(g_sig.size(), 1, [&](uint64_t lo, uint64_t hi, unsigned) {
        for (uint64_t i = lo; i < hi; i++) {
            if (vx::deadline_reached()) { cut = true; return; }
            const Triple& t = g_sig[i];
            Evaluator ev(t);
            std::vector<uint8_t> res(NF, 0);
            for (uint32_t f : nbv) res[f] = ev.eval(f);
            for (uint32_t f : nbv) {
                uint8_t r2 = ev.eval(f);
                if (r2 != res[f]) vx::violation("determinism|" + t.name, "two evaluations under {" + flag_str(f) + "} differ: " + describe(t), describe(t));
            }
            check_pairs(t, res, nbv);
            if (res[STD] == 1) sig_ok_std++;
            std::set<uint8_t> es(res.begin(), res.end());
            for (uint8_t e : es) if (e) errs_seen.add((uint64_t)e);
            E.evaluations += 2 * nbv.size();
            done_sig++;
        }
    });
    if (cut) E.exhaustive = false;

    // ---- part 1: signature-free corpus x every valid flag combination
    std::vector<uint32_t> all_valid;
    for (uint64_t f = 0; f < NF; f++) if (valid_flags(f)) all_valid.push_back((uint32_t)f);
    std::atomic<uint64_t> done_free{0}, done_full{0};
    // cheap triples first, the taproot-heavy full-space ones last (a deadline then cuts the most expensive tail)
    std::stable_sort(g_free.begin(), g_free.end(), [](const Triple& x, const Triple& y) { return (x.full * 2 + (x.full && x.heavy)) < (y.full * 2 + (y.full && y.heavy)); });
    uint64_t n_full = 0;
    for (const auto& t : g_free) n_full += t.full;
    const uint64_t n_light = g_free.size() - n_full;   // sorted: neighbourhood-only triples first
    // (a) neighbourhood-only triples: one triple per work unit
    vx::par_for(n_light, 1, [&](uint64_t lo, uint64_t hi, unsigned) {
        for (uint64_t i = lo; i < hi; i++) {
            if (vx::deadline_reached()) { cut = true; return; }
            const Triple& t = g_free[i];
            Evaluator ev(t);
            std::vector<uint8_t> res(NF, 0);
            for (uint32_t f : nbv) res[f] = ev.eval(f);
            uint64_t n2 = 0;
            for (size_t k = i % 7; k < nbv.size(); k += 7, n2++) {
                uint32_t f = nbv[k];
                uint8_t r2 = ev.eval(f);
                if (r2 != res[f]) vx::violation("determinism|" + t.name, "two evaluations under {" + flag_str(f) + "} differ: " + ScriptErrorString((ScriptError)(res[f] - 1)) + " vs " + ScriptErrorString((ScriptError)(r2 - 1)) + ": " + describe(t), describe(t));
            }
            check_pairs(t, res, nbv);
            std::set<uint8_t> es(res.begin(), res.end());
            for (uint8_t e : es) if (e) errs_seen.add((uint64_t)e);
            E.evaluations += nbv.size() + n2;
            done_free++;
        }
    });
    // (b) full-space triples: one at a time, the flag space of each is split over the threads (a taproot-heavy triple would
    //     otherwise occupy a single thread for ~20 s)
    for (uint64_t i = n_light; i < g_free.size(); i++) {
        if (vx::deadline_reached()) { cut = true; break; }
        const Triple& t = g_free[i];
        std::vector<uint8_t> res(NF, 0);
        std::atomic<uint64_t> n2{0};
        vx::par_for(all_valid.size(), 16384, [&](uint64_t lo, uint64_t hi, unsigned) {
            Evaluator ev(t);
            uint64_t m = 0;
            for (uint64_t k = lo; k < hi; k++) res[all_valid[k]] = ev.eval(all_valid[k]);
            // determinism: a second evaluation of every 7th flag set must give the identical verdict and error
            for (uint64_t k = lo; k < hi; k++) {
                if (k % 7 != i % 7) continue;
                uint32_t f = all_valid[k];
                uint8_t r2 = ev.eval(f); m++;
                if (r2 != res[f]) vx::violation("determinism|" + t.name, "two evaluations under {" + flag_str(f) + "} differ: " + ScriptErrorString((ScriptError)(res[f] - 1)) + " vs " + ScriptErrorString((ScriptError)(r2 - 1)) + ": " + describe(t), describe(t));
            }
            n2 += m;
        });
        Acc acc;
        vx::par_for(all_valid.size(), 16384, [&](uint64_t lo, uint64_t hi, unsigned) { check_range(t, res, all_valid, lo, hi, acc); });
        check_finish(t, res, acc);
        bool seen[256] = {};
        for (uint32_t f : all_valid) seen[res[f]] = true;
        for (int e = 1; e < 256; e++) if (seen[e]) errs_seen.add((uint64_t)e);
        E.evaluations += all_valid.size() + n2.load();
        done_free++;
        done_full++;
    }
    if (cut) E.exhaustive = false;

    E.distinct_nontrivial = varying.load();
    E.set("triples_signature_free", (uint64_t)g_free.size());
    E.set("triples_real_signatures", (uint64_t)g_sig.size());
    E.set("triples_done", done_free.load() + done_sig.load());
    E.set("triples_under_every_flag_combination", n_full);
    E.set("triples_under_every_flag_combination_done", done_full.load());
    E.set("valid_flag_combinations", (uint64_t)all_valid.size());
    E.set("neighbourhood_flag_sets", (uint64_t)nbv.size());
    E.set("consensus_flag_sets", (uint64_t)consensus.size());
    E.set("distinct_script_errors_seen", (uint64_t)errs_seen.size());
    E.set("real_sig_triples_valid_under_standard", sig_ok_std.load());
    std::string live_names, dead_names;
    for (int b = 0; b < NBITS; b++) ((live_mask.load() >> b & 1) ? live_names : dead_names) += bit_name(b) + " ";
    E.set_str("flags_that_changed_a_verdict", live_names);
    for (const auto& [c, w] : consensus) E.sample("consensus flags {" + flag_str(c) + "} e.g. " + w, 6);
    if (!g_free.empty()) E.sample(describe(g_free[g_free.size() / 2]).substr(0, 300));
    if (!g_sig.empty()) E.sample(describe(g_sig[g_sig.size() / 2]).substr(0, 300));
    E.rule = "corpus generated in main.cpp: signature-free triples = inner scripts (>=1 per flag-gated interpreter branch) x input stacks x {bare,P2SH,P2WSH,P2SH-P2WSH,P2TR} + directed "
             "witness-program/taproot shapes, each evaluated under EVERY valid combination of the " + std::to_string(NBITS) + " flag bits (all covering pairs F, F+{b} compared); real-signature triples "
             "(P2PK/P2PKH/multisig/P2WPKH/P2WSH/P2TR key+script path x valid, high-S, padded DER, hashtype 0/2/4/0x83, hybrid/uncompressed key, wrong signature) under all valid flag sets within "
             "Hamming distance 2 of {NONE, MANDATORY, STANDARD, ALL, each GetBlockScriptFlags value}; oracle success(F+{b})=>success(F), determinism (re-evaluation), success(STANDARD)=>success(consensus), "
             "ret==(serror==OK); distinct_nontrivial = triples whose verdict differs between flag sets";
    E.assume("transaction context fixed: version 2, nLockTime 10, nSequence 5, one input, amount 12345");
    E.assume("signature-free triples use a real TransactionSignatureChecker on that transaction; their signatures are structurally valid or invalid encodings that never verify");
    if (E.exhaustive && !dead_names.empty()) {
        printf("HARNESS-ERROR property=C11 flags that never changed any verdict in the corpus (branch not covered): %s\n", dead_names.c_str());
        vx::finish();
        return 2;
    }
    if (E.exhaustive && sig_ok_std.load() < 10) { printf("HARNESS-ERROR property=C11 too few real-signature spends valid under STANDARD (%" PRIu64 ")\n", sig_ok_std.load()); vx::finish(); return 2; }
    return vx::finish();
}
