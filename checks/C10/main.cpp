// C10 — Signature checks accept exactly valid signatures over the right message.
// Producer for check.py. Two layers:
//  (i)  digests: SignatureHash (BASE, WITNESS_V0; every hash-type byte + wide values) and SignatureHashSchnorr
//       (TAPROOT/TAPSCRIPT x annex x codeseparator position x every hash-type byte) for every tx shape
//       1..3 inputs x 0..3 outputs x every input index x content variants; lines "SH"/"TR" are recomputed by the
//       vendored script.py. Cached paths (PrecomputedTransactionData, SigHashCache, CTransaction) are compared with
//       the uncached result here.
//  (ii) soundness: for every shape x spend kind x hash type the harness signs with a real key, VerifyScript must
//       accept, and every single mutation of the transaction / spent outputs / annex must flip the verdict iff the
//       commitment table (transcribed from the legacy rules, BIP143, BIP341) says the field is covered; every
//       single-bit change of the signature, every other hash-type byte, the wrong key, the empty signature must be
//       rejected; the high-S twin is accepted iff LOW_S is not set; every evaluation is repeated three times through a
//       CachingTransactionSignatureChecker on a shared SignatureCache and must keep its verdict. Lines "E" let check.py verify the accepted
//       signature against the reference digest with the pure-Python ECDSA/BIP340 verifier.
#include <vx/vx.h>

#include <crypto/sha256.h>
#include <hash.h>
#include <key.h>
#include <primitives/transaction.h>
#include <pubkey.h>
#include <script/interpreter.h>
#include <script/script.h>
#include <script/script_error.h>
#include <script/sigcache.h>
#include <script/signingprovider.h>
#include <streams.h>
#include <uint256.h>

using Bytes = std::vector<unsigned char>;

// ---------------------------------------------------------------- sink (same protocol as C49)
struct Sink {
    std::mutex mu;
    std::vector<std::string> lines;
    uint64_t emitted = 0;
    std::map<std::string, uint64_t> stats;
    std::set<std::string> vkeys;
    void line(std::string s) { std::lock_guard<std::mutex> l(mu); lines.push_back(std::move(s)); }
    void stat(const std::string& k, uint64_t n) { std::lock_guard<std::mutex> l(mu); stats[k] += n; }
    void viol(const std::string& key, const std::string& what)
    {
        std::lock_guard<std::mutex> l(mu);
        if (!vkeys.insert(key).second || vkeys.size() > 40) return;
        printf("V\t%s\t%s\n", key.c_str(), what.c_str());
        fflush(stdout);
    }
    void flush()
    {
        std::lock_guard<std::mutex> l(mu);
        std::sort(lines.begin(), lines.end());
        for (auto& s : lines) { fputs(s.c_str(), stdout); fputc('\n', stdout); }
        emitted += lines.size();
        lines.clear();
        fflush(stdout);
    }
    void finish()
    {
        flush();
        for (auto& kv : stats) printf("S\t%s\t%" PRIu64 "\n", kv.first.c_str(), kv.second);
        printf("END\t%" PRIu64 "\n", emitted);
        fflush(stdout);
    }
};
static Sink S;
static std::atomic<bool> g_incomplete{false};
static bool out_of_time() { if (vx::deadline_reached()) { g_incomplete = true; return true; } return false; }
static std::string u(int64_t v) { return std::to_string(v); }
static std::string hx(const Bytes& b) { return b.empty() ? "-" : vx::hex(b); }
static std::string hx(const CScript& s) { return s.empty() ? "-" : vx::hex(Bytes(s.begin(), s.end())); }
static std::string hx(const uint256& h) { return vx::hex(h.begin(), 32); }
static std::string J(std::initializer_list<std::string> f)
{
    std::string o;
    for (auto& x : f) { if (!o.empty()) o += '\t'; o += x.empty() ? "-" : x; }
    return o;
}

// ---------------------------------------------------------------- transaction shapes
static Bytes patbytes(size_t n, uint8_t seed)
{
    Bytes b(n);
    uint32_t x = 0x1234567u + seed * 7919u;
    for (size_t i = 0; i < n; i++) { x = x * 1664525u + 1013904223u; b[i] = (uint8_t)(x >> 24); }
    return b;
}
static CScript generic_spk(int which)
{
    switch (which & 3) {
    case 0: return CScript() << OP_DUP << OP_HASH160 << patbytes(20, 9) << OP_EQUALVERIFY << OP_CHECKSIG;
    case 1: return CScript() << OP_1 << patbytes(32, 10);
    case 2: return CScript();
    default: { CScript s; s << OP_RETURN << patbytes(260, 11); return s; } // > 252 bytes: 3-byte compact size
    }
}
static CMutableTransaction make_tx(int n_in, int n_out, int variant)
{
    static const uint32_t VERS[] = {2, 1, 0xFFFFFFFFu, 0x80000003u};
    static const uint32_t LOCKS[] = {0, 499999999, 0xFFFFFFFFu, 500000000};
    static const uint32_t SEQS[] = {0xFFFFFFFFu, 0, 0xFFFFFFFEu, 0x80000005u, 0x00400001u};
    static const CAmount VALS[] = {0, 1, 2100000000000000LL, 12345678, -1};
    CMutableTransaction tx;
    tx.version = VERS[variant % 4];
    tx.nLockTime = LOCKS[(variant / 2) % 4];
    for (int i = 0; i < n_in; i++) {
        CTxIn in;
        in.prevout.hash = Txid::FromUint256(uint256{patbytes(32, (uint8_t)(40 + i + 16 * variant))});
        in.prevout.n = (variant % 3 == 2 && i == 0) ? 0xFFFFFFFFu : (uint32_t)(i * 3 + variant);
        in.nSequence = SEQS[(i + variant) % 5];
        tx.vin.push_back(in);
    }
    for (int j = 0; j < n_out; j++) tx.vout.emplace_back(VALS[(j + variant) % 5], generic_spk(j + variant));
    return tx;
}
static std::vector<CTxOut> make_spent(int n_in, int variant)
{
    static const CAmount AM[] = {50000, 0, 2100000000000000LL, 1};
    std::vector<CTxOut> v;
    for (int i = 0; i < n_in; i++) v.emplace_back(AM[(i + variant) % 4], generic_spk(i + variant + 1));
    return v;
}
static std::string ser_tx(const CMutableTransaction& tx) { DataStream ss; ss << TX_NO_WITNESS(tx); return vx::hex(Bytes(UCharCast(ss.data()), UCharCast(ss.data()) + ss.size())); }
static std::string ser_spent(const std::vector<CTxOut>& sp) { DataStream ss; ss << sp; return vx::hex(Bytes(UCharCast(ss.data()), UCharCast(ss.data()) + ss.size())); }

// hash types for the digest layer: every byte, plus wide/negative 32-bit values (SignatureHash takes int32_t)
static std::vector<int32_t> digest_hashtypes()
{
    std::vector<int32_t> v;
    for (int i = 0; i < 256; i++) v.push_back(i);
    for (int32_t x : {0x100, 0x101, 0x1ff, 0x7fffffff, -1, (int32_t)0x80000000, 0x10003, (int32_t)0xffffff02, 0x8002, (int32_t)0xfffffe83}) v.push_back(x);
    return v;
}
static std::vector<CScript> digest_scriptcodes(bool big)
{
    std::vector<CScript> v;
    v.push_back(generic_spk(0));
    v.push_back(CScript());
    v.push_back(CScript() << OP_CODESEPARATOR);
    v.push_back(CScript() << patbytes(33, 1) << OP_CODESEPARATOR << OP_CHECKSIG << OP_CODESEPARATOR << OP_CODESEPARATOR);
    v.push_back(CScript() << Bytes{0xab, 0xab, 0xab, 0xab} << OP_CODESEPARATOR << OP_1); // 0xab inside push data is data
    { CScript s; s << patbytes(280, 2) << OP_DROP << OP_CODESEPARATOR << OP_1; v.push_back(s); } // PUSHDATA2, script > 252 bytes
    if (big) {
        v.push_back(CScript() << OP_CODESEPARATOR << OP_CODESEPARATOR << OP_CODESEPARATOR);
        { CScript s; s << Bytes(76, 0xab) << OP_CODESEPARATOR; v.push_back(s); } // PUSHDATA1 of 0xab bytes
        v.push_back(CScript() << OP_IF << OP_CODESEPARATOR << OP_ENDIF << patbytes(33, 3) << OP_CHECKSIGVERIFY << OP_CODESEPARATOR << OP_1);
    }
    return v;
}

static void digest_layer(bool big)
{
    const auto HT = digest_hashtypes();
    const auto SC = digest_scriptcodes(big);
    const int NV = big ? 8 : 1;
    struct Item { int variant, n_in, n_out, nin; };
    std::vector<Item> items;
    for (int v = 0; v < NV; v++) for (int a = 1; a <= 3; a++) for (int b = 0; b <= 3; b++) for (int i = 0; i < a; i++) items.push_back({v, a, b, i});
    std::atomic<uint64_t> n_cached{0}, n_sh{0}, n_tr{0};
    vx::par_for(items.size(), 1, [&](uint64_t lo, uint64_t hi, unsigned) {
        for (uint64_t it = lo; it < hi; it++) {
            if (out_of_time()) continue; // a deadline is not a violation: complete work units only
            auto [variant, n_in, n_out, nin] = items[it];
            const unsigned nIn = nin;
            CMutableTransaction mtx = make_tx(n_in, n_out, variant);
            const CTransaction ctx{mtx};
            std::vector<CTxOut> spent = make_spent(n_in, variant);
            const CAmount amount = spent[nIn].nValue;
            std::string where = "variant " + u(variant) + " shape " + u(n_in) + "x" + u(n_out) + " nIn " + u(nIn);
            PrecomputedTransactionData pre;
            pre.Init(mtx, std::vector<CTxOut>(spent), /*force=*/true);
            SigHashCache shared_cache[2]; // one per sigversion, shared by all script codes and hash types (like one checker)
            for (size_t si = 0; si < SC.size(); si++) {
                for (int sv = 0; sv < 2; sv++) {
                    SigVersion sigv = sv ? SigVersion::WITNESS_V0 : SigVersion::BASE;
                    std::string out;
                    std::vector<uint256> plain;
                    for (int32_t ht : HT) {
                        uint256 h = SignatureHash(SC[si], mtx, nIn, ht, amount, sigv, nullptr, nullptr);
                        plain.push_back(h);
                        out += hx(h);
                    }
                    S.line(J({"SH", u(sv), ser_tx(mtx), u(nIn), u(amount), hx(SC[si]), u(HT.size()), out}));
                    n_sh += HT.size();
                    // cached paths must agree: precomputed hashes, per-checker midstate cache (forward then backward,
                    // interleaved with another script code), immutable CTransaction
                    SigHashCache fresh;
                    uint64_t n = 0;
                    for (int pass = 0; pass < 2; pass++)
                        for (size_t k = 0; k < HT.size(); k++) {
                            size_t idx = pass ? HT.size() - 1 - k : k;
                            int32_t ht = HT[idx];
                            uint256 a = SignatureHash(SC[si], mtx, nIn, ht, amount, sigv, &pre, nullptr);
                            uint256 b = SignatureHash(SC[si], mtx, nIn, ht, amount, sigv, sv ? &pre : nullptr, &fresh);
                            uint256 c = SignatureHash(SC[si], mtx, nIn, ht, amount, sigv, nullptr, &shared_cache[sv]);
                            uint256 d = SignatureHash(SC[si], ctx, nIn, ht, amount, sigv, nullptr, nullptr);
                            // pollute the shared cache slot with a different script code
                            (void)SignatureHash(SC[(si + 1) % SC.size()], mtx, nIn, ht ^ 0x40, amount, sigv, nullptr, &shared_cache[sv]);
                            n += 4;
                            if (a != plain[idx] || b != plain[idx] || c != plain[idx] || d != plain[idx]) {
                                S.viol(std::string("sighash-cache-sv") + u(sv) + "-ht" + u(ht & 0xff),
                                       "cached/precomputed/CTransaction digest differs from the uncached one: " + where + " scriptcode#" + u(si) + " hashtype " + u(ht) + " which=" + (a != plain[idx] ? "precomputed" : b != plain[idx] ? "sighashcache" : c != plain[idx] ? "shared-sighashcache" : "CTransaction"));
                                break;
                            }
                        }
                    n_cached += n;
                }
            }
            // BIP341/342
            for (int scriptpath = 0; scriptpath < 2; scriptpath++)
                for (int annex_i = 0; annex_i < 3; annex_i++)
                    for (int cs = 0; cs < (scriptpath ? 3 : 1); cs++) {
                        Bytes annex = annex_i == 0 ? Bytes{} : annex_i == 1 ? Bytes{0x50} : [&] { Bytes a = patbytes(300, 7); a[0] = 0x50; return a; }();
                        CScript leaf = CScript() << patbytes(32, 5) << OP_CHECKSIG;
                        uint32_t cpos = cs == 0 ? 0xFFFFFFFFu : cs == 1 ? 0 : 0x01020304u;
                        std::string out;
                        for (int ht = 0; ht < 256; ht++) {
                            ScriptExecutionData ex;
                            ex.m_annex_init = true;
                            ex.m_annex_present = annex_i != 0;
                            if (annex_i) ex.m_annex_hash = (HashWriter{} << annex).GetSHA256();
                            if (scriptpath) {
                                ex.m_tapleaf_hash_init = true;
                                ex.m_tapleaf_hash = ComputeTapleafHash(0xc0, std::span<const unsigned char>(leaf.data(), leaf.size()));
                                ex.m_codeseparator_pos_init = true;
                                ex.m_codeseparator_pos = cpos;
                            }
                            uint256 h, h2;
                            bool ok = SignatureHashSchnorr(h, ex, mtx, nIn, (uint8_t)ht, scriptpath ? SigVersion::TAPSCRIPT : SigVersion::TAPROOT, pre, MissingDataBehavior::FAIL);
                            // second call reuses execdata.m_output_hash; immutable tx
                            bool ok2 = SignatureHashSchnorr(h2, ex, ctx, nIn, (uint8_t)ht, scriptpath ? SigVersion::TAPSCRIPT : SigVersion::TAPROOT, pre, MissingDataBehavior::FAIL);
                            if (ok != ok2 || (ok && h != h2)) S.viol("schnorr-sighash-repeat-ht" + u(ht), "second SignatureHashSchnorr call with the same execdata differs: " + where);
                            out += ok ? hx(h) : std::string("x");
                            out += ",";
                            n_tr++;
                        }
                        S.line(J({"TR", ser_tx(mtx), ser_spent(spent), u(nIn), u(scriptpath), hx(annex), hx(leaf), u(cpos), out}));
                    }
        }
    });
    S.stat("digests_base_v0", n_sh);
    S.stat("digests_taproot", n_tr);
    S.stat("cached_digest_comparisons", n_cached);
    S.flush();
}

// ---------------------------------------------------------------- soundness layer
enum Kind { P2PK, P2PKH, P2PK_CS, P2PK_FD, P2SH_PK, P2WPKH, P2WSH, P2WSH_CS, TR_KEY, TR_KEY_ANNEX, TR_SCRIPT, TR_SCRIPT_CS_ANNEX, NKINDS };
static const char* KNAME[] = {"p2pk", "p2pkh", "p2pk_codesep", "p2pk_findanddelete", "p2sh_pk", "p2wpkh", "p2wsh", "p2wsh_codesep", "tr_key", "tr_key_annex", "tr_script", "tr_script_codesep_annex"};
enum Cls { C_BASE, C_V0, C_TAP };
static Cls cls_of(Kind k) { return k <= P2SH_PK ? C_BASE : k <= P2WSH_CS ? C_V0 : C_TAP; }

static CKey g_keyA, g_keyB;
static const script_verify_flags FLAGS = SCRIPT_VERIFY_P2SH | SCRIPT_VERIFY_DERSIG | SCRIPT_VERIFY_NULLDUMMY | SCRIPT_VERIFY_CHECKLOCKTIMEVERIFY | SCRIPT_VERIFY_CHECKSEQUENCEVERIFY | SCRIPT_VERIFY_WITNESS | SCRIPT_VERIFY_TAPROOT;

struct Case {
    CMutableTransaction tx;
    std::vector<CTxOut> spent;
    unsigned nIn;
    Kind kind;
    int ht;
    // for the E line
    CScript script_code; // what the reference must hash (BASE/V0) or the leaf script (TAPSCRIPT)
    Bytes pubkey, sig;   // sig without hash-type byte
    Bytes annex;
    uint32_t codesep_pos = 0xFFFFFFFFu;
};

// Repeat dimension: validation checks signatures through CachingTransactionSignatureChecker with one SignatureCache
// shared by many checks. Every evaluation of the soundness layer is therefore repeated through a caching checker
// (store=true) twice and once more with store=false, on a cache shared by all cases of the same spend kind; each of the
// three verdicts must equal the verdict of the plain checker (a failed check must not make a later identical check pass).
static std::unique_ptr<SignatureCache> g_sigcache[16];
static thread_local int tl_kind = -1;
static thread_local const std::string* tl_where = nullptr;
static std::atomic<uint64_t> g_cached_evals{0}, g_cached_accepts{0}, g_cached_rejects{0};

static bool verify(const CMutableTransaction& tx, const std::vector<CTxOut>& spent, unsigned nIn, script_verify_flags flags = FLAGS, ScriptError* err = nullptr)
{
    ScriptError e;
    bool ok;
    {
        PrecomputedTransactionData txdata;
        txdata.Init(tx, std::vector<CTxOut>(spent), /*force=*/false);
        GenericTransactionSignatureChecker<CMutableTransaction> checker(&tx, nIn, spent[nIn].nValue, txdata, MissingDataBehavior::FAIL);
        ok = VerifyScript(tx.vin[nIn].scriptSig, spent[nIn].scriptPubKey, &tx.vin[nIn].scriptWitness, flags, checker, &e);
    }
    if (err) *err = e;
    if (tl_kind >= 0) {
        const CTransaction ctx{tx};
        for (int round = 0; round < 3; round++) {
            PrecomputedTransactionData txdata;
            txdata.Init(ctx, std::vector<CTxOut>(spent), /*force=*/false);
            CachingTransactionSignatureChecker checker(&ctx, nIn, spent[nIn].nValue, /*storeIn=*/round < 2, *g_sigcache[tl_kind], txdata);
            const bool c = VerifyScript(ctx.vin[nIn].scriptSig, spent[nIn].scriptPubKey, &ctx.vin[nIn].scriptWitness, flags, checker, nullptr);
            g_cached_evals++;
            (c ? g_cached_accepts : g_cached_rejects)++;
            if (c != ok)
                S.viol(std::string("caching-checker-verdict-differs-") + (ok ? "rejects-valid" : "accepts-invalid") + "-round" + u(round) + "-" + KNAME[tl_kind],
                       std::string("VerifyScript through CachingTransactionSignatureChecker (") + (round < 2 ? "store=true" : "store=false") + ", evaluation #" + u(round + 1) + " of the same input) returned " + u(c) + " but the plain checker returned " + u(ok) + ": " + (tl_where ? *tl_where : std::string()));
        }
    }
    return ok;
}

static Bytes with_ht(Bytes sig, int ht, bool taproot)
{
    if (!(taproot && ht == 0)) sig.push_back((unsigned char)ht);
    return sig;
}

// Place signature `sig_ht` (already with hash-type byte) into the input according to the kind.
static void place_sig(Case& c, const Bytes& sig_ht, const CKey& key)
{
    CPubKey pk = key.GetPubKey();
    Bytes pkb(pk.begin(), pk.end());
    CTxIn& in = c.tx.vin[c.nIn];
    in.scriptSig = CScript();
    in.scriptWitness.stack.clear();
    auto& st = in.scriptWitness.stack;
    switch (c.kind) {
    case P2PK: case P2PK_CS: case P2PK_FD: in.scriptSig = CScript() << sig_ht; break;
    case P2PKH: in.scriptSig = CScript() << sig_ht << pkb; break;
    case P2SH_PK: { CScript redeem = CScript() << pkb << OP_CHECKSIG; in.scriptSig = CScript() << sig_ht << Bytes(redeem.begin(), redeem.end()); break; }
    case P2WPKH: st = {sig_ht, pkb}; break;
    case P2WSH: { CScript ws = CScript() << pkb << OP_CHECKSIG; st = {sig_ht, Bytes(ws.begin(), ws.end())}; break; }
    case P2WSH_CS: { CScript ws = CScript() << pkb << OP_CODESEPARATOR << OP_CHECKSIG << OP_CODESEPARATOR; st = {sig_ht, Bytes(ws.begin(), ws.end())}; break; }
    default: break; // taproot handled by caller
    }
}

// Builds a signed spend of input nIn. Returns false if this (kind, hashtype) cannot be signed (taproot: invalid
// hash type / SINGLE without output).
static bool build(Case& c, const CKey& key)
{
    CPubKey pk = key.GetPubKey();
    Bytes pkb(pk.begin(), pk.end());
    XOnlyPubKey xo{pk};
    Bytes xob(xo.begin(), xo.end());
    CTxOut& so = c.spent[c.nIn];
    CTxIn& in = c.tx.vin[c.nIn];
    in.scriptSig = CScript();
    in.scriptWitness.stack.clear();
    c.pubkey = pkb;
    const Cls cl = cls_of(c.kind);
    if (cl != C_TAP) {
        CScript p2pkh = CScript() << OP_DUP << OP_HASH160 << ToByteVector(pk.GetID()) << OP_EQUALVERIFY << OP_CHECKSIG;
        CScript p2pk = CScript() << pkb << OP_CHECKSIG;
        switch (c.kind) {
        case P2PK: so.scriptPubKey = p2pk; c.script_code = p2pk; break;
        case P2PKH: so.scriptPubKey = p2pkh; c.script_code = p2pkh; break;
        case P2PK_CS: so.scriptPubKey = CScript() << pkb << OP_CODESEPARATOR << OP_CHECKSIG << OP_CODESEPARATOR; c.script_code = CScript() << OP_CHECKSIG << OP_CODESEPARATOR; break;
        case P2PK_FD: c.script_code = CScript() << OP_DROP << pkb << OP_CHECKSIG; break; // spk set below (contains the signature)
        case P2SH_PK: so.scriptPubKey = CScript() << OP_HASH160 << ToByteVector(CScriptID(p2pk)) << OP_EQUAL; c.script_code = p2pk; break;
        case P2WPKH: so.scriptPubKey = CScript() << OP_0 << ToByteVector(pk.GetID()); c.script_code = p2pkh; break;
        case P2WSH: { uint256 h; CSHA256().Write(p2pk.data(), p2pk.size()).Finalize(h.begin()); so.scriptPubKey = CScript() << OP_0 << ToByteVector(h); c.script_code = p2pk; break; }
        case P2WSH_CS: {
            CScript ws = CScript() << pkb << OP_CODESEPARATOR << OP_CHECKSIG << OP_CODESEPARATOR;
            uint256 h; CSHA256().Write(ws.data(), ws.size()).Finalize(h.begin());
            so.scriptPubKey = CScript() << OP_0 << ToByteVector(h);
            c.script_code = CScript() << OP_CHECKSIG << OP_CODESEPARATOR; // BIP143: from the last executed separator, later ones kept
            break;
        }
        default: break;
        }
        uint256 digest = SignatureHash(c.script_code, c.tx, c.nIn, c.ht, so.nValue, cl == C_V0 ? SigVersion::WITNESS_V0 : SigVersion::BASE);
        Bytes sig;
        if (!key.Sign(digest, sig)) return false;
        c.sig = sig;
        Bytes sig_ht = with_ht(sig, c.ht, false);
        if (c.kind == P2PK_FD) so.scriptPubKey = CScript() << sig_ht << OP_DROP << pkb << OP_CHECKSIG;
        place_sig(c, sig_ht, key);
        return true;
    }
    // taproot
    c.pubkey = xob;
    const bool scriptpath = c.kind == TR_SCRIPT || c.kind == TR_SCRIPT_CS_ANNEX;
    const bool annex = c.kind == TR_KEY_ANNEX || c.kind == TR_SCRIPT_CS_ANNEX;
    c.annex = annex ? Bytes{0x50, 0x01, 0x02} : Bytes{};
    CScript leaf;
    Bytes control;
    if (!scriptpath) {
        so.scriptPubKey = CScript() << OP_1 << xob; // output key = the signing key itself (no script tree)
    } else {
        leaf = c.kind == TR_SCRIPT ? (CScript() << xob << OP_CHECKSIG) : (CScript() << xob << OP_CODESEPARATOR << OP_CHECKSIG);
        c.codesep_pos = c.kind == TR_SCRIPT ? 0xFFFFFFFFu : 1;
        c.script_code = leaf;
        XOnlyPubKey internal{g_keyB.GetPubKey()};
        TaprootBuilder b;
        b.Add(0, std::span<const unsigned char>(leaf.data(), leaf.size()), 0xc0);
        b.Finalize(internal);
        WitnessV1Taproot out = b.GetOutput();
        so.scriptPubKey = CScript() << OP_1 << Bytes(out.begin(), out.end());
        auto sd = b.GetSpendData();
        control = *sd.scripts.at({Bytes(leaf.begin(), leaf.end()), 0xc0}).begin();
    }
    PrecomputedTransactionData txdata;
    // the witness must be non-empty for Init(force=false) to prepare taproot data; use force=true for signing
    txdata.Init(c.tx, std::vector<CTxOut>(c.spent), /*force=*/true);
    ScriptExecutionData ex;
    ex.m_annex_init = true;
    ex.m_annex_present = annex;
    if (annex) ex.m_annex_hash = (HashWriter{} << c.annex).GetSHA256();
    if (scriptpath) {
        ex.m_tapleaf_hash_init = true;
        ex.m_tapleaf_hash = ComputeTapleafHash(0xc0, std::span<const unsigned char>(leaf.data(), leaf.size()));
        ex.m_codeseparator_pos_init = true;
        ex.m_codeseparator_pos = c.codesep_pos;
    }
    uint256 digest;
    if (!SignatureHashSchnorr(digest, ex, c.tx, c.nIn, (uint8_t)c.ht, scriptpath ? SigVersion::TAPSCRIPT : SigVersion::TAPROOT, txdata, MissingDataBehavior::FAIL)) return false;
    Bytes sig(64);
    uint256 aux{patbytes(32, 77)};
    if (!key.SignSchnorr(digest, sig, nullptr, aux)) return false;
    c.sig = sig;
    auto& st = in.scriptWitness.stack;
    st.push_back(with_ht(sig, c.ht, true));
    if (scriptpath) { st.emplace_back(leaf.begin(), leaf.end()); st.push_back(control); }
    if (annex) st.push_back(c.annex);
    return true;
}

enum MutT { M_VERSION, M_LOCKTIME, M_PREVOUT_HASH, M_PREVOUT_N, M_SEQUENCE, M_OUT_VALUE, M_OUT_SPK, M_ADD_OUTPUT, M_DEL_OUTPUT, M_ADD_INPUT, M_DEL_INPUT,
            M_SPENT_AMOUNT, M_SPENT_SPK_OTHER, M_SCRIPTSIG_OTHER, M_WITNESS_OTHER, M_ANNEX_CHANGE, M_ANNEX_ADD, M_ANNEX_DEL };
static const char* MNAME[] = {"version", "locktime", "prevout_hash", "prevout_n", "sequence", "out_value", "out_spk", "add_output", "del_output", "add_input", "del_input",
                              "spent_amount", "spent_spk_other", "scriptsig_other", "witness_other", "annex_change", "annex_add", "annex_del"};
struct Mut { MutT t; int idx; };

// The commitment table: does hash type `ht` of class `cl`, signing input nIn of an n_in x n_out transaction, commit to
// the thing changed by mutation m?  (legacy rules incl. the SIGHASH_SINGLE bug, BIP143, BIP341.)
static bool committed(Cls cl, int ht, int nIn, int n_in, int n_out, Mut m)
{
    const bool own = m.idx == nIn;
    if (cl == C_TAP) {
        const int out = ht == 0 ? 1 : (ht & 3);
        const bool acp = ht & 0x80;
        switch (m.t) {
        case M_VERSION: case M_LOCKTIME: return true;
        case M_PREVOUT_HASH: case M_PREVOUT_N: case M_SEQUENCE: case M_SPENT_AMOUNT: return own || !acp;
        case M_SPENT_SPK_OTHER: return !acp;
        case M_OUT_VALUE: case M_OUT_SPK: return out == 1 || (out == 3 && m.idx == nIn);
        case M_ADD_OUTPUT: return out == 1;
        case M_DEL_OUTPUT: return out == 1 || (out == 3 && n_out - 1 == nIn);
        case M_ADD_INPUT: case M_DEL_INPUT: return !acp;
        case M_SCRIPTSIG_OTHER: case M_WITNESS_OTHER: return false;
        case M_ANNEX_CHANGE: case M_ANNEX_ADD: case M_ANNEX_DEL: return true;
        }
        return true;
    }
    const int base = ht & 0x1f;
    const bool acp = ht & 0x80, none = base == 2, single = base == 3;
    if (cl == C_BASE && single && nIn >= n_out) return m.t == M_ADD_OUTPUT && n_out == nIn; // digest is the constant 1
    switch (m.t) {
    case M_VERSION: case M_LOCKTIME: return true;
    case M_PREVOUT_HASH: case M_PREVOUT_N: return own || !acp;
    case M_SEQUENCE: return own || (!acp && !none && !single);
    case M_OUT_VALUE: case M_OUT_SPK: return none ? false : single ? m.idx == nIn : true;
    case M_ADD_OUTPUT: return none ? false : single ? n_out == nIn : true;
    case M_DEL_OUTPUT: return none ? false : single ? n_out - 1 == nIn : true;
    case M_ADD_INPUT: case M_DEL_INPUT: return !acp;
    case M_SPENT_AMOUNT: return cl == C_V0 && own;
    case M_SPENT_SPK_OTHER: case M_SCRIPTSIG_OTHER: case M_WITNESS_OTHER: return false;
    default: return true;
    }
}

static bool apply(Case& c, Mut m)
{
    auto& tx = c.tx;
    const int n_in = tx.vin.size(), n_out = tx.vout.size();
    switch (m.t) {
    case M_VERSION: tx.version ^= 1; return true;
    case M_LOCKTIME: tx.nLockTime ^= 0x100; return true;
    case M_PREVOUT_HASH: { uint256 h = tx.vin[m.idx].prevout.hash.ToUint256(); h.begin()[31] ^= 0x80; tx.vin[m.idx].prevout.hash = Txid::FromUint256(h); return true; }
    case M_PREVOUT_N: tx.vin[m.idx].prevout.n ^= 1; return true;
    case M_SEQUENCE: tx.vin[m.idx].nSequence ^= 0x00010000; return true;
    case M_OUT_VALUE: tx.vout[m.idx].nValue ^= 0x100; return true;
    case M_OUT_SPK: tx.vout[m.idx].scriptPubKey << OP_NOP; return true;
    case M_ADD_OUTPUT: tx.vout.emplace_back(777, CScript() << OP_2); return true;
    case M_DEL_OUTPUT: if (!n_out) return false; tx.vout.pop_back(); return true;
    case M_ADD_INPUT: { CTxIn in; in.prevout.hash = Txid::FromUint256(uint256{patbytes(32, 200)}); in.prevout.n = 9; in.nSequence = 7; tx.vin.push_back(in); c.spent.emplace_back(4242, generic_spk(0)); return true; }
    case M_DEL_INPUT: if (n_in < 2 || (int)c.nIn == n_in - 1) return false; tx.vin.pop_back(); c.spent.pop_back(); return true;
    case M_SPENT_AMOUNT: c.spent[m.idx].nValue ^= 0x10; return true;
    case M_SPENT_SPK_OTHER: if (m.idx == (int)c.nIn) return false; c.spent[m.idx].scriptPubKey << OP_NOP; return true;
    case M_SCRIPTSIG_OTHER: if (m.idx == (int)c.nIn) return false; tx.vin[m.idx].scriptSig << OP_1; return true;
    case M_WITNESS_OTHER: if (m.idx == (int)c.nIn) return false; tx.vin[m.idx].scriptWitness.stack.push_back(Bytes{1, 2, 3}); return true;
    case M_ANNEX_CHANGE: if (c.annex.empty()) return false; tx.vin[c.nIn].scriptWitness.stack.back().back() ^= 1; return true;
    case M_ANNEX_ADD: if (cls_of(c.kind) != C_TAP || !c.annex.empty()) return false; tx.vin[c.nIn].scriptWitness.stack.push_back(Bytes{0x50}); return true;
    case M_ANNEX_DEL: if (c.annex.empty()) return false; tx.vin[c.nIn].scriptWitness.stack.pop_back(); return true;
    }
    return false;
}

// secp256k1 group order, big endian
static const unsigned char ORDER_N[32] = {0xFF, 0xFF, 0xFF, 0xFF, 0xFF, 0xFF, 0xFF, 0xFF, 0xFF, 0xFF, 0xFF, 0xFF, 0xFF, 0xFF, 0xFF, 0xFE,
                                          0xBA, 0xAE, 0xDC, 0xE6, 0xAF, 0x48, 0xA0, 0x3B, 0xBF, 0xD2, 0x5E, 0x8C, 0xD0, 0x36, 0x41, 0x41};
// strict-DER (r,s) -> DER of (r, n-s)
static bool high_s_twin(const Bytes& der, Bytes& out)
{
    if (der.size() < 8 || der[0] != 0x30 || der[2] != 0x02) return false;
    size_t rl = der[3];
    if (4 + rl + 2 > der.size() || der[4 + rl] != 0x02) return false;
    size_t sl = der[5 + rl];
    if (6 + rl + sl != der.size()) return false;
    Bytes r(der.begin() + 4, der.begin() + 4 + rl), s(der.begin() + 6 + rl, der.end());
    unsigned char s32[32] = {0}, t[32];
    while (s.size() > 32) { if (s[0]) return false; s.erase(s.begin()); }
    memcpy(s32 + 32 - s.size(), s.data(), s.size());
    int borrow = 0;
    for (int i = 31; i >= 0; i--) { int d = (int)ORDER_N[i] - s32[i] - borrow; borrow = d < 0; t[i] = (unsigned char)(d & 0xff); }
    Bytes ns(t, t + 32);
    while (ns.size() > 1 && ns[0] == 0 && !(ns[1] & 0x80)) ns.erase(ns.begin());
    if (ns[0] & 0x80) ns.insert(ns.begin(), 0);
    out = {0x30, (unsigned char)(4 + r.size() + ns.size()), 0x02, (unsigned char)r.size()};
    out.insert(out.end(), r.begin(), r.end());
    out.push_back(0x02);
    out.push_back((unsigned char)ns.size());
    out.insert(out.end(), ns.begin(), ns.end());
    return true;
}

static void replace_sig(Case& c, const Bytes& sig_ht, const CKey& key)
{
    if (cls_of(c.kind) == C_TAP) c.tx.vin[c.nIn].scriptWitness.stack[0] = sig_ht;
    else if (c.kind == P2PK_FD) c.tx.vin[c.nIn].scriptSig = CScript() << sig_ht; // (the copy inside the spk stays)
    else place_sig(c, sig_ht, key);
}

static void soundness_layer(bool big)
{
    std::vector<int> ht_legacy = {0x01, 0x02, 0x03, 0x81, 0x82, 0x83, 0x00, 0x04, 0x1f, 0x41, 0x22, 0x63, 0xe3, 0xff, 0x80};
    const std::set<int> ht_sigtamper(ht_legacy.begin(), ht_legacy.end()); // signature-level tampering: these hash types in both tiers
    if (big) { ht_legacy.clear(); for (int i = 0; i < 256; i++) ht_legacy.push_back(i); }
    const std::vector<int> ht_tap = {0, 1, 2, 3, 0x81, 0x82, 0x83};
    const std::vector<int> ht_tap_invalid = {4, 0x80, 0x84, 0x40, 0x7f, 0xff, 0x10, 0x21};
    struct Item { int variant, n_in, n_out, nin, kind; };
    std::vector<Item> items;
    const int NV = big ? 2 : 1;
    for (int v = 0; v < NV; v++) for (int a = 1; a <= 3; a++) for (int b = 0; b <= 3; b++) for (int i = 0; i < a; i++) for (int k = 0; k < NKINDS; k++) items.push_back({v, a, b, i, k});
    std::atomic<uint64_t> n_base{0}, n_mut_commit{0}, n_mut_free{0}, n_sigbits{0}, n_htbytes{0}, n_misc{0}, n_unsignable{0};
    vx::Distinct verdict_classes;
    vx::par_for(items.size(), 1, [&](uint64_t lo, uint64_t hi, unsigned) {
        for (uint64_t it = lo; it < hi; it++) {
            if (out_of_time()) continue;
            auto [variant, n_in, n_out, nin, kindi] = items[it];
            const Kind kind = (Kind)kindi;
            const Cls cl = cls_of(kind);
            const bool tap = cl == C_TAP;
            for (int ht : (tap ? ht_tap : ht_legacy)) {
                Case c;
                c.tx = make_tx(n_in, n_out, variant);
                c.spent = make_spent(n_in, variant);
                c.nIn = nin;
                c.kind = kind;
                c.ht = ht;
                std::string where = std::string(KNAME[kind]) + " variant " + u(variant) + " shape " + u(n_in) + "x" + u(n_out) + " nIn " + u(nin) + " hashtype " + u(ht);
                std::string kbase = std::string(KNAME[kind]) + "-ht" + u(ht);
                tl_kind = kind;
                tl_where = &where;
                if (!build(c, g_keyA)) {
                    n_unsignable++;
                    if (!(tap && (ht & 3) == 3 && nin >= n_out)) S.viol("cannot-sign-" + kbase, "no digest/signature for a signable case: " + where);
                    continue;
                }
                ScriptError err;
                if (!verify(c.tx, c.spent, c.nIn, FLAGS, &err)) {
                    S.viol("valid-rejected-" + kbase + "-nin" + u(nin) + "of" + u(n_in) + "-nout" + u(n_out), "correctly signed input rejected (" + std::string(ScriptErrorString(err)) + "): " + where);
                    continue;
                }
                n_base++;
                if (tap || ht_sigtamper.count(ht)) // reference verification of the accepted signature (all hash types are covered by the SH lines)
                    S.line(J({"E", KNAME[kind], ser_tx(c.tx), ser_spent(c.spent), u(c.nIn), u(ht), hx(c.script_code), hx(c.pubkey), hx(c.sig), hx(c.annex), u(c.codesep_pos)}));
                // ---- every single mutation vs the commitment table
                std::vector<Mut> muts = {{M_VERSION, -1}, {M_LOCKTIME, -1}, {M_ADD_OUTPUT, -1}, {M_DEL_OUTPUT, -1}, {M_ADD_INPUT, -1}, {M_DEL_INPUT, -1}, {M_ANNEX_CHANGE, -1}, {M_ANNEX_ADD, -1}, {M_ANNEX_DEL, -1}};
                for (int i = 0; i < n_in; i++) for (MutT t : {M_PREVOUT_HASH, M_PREVOUT_N, M_SEQUENCE, M_SPENT_AMOUNT, M_SPENT_SPK_OTHER, M_SCRIPTSIG_OTHER, M_WITNESS_OTHER}) muts.push_back({t, i});
                for (int j = 0; j < n_out; j++) for (MutT t : {M_OUT_VALUE, M_OUT_SPK}) muts.push_back({t, j});
                for (Mut m : muts) {
                    Case d = c;
                    if (!apply(d, m)) continue;
                    bool want_fail = committed(cl, ht, nin, n_in, n_out, m);
                    bool ok = verify(d.tx, d.spent, d.nIn);
                    (want_fail ? n_mut_commit : n_mut_free)++;
                    verdict_classes.add(std::string(KNAME[kind]) + "/" + u(ht) + "/" + MNAME[m.t] + (m.idx == nin ? "/own" : "/other") + (ok ? "/ok" : "/fail"));
                    if (ok == want_fail) {
                        S.viol(std::string(want_fail ? "committed-field-not-checked-" : "uncommitted-field-rejected-") + MNAME[m.t] + (m.idx < 0 ? "" : m.idx == nin ? "-own" : "-other") + "-" + kbase,
                               std::string(want_fail ? "signature still accepted after changing a field the hash type commits to: " : "signature rejected after changing a field the hash type does not commit to: ") + MNAME[m.t] + "[" + u(m.idx) + "] " + where);
                    }
                }
                // ---- signature-level tampering (largely shape-independent: 2x2, 1x1, and 2x1/nIn=1 which has no matching output)
                if (!((n_in == 2 && n_out == 2) || (n_in == 1 && n_out == 1) || (n_in == 2 && n_out == 1 && nin == 1) || (big && n_in == 3 && n_out == 0))) continue;
                if (!tap && !ht_sigtamper.count(ht)) continue;
                const Bytes good = with_ht(c.sig, ht, tap);
                for (size_t bit = 0; bit < c.sig.size() * 8; bit++) {
                    Case d = c;
                    Bytes s2 = c.sig;
                    s2[bit / 8] ^= 1 << (bit % 8);
                    replace_sig(d, with_ht(s2, ht, tap), g_keyA);
                    n_sigbits++;
                    if (verify(d.tx, d.spent, d.nIn)) S.viol("accepts-bitflipped-signature-" + kbase, "signature with bit " + u(bit) + " flipped accepted: " + where);
                }
                for (int h2 = 0; h2 < 256; h2++) {
                    if (h2 == ht) continue;
                    Case d = c;
                    Bytes s2 = c.sig;
                    s2.push_back((unsigned char)h2); // note: for taproot h2==0 gives an explicit 0x00 byte, which is invalid
                    replace_sig(d, s2, g_keyA);
                    n_htbytes++;
                    // legacy SIGHASH_SINGLE without a matching output signs the constant 1 for every SINGLE-class byte
                    const bool same_digest = cl == C_BASE && nin >= n_out && (ht & 0x1f) == 3 && (h2 & 0x1f) == 3;
                    const bool acc = verify(d.tx, d.spent, d.nIn);
                    if (acc && !same_digest) S.viol("accepts-other-hashtype-byte-" + kbase, "signature made for hash type " + u(ht) + " accepted with hash-type byte " + u(h2) + ": " + where);
                    if (!acc && same_digest) S.viol("single-bug-digest-depends-on-hashtype-" + kbase, "legacy SIGHASH_SINGLE out-of-range digest must be 1 for byte " + u(h2) + " too: " + where);
                }
                if (tap && ht == 0) { // an explicit 0x00 hash-type byte is invalid even though the digest would be the same
                    Case d = c; Bytes s2 = c.sig; s2.push_back(0); replace_sig(d, s2, g_keyA); n_misc++;
                    if (verify(d.tx, d.spent, d.nIn)) S.viol("accepts-explicit-default-hashtype-byte-" + kbase, where);
                }
                if (tap && ht != 0) { // dropping the hash-type byte turns it into SIGHASH_DEFAULT
                    Case d = c; replace_sig(d, c.sig, g_keyA); n_misc++;
                    if (verify(d.tx, d.spent, d.nIn)) S.viol("accepts-dropped-hashtype-" + kbase, where);
                }
                {   // wrong key: same construction signed by key B, spliced into A's spend
                    Case d = c, e = c;
                    e.tx = make_tx(n_in, n_out, variant); e.spent = make_spent(n_in, variant);
                    if (build(e, g_keyB)) {
                        replace_sig(d, with_ht(e.sig, ht, tap), g_keyA);
                        n_misc++;
                        if (verify(d.tx, d.spent, d.nIn)) S.viol("accepts-wrong-key-" + kbase, "signature by another key accepted: " + where);
                    }
                    Case z = c; replace_sig(z, Bytes{}, g_keyA); n_misc++;
                    if (verify(z.tx, z.spent, z.nIn)) S.viol("accepts-empty-signature-" + kbase, where);
                }
                if (!tap && kind != P2PK_FD) { // high-S twin: consensus accepts, LOW_S policy rejects; original passes both
                    Bytes twin;
                    if (!high_s_twin(c.sig, twin)) { S.viol("harness-der-parse", "cannot parse own DER signature"); continue; }
                    Case d = c; replace_sig(d, with_ht(twin, ht, false), g_keyA);
                    bool a = verify(d.tx, d.spent, d.nIn, FLAGS), b = verify(d.tx, d.spent, d.nIn, FLAGS | SCRIPT_VERIFY_LOW_S), o = verify(c.tx, c.spent, c.nIn, FLAGS | SCRIPT_VERIFY_LOW_S);
                    n_misc += 3;
                    if (!a) S.viol("rejects-high-s-" + kbase, "high-S twin rejected without LOW_S: " + where);
                    if (b) S.viol("accepts-high-s-under-low_s-" + kbase, "high-S twin accepted with LOW_S: " + where);
                    if (!o) S.viol("rejects-low-s-under-low_s-" + kbase, "CKey::Sign output rejected with LOW_S: " + where);
                }
            }
            static const std::string undefined_where = "undefined taproot hash type";
            tl_where = &undefined_where;
            if (tap && n_in == 2 && n_out == 2) { // undefined taproot hash types are always invalid
                for (int ht : ht_tap_invalid) {
                    Case c;
                    c.tx = make_tx(n_in, n_out, variant); c.spent = make_spent(n_in, variant); c.nIn = nin; c.kind = kind; c.ht = 1;
                    if (!build(c, g_keyA)) continue;
                    Bytes s2 = c.sig; s2.push_back((unsigned char)ht);
                    replace_sig(c, s2, g_keyA);
                    n_misc++;
                    if (verify(c.tx, c.spent, c.nIn)) S.viol("accepts-undefined-taproot-hashtype-" + u(ht), KNAME[kind]);
                    Case e = c; e.ht = ht;
                    e.tx.vin[nin].scriptWitness.stack.clear();
                    if (build(e, g_keyA)) S.viol("digest-for-undefined-taproot-hashtype-" + u(ht), "SignatureHashSchnorr produced a digest");
                }
            }
        }
    });
    S.stat("accepted_baselines", n_base);
    S.stat("mutations_committed", n_mut_commit);
    S.stat("mutations_uncommitted", n_mut_free);
    S.stat("signature_bit_flips", n_sigbits);
    S.stat("other_hashtype_bytes", n_htbytes);
    S.stat("misc_signature_checks", n_misc);
    S.stat("unsignable_taproot_single", n_unsignable);
    S.stat("distinct_verdict_classes", verdict_classes.size());
    S.stat("caching_checker_evaluations", g_cached_evals);
    S.stat("caching_checker_accepts", g_cached_accepts);
    S.stat("caching_checker_rejects", g_cached_rejects);
    S.flush();
}

int main(int argc, char** argv)
{
    vx::init(argc, argv, "C10", "exploration");
    const bool big = vx::thorough();
    ECC_Context ecc;
    Bytes ka = patbytes(32, 101), kb = patbytes(32, 102);
    g_keyA.Set(ka.begin(), ka.end(), true);
    g_keyB.Set(kb.begin(), kb.end(), true);
    if (!g_keyA.IsValid() || !g_keyB.IsValid()) { printf("M\tbad keys\n"); return 2; }
    for (int k = 0; k < NKINDS; k++) g_sigcache[k] = std::make_unique<SignatureCache>(size_t{2} << 20);
    digest_layer(big);
    soundness_layer(big);
    tl_kind = -1;
    for (auto& c : g_sigcache) c.reset();
    if (g_incomplete) printf("M\tINCOMPLETE\n");
    S.finish();
    g_keyA = CKey{}; // release secure memory before static destruction
    g_keyB = CKey{};
    return 0;
}
