LINK := full
