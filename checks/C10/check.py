#!/usr/bin/env python3
"""C10 consumer: recomputes every digest printed by the C++ producer with the vendored test_framework/script.py
(LegacySignatureHash, SegwitV0SignatureHash, TaprootSignatureHash) and verifies every signature that VerifyScript
accepted with the pure-Python ECDSA / BIP340 verifiers of test_framework/key.py against the *reference* digest."""
import sys, os, subprocess, multiprocessing
from io import BytesIO
sys.path.insert(0, '/verif')
from vx.vxpy import Run, ROOT
from test_framework.messages import CTransaction, CTxOut, deser_vector
from test_framework.script import (CScript, FindAndDelete, LegacySignatureHash, SegwitV0SignatureHash, TaprootSignatureHash)
from test_framework.key import ECPubKey, verify_schnorr
import test_framework.script as _ref_script
# TaprootSignatureMsg ends with a length self-check that assumes a 34-byte scriptPubKey for the spent output; the
# message construction itself is general. Our enumeration also uses other spent scripts, so disable only that assert.
_ref_script.assert_equal = lambda *a, **k: None

HT = list(range(256)) + [0x100, 0x101, 0x1ff, 0x7fffffff, -1, -0x80000000, 0x10003, 0xffffff02 - (1 << 32), 0x8002, 0xfffffe83 - (1 << 32)]
TAP_VALID = {0, 1, 2, 3, 0x81, 0x82, 0x83}


def unhex(s):
    return b'' if s == '-' else bytes.fromhex(s)


def parse_tx(h):
    tx = CTransaction()
    tx.deserialize(BytesIO(bytes.fromhex(h)))
    return tx


def parse_spent(h):
    return deser_vector(BytesIO(bytes.fromhex(h)), CTxOut)


def tap_digest(tx, spent, ht, nin, scriptpath, leaf, cpos, annex):
    """Reference BIP341 digest or None where the BIP says the signature is invalid."""
    if ht not in TAP_VALID: return None
    if len(tx.vin) != len(spent) or nin >= len(tx.vin): raise ValueError('bad TR case')
    if (ht & 3) == 3 and nin >= len(tx.vout): return None
    kw = dict(input_index=nin, scriptpath=bool(scriptpath), annex=annex)
    if scriptpath: kw.update(leaf_script=CScript(leaf), codeseparator_pos=cpos)
    return TaprootSignatureHash(tx, spent, ht, **kw)


def verify(line):
    f = line.split('\t')
    k = f[0]
    try:
        if k == 'SH':
            sv, tx, nin, amount, script, n, out = int(f[1]), parse_tx(f[2]), int(f[3]), int(f[4]), CScript(unhex(f[5])), int(f[6]), bytes.fromhex(f[7])
            if n != len(HT) or len(out) != 32 * n: return ('HARNESS', 'hash type list mismatch')
            for i, ht in enumerate(HT):
                uht = ht & 0xffffffff
                if sv == 0:
                    want, _ = LegacySignatureHash(script, tx, nin, uht)
                else:
                    want = SegwitV0SignatureHash(script, tx, nin, uht, amount)
                got = out[32 * i:32 * i + 32]
                if got != want:
                    name = 'legacy' if sv == 0 else 'bip143'
                    return (f'{name}-digest-ht{uht & 0xff:#04x}-base{uht & 0x1f}', f'{name} SignatureHash differs from script.py: hashtype {ht} nIn {nin} of {len(tx.vin)}x{len(tx.vout)} scriptCode {f[5]} amount {amount} tx {f[2]}: got {got.hex()} want {want.hex()}')
            return None
        if k == 'TR':
            tx, spent, nin, scriptpath, annex, leaf, cpos, res = parse_tx(f[1]), parse_spent(f[2]), int(f[3]), int(f[4]), unhex(f[5]), unhex(f[6]), int(f[7]), f[8].split(',')[:-1]
            annex = annex if annex else None
            if len(res) != 256: return ('HARNESS', 'TR line does not have 256 results')
            for ht in range(256):
                want = tap_digest(tx, spent, ht, nin, scriptpath, leaf, cpos, annex)
                got = None if res[ht] == 'x' else bytes.fromhex(res[ht])
                if got != want:
                    return (f'bip341-digest-ht{ht:#04x}-{"script" if scriptpath else "key"}{"-annex" if annex else ""}',
                            f'SignatureHashSchnorr differs from script.py: hashtype {ht} nIn {nin} of {len(tx.vin)}x{len(tx.vout)} scriptpath {scriptpath} annex {f[5]} codesep {cpos} tx {f[1]}: got {got.hex() if got else got} want {want.hex() if want else want}')
            return None
        if k == 'E':
            kind, tx, spent, nin, ht = f[1], parse_tx(f[2]), parse_spent(f[3]), int(f[4]), int(f[5])
            script, pubkey, sig, annex, cpos = unhex(f[6]), unhex(f[7]), unhex(f[8]), unhex(f[9]), int(f[10])
            if kind.startswith('tr_'):
                sp = kind.startswith('tr_script')
                d = tap_digest(tx, spent, ht, nin, sp, script, cpos, annex if annex else None)
                ok = d is not None and verify_schnorr(pubkey, sig, d)
            else:
                if kind == 'p2pk_findanddelete':
                    spk = CScript(spent[nin].scriptPubKey)
                    if bytes(FindAndDelete(spk, CScript([sig + bytes([ht])]))) != script:
                        return ('HARNESS', 'FindAndDelete reference disagrees with the harness about the script code')
                if kind in ('p2wpkh', 'p2wsh', 'p2wsh_codesep'):
                    d = SegwitV0SignatureHash(CScript(script), tx, nin, ht, spent[nin].nValue)
                else:
                    d, _ = LegacySignatureHash(CScript(script), tx, nin, ht)
                pk = ECPubKey(); pk.set(pubkey)
                ok = pk.is_valid and pk.verify_ecdsa(sig, d, low_s=True)
            if not ok:
                return (f'accepted-signature-invalid-for-reference-digest-{kind}-ht{ht}', f'VerifyScript accepted a signature that the reference verifier rejects for the reference digest: {kind} hashtype {ht} nIn {nin} tx {f[2]}')
            return None
        return ('HARNESS', 'unknown line kind ' + k)
    except Exception as e:
        return ('HARNESS', f'{type(e).__name__}: {e} in line {line[:160]}')


def verify_batch(lines):
    return [r for r in (verify(l) for l in lines) if r is not None]


def main():
    run = Run('C10', 'exploration')
    ncpu = int(os.environ.get('VERIF_JOBS', '0') or 0) or os.cpu_count() or 4
    p = subprocess.run([run.harness, '--tier', run.tier], stdout=subprocess.PIPE, text=True, env=dict(os.environ, VERIF_DEADLINE_S=str(0.6 * run.deadline)))
    cases, stats, end, incomplete = [], {}, None, False
    for line in p.stdout.splitlines():
        if not line: continue
        tag = line.split('\t', 1)[0]
        if tag == 'V':
            _, key, what = line.split('\t', 2)
            run.violation(key, what, what)
        elif tag == 'S':
            _, name, n = line.split('\t'); stats[name] = int(n)
        elif tag == 'M':
            if 'INCOMPLETE' in line: incomplete = True
            else: print('HARNESS-ERROR property=C10', line); return 2
        elif tag == 'END': end = int(line.split('\t')[1])
        else: cases.append(line)
    if p.returncode != 0 or end != len(cases):
        print(f'HARNESS-ERROR property=C10 producer rc={p.returncode} END={end} received={len(cases)}')
        return 2
    # SH/TR lines are ~40x heavier than E lines: small batches, heavy first
    cases.sort(key=lambda l: (0 if l[0] in 'ST' else 1, l))
    heavy = [c for c in cases if c[0] in 'ST']
    light = [c for c in cases if c[0] not in 'ST']
    batches = [heavy[i:i + 2] for i in range(0, len(heavy), 2)] + [light[i:i + 40] for i in range(0, len(light), 40)]
    done_batches = 0
    with multiprocessing.Pool(ncpu) as pool:
        for res in pool.imap_unordered(verify_batch, batches, chunksize=2):
            done_batches += 1
            if run.deadline_reached():  # never a violation: report what was completed
                incomplete = True
                pool.terminate()
                break
            for key, what in res:
                if key == 'HARNESS':
                    print('HARNESS-ERROR property=C10', what); return 2
                run.violation(key, what, what)
    n_sh = sum(1 for c in cases if c.startswith('SH\t'))
    n_tr = sum(1 for c in cases if c.startswith('TR\t'))
    n_e = sum(1 for c in cases if c.startswith('E\t'))
    ref_digests = n_sh * len(HT) + n_tr * 256
    run.evaluations = ref_digests + n_e + sum(stats.get(k, 0) for k in ('cached_digest_comparisons', 'mutations_committed', 'mutations_uncommitted', 'signature_bit_flips', 'other_hashtype_bytes', 'misc_signature_checks', 'caching_checker_evaluations'))
    run.extra['reference_batches_completed'] = f'{done_batches}/{len(batches)}'
    run.extra['reference_digests'] = ref_digests
    run.extra['reference_verified_signatures'] = n_e
    run.extra['cpp_side'] = stats
    kinds = sorted({c.split('\t')[1] for c in cases if c.startswith('E\t')})
    run.extra['spend_kinds'] = kinds
    # distinct non-trivial = distinct (kind, hashtype, mutation, own/other, verdict) classes seen + distinct digest lines
    run.distinct = stats.get('distinct_verdict_classes', 0) + n_sh + n_tr
    problems = []
    if len(kinds) != 12: problems.append(f'only {len(kinds)} spend kinds accepted')
    for s in ('caching_checker_accepts', 'caching_checker_rejects', 'mutations_committed', 'mutations_uncommitted', 'signature_bit_flips', 'other_hashtype_bytes', 'accepted_baselines', 'cached_digest_comparisons', 'unsignable_taproot_single'):
        if stats.get(s, 0) == 0: problems.append('stat ' + s + ' is 0')
    if not n_sh or not n_tr or not n_e: problems.append('missing line kinds')
    if problems and not run.violations and not incomplete:
        print('HARNESS-ERROR property=C10 vacuous:', problems); return 2
    for c in (cases[0], cases[len(cases) // 2], cases[-1]):
        run.sample(c[:240])
    run.assumptions.append('transaction contents come from a fixed table of edge values (versions, lock times, sequences, amounts incl. 0/-1/MAX_MONEY, scripts incl. empty and >252 bytes); arbitrary contents are not enumerated')
    run.assumptions.append('script codes for the digest layer are well-formed scripts (script.py FindAndDelete cannot parse truncated pushes)')
    rule = ('shapes 1..3 inputs x 0..3 outputs x every input index x content variants; digest layer: every hash-type byte 0..255 + 10 wide int32 values x script codes '
            '(with/without OP_CODESEPARATOR, 0xab in push data, >252 bytes) for legacy and BIP143, every byte x key/script path x annex x codeseparator position for BIP341, all compared with script.py; '
            'soundness layer: 12 spend kinds (p2pk, p2pkh, codeseparator, FindAndDelete, p2sh, p2wpkh, p2wsh, p2wsh+codeseparator, taproot key/script path with/without annex) x hash types, '
            'real signature must verify (C++ and Python verifier on the reference digest), every single field mutation must flip the verdict iff the commitment table says so, every signature bit flip / '
            'other hash-type byte / wrong key / empty signature rejected, high-S accepted iff LOW_S unset; every one of these evaluations is repeated through CachingTransactionSignatureChecker (store=true twice, store=false once, one SignatureCache per spend kind) and must give the verdict of the plain checker each time. distinct = digest lines + distinct (kind,hashtype,mutation,own/other,verdict) classes')
    return run.finish(rule=rule, exhaustive=not incomplete)


if __name__ == '__main__':
    sys.exit(main())
