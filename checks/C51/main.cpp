// C51 — Probabilistic filters never produce false negatives (GCS/BIP158, CBloomFilter/BIP37,
// CRollingBloomFilter, CPartialMerkleTree).  VX-ENUM, exhaustive over stated bounded spaces.
//
// References (independent, boring):
//   * SipHash-2-4, MurmurHash3_x86_32: transcribed from their specifications
//   * BIP158 encoder: bit-by-bit into a vector<bool>, __int128 range reduction
//   * BIP37 bloom: plain bit vector; IsRelevantAndUpdate: rule list from the BIP on scripts whose pushes we know
//   * merkle root: plain loop over CSHA256
#include <vx/vx.h>

#include <blockfilter.h>
#include <common/bloom.h>
#include <crypto/sha256.h>
#include <merkleblock.h>
#include <primitives/block.h>
#include <primitives/transaction.h>
#include <script/script.h>
#include <streams.h>
#include <uint256.h>
#include <undo.h>

#include <cmath>

using Bytes = std::vector<unsigned char>;

// ------------------------------------------------------------------------------------------------ references
static inline uint64_t rotl64(uint64_t x, int b) { return (x << b) | (x >> (64 - b)); }
static uint64_t ref_siphash(uint64_t k0, uint64_t k1, const Bytes& m)
{
    uint64_t v0 = 0x736f6d6570736575ULL ^ k0, v1 = 0x646f72616e646f6dULL ^ k1, v2 = 0x6c7967656e657261ULL ^ k0, v3 = 0x7465646279746573ULL ^ k1;
    auto round = [&] {
        v0 += v1; v1 = rotl64(v1, 13); v1 ^= v0; v0 = rotl64(v0, 32);
        v2 += v3; v3 = rotl64(v3, 16); v3 ^= v2;
        v0 += v3; v3 = rotl64(v3, 21); v3 ^= v0;
        v2 += v1; v1 = rotl64(v1, 17); v1 ^= v2; v2 = rotl64(v2, 32);
    };
    size_t n = m.size(), i = 0;
    for (; i + 8 <= n; i += 8) {
        uint64_t w = 0;
        for (int j = 0; j < 8; j++) w |= (uint64_t)m[i + j] << (8 * j);
        v3 ^= w; round(); round(); v0 ^= w;
    }
    uint64_t b = (uint64_t)(n & 0xff) << 56;
    for (int j = 0; i + j < n; j++) b |= (uint64_t)m[i + j] << (8 * j);
    v3 ^= b; round(); round(); v0 ^= b;
    v2 ^= 0xff; round(); round(); round(); round();
    return v0 ^ v1 ^ v2 ^ v3;
}
static inline uint64_t ref_range(uint64_t h, uint64_t F) { return (uint64_t)(((unsigned __int128)h * F) >> 64); }

struct RefGCS {
    Bytes encoded;
    std::vector<uint64_t> hashes; // sorted, with duplicates
    bool saw_zero_delta = false, saw_long_unary = false;
};
static RefGCS ref_gcs(uint64_t k0, uint64_t k1, int P, uint64_t M, const std::vector<Bytes>& elems /* distinct */)
{
    RefGCS r;
    uint64_t N = elems.size(), F = N * M;
    for (auto& e : elems) r.hashes.push_back(ref_range(ref_siphash(k0, k1, e), F));
    std::sort(r.hashes.begin(), r.hashes.end());
    // CompactSize(N)
    if (N < 253) r.encoded.push_back((unsigned char)N);
    else { r.encoded.push_back(253); r.encoded.push_back(N & 0xff); r.encoded.push_back((N >> 8) & 0xff); }
    std::vector<bool> bits;
    uint64_t last = 0;
    for (uint64_t v : r.hashes) {
        uint64_t d = v - last;
        last = v;
        if (d == 0) r.saw_zero_delta = true;
        uint64_t q = P >= 64 ? 0 : d >> P;
        if (q > 64) r.saw_long_unary = true;
        for (uint64_t i = 0; i < q; i++) bits.push_back(true);
        bits.push_back(false);
        for (int i = P - 1; i >= 0; i--) bits.push_back((d >> i) & 1);
    }
    for (size_t i = 0; i < bits.size(); i += 8) {
        unsigned char c = 0;
        for (size_t j = 0; j < 8 && i + j < bits.size(); j++) if (bits[i + j]) c |= 0x80 >> j;
        r.encoded.push_back(c);
    }
    return r;
}
static bool ref_gcs_match(const RefGCS& r, uint64_t k0, uint64_t k1, uint64_t M, uint64_t N, const Bytes& e)
{
    uint64_t h = ref_range(ref_siphash(k0, k1, e), N * M);
    return std::binary_search(r.hashes.begin(), r.hashes.end(), h);
}

static inline uint32_t rotl32(uint32_t x, int b) { return (x << b) | (x >> (32 - b)); }
static uint32_t ref_murmur3(uint32_t seed, const Bytes& d)
{
    uint32_t h = seed;
    const uint32_t c1 = 0xcc9e2d51, c2 = 0x1b873593;
    size_t nb = d.size() / 4;
    for (size_t i = 0; i < nb; i++) {
        uint32_t k = d[4 * i] | d[4 * i + 1] << 8 | d[4 * i + 2] << 16 | (uint32_t)d[4 * i + 3] << 24;
        k *= c1; k = rotl32(k, 15); k *= c2;
        h ^= k; h = rotl32(h, 13); h = h * 5 + 0xe6546b64;
    }
    uint32_t k = 0;
    size_t t = nb * 4;
    switch (d.size() & 3) {
    case 3: k ^= d[t + 2] << 16; [[fallthrough]];
    case 2: k ^= d[t + 1] << 8; [[fallthrough]];
    case 1: k ^= d[t]; k *= c1; k = rotl32(k, 15); k *= c2; h ^= k;
    }
    h ^= (uint32_t)d.size();
    h ^= h >> 16; h *= 0x85ebca6b; h ^= h >> 13; h *= 0xc2b2ae35; h ^= h >> 16;
    return h;
}
// BIP37 filter as a bit vector
struct RefBloom {
    Bytes data;
    uint32_t nfuncs = 0, tweak = 0;
    void insert(const Bytes& k)
    {
        if (data.empty()) return;
        for (uint32_t i = 0; i < nfuncs; i++) {
            uint32_t idx = ref_murmur3(i * 0xFBA4C795u + tweak, k) % (uint32_t)(data.size() * 8);
            data[idx / 8] |= 1 << (idx % 8);
        }
    }
    bool contains(const Bytes& k) const
    {
        if (data.empty()) return true;
        for (uint32_t i = 0; i < nfuncs; i++) {
            uint32_t idx = ref_murmur3(i * 0xFBA4C795u + tweak, k) % (uint32_t)(data.size() * 8);
            if (!(data[idx / 8] >> (idx % 8) & 1)) return false;
        }
        return true;
    }
};

static uint256 ref_sha256d(const unsigned char* p, size_t n)
{
    uint256 a, b;
    CSHA256().Write(p, n).Finalize(a.begin());
    CSHA256().Write(a.begin(), 32).Finalize(b.begin());
    return b;
}
static uint256 ref_hash2(const uint256& l, const uint256& r)
{
    unsigned char buf[64];
    memcpy(buf, l.begin(), 32);
    memcpy(buf + 32, r.begin(), 32);
    return ref_sha256d(buf, 64);
}
static uint256 ref_merkle_root(std::vector<uint256> v)
{
    if (v.empty()) return uint256();
    while (v.size() > 1) {
        if (v.size() & 1) v.push_back(v.back());
        std::vector<uint256> n;
        for (size_t i = 0; i < v.size(); i += 2) n.push_back(ref_hash2(v[i], v[i + 1]));
        v.swap(n);
    }
    return v[0];
}

static std::string S(uint64_t v) { return std::to_string(v); }
static vx::Distinct g_distinct;
static std::atomic<uint64_t> g_eval{0};

// ------------------------------------------------------------------------------------------------ part 1: GCS
struct GateFlags {
    std::atomic<uint64_t> zero_delta{0}, long_unary{0}, false_pos{0}, any_true{0}, any_false{0}, decode_reject{0};
};
static GateFlags g_gcs;

static std::vector<Bytes> gcs_universe(size_t u)
{
    std::vector<Bytes> U;
    U.push_back({});                                  // the empty element
    U.push_back({0x00});
    U.push_back({0x01});
    U.push_back(Bytes(7, 0x11));                      // siphash: < 1 block
    U.push_back(Bytes(8, 0x22));                      // exactly 1 block
    Bytes b9; for (int i = 0; i < 9; i++) b9.push_back(i * 29 + 1);
    U.push_back(b9);
    Bytes p2pkh{0x76, 0xa9, 0x14}; for (int i = 0; i < 20; i++) p2pkh.push_back(0xa0 + i); p2pkh.push_back(0x88); p2pkh.push_back(0xac);
    U.push_back(p2pkh);
    Bytes big; for (int i = 0; i < 300; i++) big.push_back((i * 7) ^ 0x5a);
    U.push_back(big);
    U.push_back({0x00, 0x00});
    U.push_back(Bytes(16, 0xff));
    U.resize(u);
    return U;
}

static void part_gcs(bool big)
{
    const size_t u = big ? 10 : 8;
    const std::vector<Bytes> U = gcs_universe(u);
    struct PM { int P; uint32_t M; };
    const std::vector<PM> pms = {{19, 784931}, {1, 2}, {8, 1000}, {32, 0xffffffffu}, {0, 1}, {2, 3000}, {20, 1u << 20}};
    const std::vector<std::pair<uint64_t, uint64_t>> keys = {{0, 0}, {0x0706050403020100ULL, 0x0f0e0d0c0b0a0908ULL}, {~0ULL, 0x8000000000000001ULL}};
    const uint64_t nsub = 1ULL << u;
    std::vector<GCSFilter::ElementSet> sets(nsub);
    for (uint64_t t = 0; t < nsub; t++)
        for (size_t i = 0; i < u; i++) if (t >> i & 1) sets[t].insert(U[i]);
    const uint64_t total = pms.size() * keys.size() * nsub;
    vx::par_for(total, 8, [&](uint64_t lo, uint64_t hi, unsigned) {
        for (uint64_t c = lo; c < hi; c++) {
            if (vx::rep().violations > 20) return;
            uint64_t sub = c % nsub;
            const auto& key = keys[(c / nsub) % keys.size()];
            const PM& pm = pms[c / nsub / keys.size()];
            std::string id = "P=" + S(pm.P) + " M=" + S(pm.M) + " k0=" + S(key.first) + " k1=" + S(key.second) + " subset=" + S(sub);
            std::vector<Bytes> members;
            for (size_t i = 0; i < u; i++) if (sub >> i & 1) members.push_back(U[i]);
            const uint64_t N = members.size();
            GCSFilter::Params params(key.first, key.second, pm.P, pm.M);
            GCSFilter f(params, sets[sub]);
            RefGCS r = ref_gcs(key.first, key.second, pm.P, pm.M, members);
            if (r.saw_zero_delta) g_gcs.zero_delta++;
            if (r.saw_long_unary) g_gcs.long_unary++;
            uint64_t ev = 0;
            ev++;
            if (f.GetEncoded() != r.encoded || f.GetN() != N)
                vx::violation("gcs-encoding", "GCSFilter encoding differs from BIP158 reference: " + id + " got=" + vx::hex(f.GetEncoded()) + " want=" + vx::hex(r.encoded), "part gcs\n" + id);
            // decode own encoding
            std::unique_ptr<GCSFilter> g;
            try {
                g = std::make_unique<GCSFilter>(params, f.GetEncoded(), /*skip_decode_check=*/false);
            } catch (const std::exception& e) {
                vx::violation("gcs-decode-own", std::string("decoding the filter's own encoding throws: ") + e.what() + " " + id, "part gcs\n" + id);
            }
            GCSFilter g2(params, f.GetEncoded(), /*skip_decode_check=*/true);
            ev++;
            if (g && (g->GetN() != N || g->GetEncoded() != f.GetEncoded() || g2.GetN() != N))
                vx::violation("gcs-decode-own", "decoded filter differs (N/encoding): " + id, "part gcs\n" + id);
            // Match for every universe element: exact vs reference, and no false negative
            std::vector<bool> hit(u);
            for (size_t i = 0; i < u; i++) {
                bool want = N ? ref_gcs_match(r, key.first, key.second, pm.M, N, U[i]) : false;
                hit[i] = want;
                bool got = f.Match(U[i]);
                bool member = sub >> i & 1;
                ev++;
                if (member && !got)
                    vx::violation("gcs-false-negative", "Match(member) == false: " + id + " element#" + S(i), "part gcs\n" + id + "\nelement " + S(i));
                else if (got != want)
                    vx::violation("gcs-match-exact", "Match differs from BIP158 reference: " + id + " element#" + S(i) + " got=" + S(got), "part gcs\n" + id + "\nelement " + S(i));
                if (!member && want) g_gcs.false_pos++;
                if (g) {
                    ev++;
                    if (g->Match(U[i]) != got || g2.Match(U[i]) != got)
                        vx::violation("gcs-decode-match", "decoded filter answers Match differently: " + id + " element#" + S(i), "part gcs\n" + id);
                }
            }
            // MatchAny for every subset of the universe
            for (uint64_t t = 0; t < nsub; t++) {
                bool want = false;
                for (size_t i = 0; i < u; i++) if ((t >> i & 1) && hit[i]) want = true;
                bool got = f.MatchAny(sets[t]);
                ev++;
                (want ? g_gcs.any_true : g_gcs.any_false)++;
                if ((t & sub) && !got)
                    vx::violation("gcs-matchany-false-negative", "MatchAny(set sharing a member) == false: " + id + " query=" + S(t), "part gcs\n" + id + "\nquery " + S(t));
                else if (got != want)
                    vx::violation("gcs-matchany-exact", "MatchAny differs from reference: " + id + " query=" + S(t) + " got=" + S(got), "part gcs\n" + id + "\nquery " + S(t));
            }
            // non-canonical length: excess byte / truncated must be rejected by the checking decoder
            {
                Bytes ex = f.GetEncoded();
                ex.push_back(0);
                bool thrown = false;
                try { GCSFilter x(params, ex, false); } catch (const std::ios_base::failure&) { thrown = true; }
                ev++;
                if (!thrown) vx::violation("gcs-excess-accepted", "encoding + 1 excess byte accepted by checking decoder: " + id, "part gcs\n" + id);
                Bytes tr = f.GetEncoded();
                tr.pop_back();
                thrown = false;
                try { GCSFilter x(params, tr, false); } catch (const std::ios_base::failure&) { thrown = true; }
                ev++;
                if (!thrown) vx::violation("gcs-truncated-accepted", "encoding minus last byte accepted by checking decoder: " + id, "part gcs\n" + id);
                else g_gcs.decode_reject++;
            }
            g_eval += ev;
            if (N) g_distinct.add("gcs" + S(pm.P) + "/" + S(pm.M) + "/" + S(key.first) + vx::hex(r.encoded));
        }
    });
    vx::ev().sample("gcs: universe=" + S(u) + " elements, " + S(pms.size()) + " (P,M) x " + S(keys.size()) + " keys x " + S(nsub) + " subsets; each: encoding, decode, Match x" + S(u) + ", MatchAny x" + S(nsub));
}

// BIP158 self-test of the *reference* on the published testnet genesis vector, so a wrong reference cannot hide.
static bool ref_selftest()
{
    Bytes spk = {0x41, 0x04, 0x67, 0x8a, 0xfd, 0xb0, 0xfe, 0x55, 0x48, 0x27, 0x19, 0x67, 0xf1, 0xa6, 0x71, 0x30, 0xb7, 0x10, 0x5c, 0xd6, 0xa8, 0x28, 0xe0, 0x39, 0x09, 0xa6, 0x79, 0x62, 0xe0, 0xea, 0x1f, 0x61, 0xde, 0xb6, 0x49, 0xf6, 0xbc, 0x3f, 0x4c, 0xef, 0x38, 0xc4, 0xf3, 0x55, 0x04, 0xe5, 0x1e, 0xc1, 0x12, 0xde, 0x5c, 0x38, 0x4d, 0xf7, 0xba, 0x0b, 0x8d, 0x57, 0x8a, 0x4c, 0x70, 0x2b, 0x6b, 0xf1, 0x1d, 0x5f, 0xac};
    // block hash 000000000933ea01ad0ee984209779baaec3ced90fa3f408719526f8d77f4943, internal byte order = reversed
    const unsigned char h[16] = {0x43, 0x49, 0x7f, 0xd7, 0xf8, 0x26, 0x95, 0x71, 0x08, 0xf4, 0xa3, 0x0f, 0xd9, 0xce, 0xc3, 0xae};
    uint64_t k0 = 0, k1 = 0;
    for (int i = 0; i < 8; i++) { k0 |= (uint64_t)h[i] << (8 * i); k1 |= (uint64_t)h[8 + i] << (8 * i); }
    RefGCS r = ref_gcs(k0, k1, 19, 784931, {spk});
    return vx::hex(r.encoded) == "019dfca8";
}

// ---- BlockFilter element extraction (BASIC): every block shape over a small script alphabet
static void part_blockfilter(bool big)
{
    std::vector<Bytes> SC;
    SC.push_back({});                                              // empty script: never an element
    SC.push_back({0x6a});                                          // OP_RETURN
    SC.push_back({0x6a, 0x03, 'a', 'b', 'c'});                     // OP_RETURN <data>
    SC.push_back({0x51});                                          // OP_TRUE
    Bytes p2pkh{0x76, 0xa9, 0x14}; for (int i = 0; i < 20; i++) p2pkh.push_back(0x30 + i); p2pkh.push_back(0x88); p2pkh.push_back(0xac);
    SC.push_back(p2pkh);
    SC.push_back({0x01, 0x6a});                                    // push of the byte 0x6a: not an OP_RETURN script
    if (big) SC.push_back({0x00, 0x6a});                           // OP_0 OP_RETURN: first opcode is not OP_RETURN
    const size_t ns = SC.size();
    // script lists of length 0..2
    std::vector<std::vector<int>> lists;
    lists.push_back({});
    for (size_t a = 0; a < ns; a++) lists.push_back({(int)a});
    for (size_t a = 0; a < ns; a++) for (size_t b = 0; b < ns; b++) lists.push_back({(int)a, (int)b});
    const uint64_t total = ns * lists.size() * lists.size();
    std::atomic<uint64_t> seen_opret_out{0}, seen_opret_prev{0}, seen_empty{0}, seen_zero_elems{0};
    vx::par_for(total, 64, [&](uint64_t lo, uint64_t hi, unsigned) {
        for (uint64_t c = lo; c < hi; c++) {
            if (vx::rep().violations > 20) return;
            size_t cb = c % ns;
            const auto& outs = lists[(c / ns) % lists.size()];
            const auto& prevs = lists[c / ns / lists.size()];
            std::string id = "coinbase_spk=" + S(cb) + " tx_outs=[";
            for (int o : outs) id += S(o) + ",";
            id += "] prevouts=[";
            for (int p : prevs) id += S(p) + ",";
            id += "]";
            CBlock block;
            block.nVersion = 1;
            block.nTime = 1231006505;
            block.nBits = 0x207fffff;
            block.nNonce = (uint32_t)c;
            CMutableTransaction t0;
            t0.vin.resize(1);
            t0.vin[0].scriptSig = CScript() << OP_0 << OP_0;
            t0.vout.emplace_back(50, CScript(SC[cb].begin(), SC[cb].end()));
            block.vtx.push_back(MakeTransactionRef(t0));
            CMutableTransaction t1;
            t1.vin.resize(std::max<size_t>(prevs.size(), 1));
            for (size_t i = 0; i < t1.vin.size(); i++) t1.vin[i].prevout = COutPoint(Txid::FromUint256(uint256{(uint8_t)(i + 1)}), 0);
            for (int o : outs) t1.vout.emplace_back(1, CScript(SC[o].begin(), SC[o].end()));
            block.vtx.push_back(MakeTransactionRef(t1));
            CBlockUndo undo;
            undo.vtxundo.emplace_back();
            for (int p : prevs) undo.vtxundo[0].vprevout.emplace_back(CTxOut(2, CScript(SC[p].begin(), SC[p].end())), 7, false);
            // reference element set: BIP158 — every output script except OP_RETURN ones, every spent script; nothing empty
            std::set<Bytes> want;
            auto is_opret = [](const Bytes& s) { return !s.empty() && s[0] == 0x6a; };
            if (!SC[cb].empty() && !is_opret(SC[cb])) want.insert(SC[cb]);
            for (int o : outs) {
                if (is_opret(SC[o])) seen_opret_out++;
                if (SC[o].empty()) seen_empty++;
                if (!SC[o].empty() && !is_opret(SC[o])) want.insert(SC[o]);
            }
            for (int p : prevs) {
                if (is_opret(SC[p])) seen_opret_prev++;
                if (!SC[p].empty()) want.insert(SC[p]);
            }
            if (want.empty()) seen_zero_elems++;
            BlockFilter bf(BlockFilterType::BASIC, block, undo);
            uint256 bh = block.GetHash();
            uint64_t k0 = 0, k1 = 0;
            for (int i = 0; i < 8; i++) { k0 |= (uint64_t)bh.begin()[i] << (8 * i); k1 |= (uint64_t)bh.begin()[8 + i] << (8 * i); }
            std::vector<Bytes> members(want.begin(), want.end());
            RefGCS r = ref_gcs(k0, k1, 19, 784931, members);
            uint64_t ev = 1;
            if (bf.GetEncodedFilter() != r.encoded || bf.GetBlockHash() != bh || bf.GetFilterType() != BlockFilterType::BASIC)
                vx::violation("blockfilter-elements", "BlockFilter(BASIC) encoding differs from BIP158 reference: " + id + " got=" + vx::hex(bf.GetEncodedFilter()) + " want=" + vx::hex(r.encoded), "part blockfilter\n" + id);
            for (auto& m : members) {
                ev++;
                if (!bf.GetFilter().Match(m)) vx::violation("blockfilter-false-negative", "block filter does not match an element of the block: " + id + " script=" + vx::hex(m), "part blockfilter\n" + id);
            }
            // filter hash / header per BIP157, serialisation round trip
            uint256 fh = ref_sha256d(r.encoded.data(), r.encoded.size());
            uint256 prev{(uint8_t)(c & 0xff)};
            ev += 2;
            if (bf.GetHash() != fh) vx::violation("blockfilter-hash", "filter hash != sha256d(encoded filter): " + id, "part blockfilter\n" + id);
            if (bf.ComputeHeader(prev) != ref_hash2(fh, prev)) vx::violation("blockfilter-header", "filter header != sha256d(filter_hash || prev_header): " + id, "part blockfilter\n" + id);
            DataStream ss;
            ss << bf;
            BlockFilter bf2;
            bool ok = true;
            try { ss >> bf2; } catch (const std::exception&) { ok = false; }
            ev++;
            if (!ok || !ss.empty() || bf2.GetEncodedFilter() != bf.GetEncodedFilter() || bf2.GetBlockHash() != bh || bf2.GetFilterType() != BlockFilterType::BASIC)
                vx::violation("blockfilter-roundtrip", "BlockFilter serialisation round trip failed: " + id, "part blockfilter\n" + id);
            g_eval += ev;
            std::string key = "bf";
            for (auto& m : members) key += vx::hex(m) + "|";
            if (!members.empty()) g_distinct.add(key);
        }
    });
    if (!seen_opret_out || !seen_opret_prev || !seen_empty || !seen_zero_elems) {
        printf("HARNESS-ERROR blockfilter part did not see OP_RETURN outputs/prevouts/empty scripts/zero-element blocks\n");
        exit(2);
    }
    vx::ev().sample("blockfilter: " + S(total) + " two-tx blocks over " + S(ns) + " scripts (coinbase out x tx outs len<=2 x spent scripts len<=2): encoded filter == BIP158 reference, hash/header, round trip");
}

// ------------------------------------------------------------------------------------------------ part 2: CBloomFilter
struct BloomSer { Bytes data; uint32_t nfuncs, tweak; uint8_t flags; };
static BloomSer bloom_ser(const CBloomFilter& f)
{
    DataStream ss;
    ss << f;
    BloomSer b;
    ss >> b.data >> b.nfuncs >> b.tweak >> b.flags;
    return b;
}
static Bytes ser_outpoint(const uint256& txid, uint32_t n)
{
    Bytes b(txid.begin(), txid.end());
    for (int i = 0; i < 4; i++) b.push_back(n >> (8 * i) & 0xff);
    return b;
}

static std::atomic<uint64_t> g_bloom_fp{0}, g_bloom_empty{0}, g_bloom_capped{0};

static void part_bloom_sets(bool big)
{
    const size_t u = big ? 8 : 6;
    std::vector<Bytes> U;
    U.push_back({0x00});
    U.push_back(Bytes(20, 0x99));
    Bytes pk{0x02}; for (int i = 0; i < 32; i++) pk.push_back(0x40 + i);
    U.push_back(pk);
    U.push_back(Bytes(32, 0xab));
    U.push_back({'a', 'b', 'c'});
    U.push_back(ser_outpoint(uint256{7}, 1)); // 36 bytes
    U.push_back({0x01, 0x02});
    U.push_back(Bytes(5, 0));
    U.resize(u);
    const std::vector<unsigned> nelems = {1, 2, 3, 10, 1000, 400000};
    const std::vector<double> fps = {0.5, 0.1, 0.01, 0.000001, 1e-12};
    const std::vector<uint32_t> tweaks = {0, 2147483649u, 0xffffffffu};
    const uint64_t nsub = 1ULL << u;
    const uint64_t total = nelems.size() * fps.size() * tweaks.size() * nsub;
    vx::par_for(total, 16, [&](uint64_t lo, uint64_t hi, unsigned) {
        for (uint64_t c = lo; c < hi; c++) {
            if (vx::rep().violations > 20) return;
            uint64_t sub = c % nsub;
            uint32_t tweak = tweaks[(c / nsub) % tweaks.size()];
            double fp = fps[(c / nsub / tweaks.size()) % fps.size()];
            unsigned ne = nelems[c / nsub / tweaks.size() / fps.size()];
            char fpb[32];
            snprintf(fpb, sizeof fpb, "%g", fp);
            std::string id = "nElements=" + S(ne) + " fp=" + fpb + " tweak=" + S(tweak) + " subset=" + S(sub);
            CBloomFilter f(ne, fp, tweak, BLOOM_UPDATE_NONE);
            BloomSer s0 = bloom_ser(f);
            uint64_t ev = 0;
            // BIP37 size rules (checked only where the real-valued formula is not within 1e-6 of an integer)
            {
                long double bitsf = -1.0L / (logl(2.0L) * logl(2.0L)) * ne * logl((long double)fp);
                long double fr = bitsf - floorl(bitsf);
                if (fr > 1e-6L && fr < 1 - 1e-6L) {
                    uint64_t bits = std::min<uint64_t>((uint64_t)floorl(bitsf), 36000 * 8);
                    uint64_t bytes = bits / 8;
                    ev++;
                    if (s0.data.size() != bytes)
                        vx::violation("bloom-size", "filter size differs from BIP37 formula: " + id + " got=" + S(s0.data.size()) + " want=" + S(bytes), "part bloom\n" + id);
                    long double kf = (long double)(bytes * 8 / ne) * logl(2.0L);
                    long double kfr = kf - floorl(kf);
                    if (kfr > 1e-6L && kfr < 1 - 1e-6L) {
                        ev++;
                        uint64_t k = std::min<uint64_t>((uint64_t)floorl(kf), 50);
                        if (s0.nfuncs != k) vx::violation("bloom-nhash", "nHashFuncs differs from BIP37 formula: " + id + " got=" + S(s0.nfuncs) + " want=" + S(k), "part bloom\n" + id);
                    }
                    if (bytes == 36000) g_bloom_capped++;
                }
            }
            ev++;
            if (!f.IsWithinSizeConstraints() || s0.data.size() > 36000 || s0.nfuncs > 50 || s0.tweak != tweak)
                vx::violation("bloom-constraints", "constructed filter violates protocol limits / tweak: " + id, "part bloom\n" + id);
            if (s0.data.empty()) g_bloom_empty++;
            RefBloom r{Bytes(s0.data.size(), 0), s0.nfuncs, tweak};
            for (size_t i = 0; i < u; i++) if (sub >> i & 1) {
                if (i == 5) f.insert(COutPoint(Txid::FromUint256(uint256{7}), 1)); // outpoint overload == its serialisation
                else f.insert(U[i]);
                r.insert(U[i]);
            }
            BloomSer s1 = bloom_ser(f);
            ev++;
            if (s1.data != r.data || s1.nfuncs != r.nfuncs)
                vx::violation("bloom-bits", "filter bits differ from BIP37 reference after inserts: " + id, "part bloom\n" + id);
            for (size_t i = 0; i < u; i++) {
                bool got = f.contains(U[i]);
                bool want = r.contains(U[i]);
                bool member = sub >> i & 1;
                ev++;
                if (member && !got) vx::violation("bloom-false-negative", "contains(inserted element) == false: " + id + " element#" + S(i), "part bloom\n" + id + "\nelement " + S(i));
                else if (got != want) vx::violation("bloom-contains-exact", "contains differs from BIP37 reference: " + id + " element#" + S(i), "part bloom\n" + id + "\nelement " + S(i));
                if (!member && want && !s0.data.empty()) g_bloom_fp++;
                if (i == 5) {
                    ev++;
                    if (f.contains(COutPoint(Txid::FromUint256(uint256{7}), 1)) != got)
                        vx::violation("bloom-outpoint-overload", "contains(COutPoint) != contains(serialised outpoint): " + id, "part bloom\n" + id);
                }
            }
            // serialisation round trip keeps answers
            {
                DataStream ss;
                ss << f;
                CBloomFilter f2;
                ss >> f2;
                for (size_t i = 0; i < u; i++) {
                    ev++;
                    if (f2.contains(U[i]) != f.contains(U[i])) vx::violation("bloom-roundtrip", "deserialised filter answers differently: " + id, "part bloom\n" + id);
                }
            }
            g_eval += ev;
            if (sub && !s0.data.empty()) g_distinct.add("bloom" + S(s0.nfuncs) + "/" + S(tweak) + "/" + S(s0.data.size()) + "/" + S(vx::fnv1a(s1.data.data(), s1.data.size())));
        }
    });
    vx::ev().sample("bloom: " + S(nelems.size() * fps.size() * tweaks.size()) + " parameter points x " + S(nsub) + " subsets of " + S(u) + " elements: bits == BIP37 reference, contains exact, no false negative");
}

// ---- IsRelevantAndUpdate: BIP37 matching/update rule on transactions whose data pushes are known by construction
struct ScriptT { Bytes raw; std::vector<Bytes> pushes; /* in order; parse stops after these */ bool pubkey_or_multisig; };
static void push_data(Bytes& s, const Bytes& d) { s.push_back((unsigned char)d.size()); s.insert(s.end(), d.begin(), d.end()); } // size 1..75

static void part_bloom_update(bool big)
{
    Bytes H(20), H2(20), K{0x02}, K3{0x03}, D{0xde, 0xad, 0xbe, 0xef}, G(71, 0x30), K2{0x03};
    for (int i = 0; i < 20; i++) { H[i] = 0x10 + i; H2[i] = 0xe0 + i; }
    for (int i = 0; i < 32; i++) { K.push_back(0x41 + i); K3.push_back(0x81 + i); K2.push_back(0xc1 + i); }
    auto p2pkh = [&](const Bytes& h) { ScriptT s; s.raw = {0x76, 0xa9}; push_data(s.raw, h); s.raw.push_back(0x88); s.raw.push_back(0xac); s.pushes = {{}, {}, h, {}, {}}; s.pubkey_or_multisig = false; return s; };
    auto p2pk = [&](const Bytes& k) { ScriptT s; push_data(s.raw, k); s.raw.push_back(0xac); s.pushes = {k, {}}; s.pubkey_or_multisig = true; return s; };
    auto p2sh = [&](const Bytes& h) { ScriptT s; s.raw = {0xa9}; push_data(s.raw, h); s.raw.push_back(0x87); s.pushes = {{}, h, {}}; s.pubkey_or_multisig = false; return s; };
    auto multisig = [&](const Bytes& a, const Bytes& b) { ScriptT s; s.raw = {0x51}; push_data(s.raw, a); push_data(s.raw, b); s.raw.push_back(0x52); s.raw.push_back(0xae); s.pushes = {{}, a, b, {}, {}}; s.pubkey_or_multisig = true; return s; };
    auto opret = [&](const Bytes& d) { ScriptT s; s.raw = {0x6a}; push_data(s.raw, d); s.pushes = {{}, d}; s.pubkey_or_multisig = false; return s; };
    auto broken_after = [&](const Bytes& d) { ScriptT s; push_data(s.raw, d); s.raw.push_back(0x05); s.raw.push_back(0x01); s.pushes = {d}; s.pubkey_or_multisig = false; return s; }; // <d> then truncated push
    auto broken_before = [&](const Bytes& d) { ScriptT s; s.raw = {0x4c}; /* PUSHDATA1 without length */ s.pushes = {}; (void)d; s.pubkey_or_multisig = false; return s; };
    std::vector<std::vector<ScriptT>> shapes = {
        {p2pkh(H)},
        {p2pk(K)},
        {multisig(K, K3)},
        {opret(D)},
        {p2pkh(H2), p2pk(K)},
        {p2pkh(H), p2pk(K), p2sh(H)},
        {},
        {broken_after(D), broken_before(D)},
        {multisig(K3, K), p2pkh(H2), opret(H)},
    };
    const COutPoint OP(Txid::FromUint256(uint256{0x77}), 1);
    const Bytes OPs = ser_outpoint(uint256{0x77}, 1);
    struct FP { unsigned ne; double fp; uint32_t tweak; };
    std::vector<FP> fparams = {{10, 0.000001, 0}, {3, 0.01, 5}, {2, 0.3, 99}, {1, 0.5, 0}};
    if (big) { fparams.push_back({7, 0.05, 0xdeadbeef}); fparams.push_back({1, 0.01, 1}); }
    const std::vector<uint8_t> flags = {0, 1, 2, 3, 0x81, 0x42};
    const int NU = 7; // txid, H, K, D, prevout, G (scriptSig sig push), K2 (scriptSig key push)
    const uint64_t nsub = 1 << NU;
    const uint64_t NIN = 3; // input variant: 0 = spends OP with <G> <K2>; 1 = unrelated prevout and pushes; 2 = unrelated prevout, <G> <other key>
    const COutPoint OP2(Txid::FromUint256(uint256{0x78}), 1);
    const Bytes G2(71, 0x31);
    Bytes K2b{0x02};
    for (int i = 0; i < 32; i++) K2b.push_back(0x11 + 3 * i);
    const uint64_t total = shapes.size() * fparams.size() * flags.size() * nsub * NIN;
    std::atomic<uint64_t> n_true{0}, n_false{0}, n_updated{0}, n_p2pk_only_skip{0};
    vx::par_for(total, 32, [&](uint64_t lo, uint64_t hi, unsigned) {
        for (uint64_t c0 = lo; c0 < hi; c0++) {
            if (vx::rep().violations > 20) return;
            const uint64_t inv = c0 % NIN, c = c0 / NIN;
            uint64_t sub = c % nsub;
            uint8_t fl = flags[(c / nsub) % flags.size()];
            const FP& fpm = fparams[(c / nsub / flags.size()) % fparams.size()];
            size_t shape = c / nsub / flags.size() / fparams.size();
            const auto& outs = shapes[shape];
            std::string id = "shape=" + S(shape) + " filter=(" + S(fpm.ne) + "," + std::to_string(fpm.fp) + "," + S(fpm.tweak) + ") flags=" + S(fl) + " inserted=" + S(sub) + " input_variant=" + S(inv);
            CMutableTransaction mtx;
            mtx.vin.resize(1);
            mtx.vin[0].prevout = inv == 0 ? OP : OP2;
            const Bytes& sigpush1 = inv == 1 ? G2 : G;
            const Bytes& sigpush2 = inv == 0 ? K2 : K2b;
            const Bytes prevser = inv == 0 ? OPs : ser_outpoint(uint256{0x78}, 1);
            Bytes sig;
            push_data(sig, sigpush1);
            push_data(sig, sigpush2);
            mtx.vin[0].scriptSig = CScript(sig.begin(), sig.end());
            for (auto& o : outs) mtx.vout.emplace_back(1000, CScript(o.raw.begin(), o.raw.end()));
            mtx.nLockTime = (uint32_t)shape;
            const CTransaction tx(mtx);
            const uint256 txid = tx.GetHash().ToUint256();
            const Bytes txidb(txid.begin(), txid.end());
            CBloomFilter f(fpm.ne, fpm.fp, fpm.tweak, fl);
            BloomSer s0 = bloom_ser(f);
            RefBloom r{Bytes(s0.data.size(), 0), s0.nfuncs, fpm.tweak};
            const Bytes* el[NU] = {&txidb, &H, &K, &D, &OPs, &G, &K2};
            for (int i = 0; i < NU; i++) if (sub >> i & 1) {
                if (i == 4) f.insert(OP); else f.insert(*el[i]);
                r.insert(*el[i]);
            }
            // reference rule (BIP37 "Filter matching algorithm")
            bool want;
            bool updated = false;
            if (r.data.empty()) want = true;
            else {
                bool found = r.contains(txidb);
                for (size_t i = 0; i < outs.size(); i++) {
                    for (auto& p : outs[i].pushes) {
                        if (!p.empty() && r.contains(p)) {
                            found = true;
                            bool upd = (fl & 3) == 1 || ((fl & 3) == 2 && outs[i].pubkey_or_multisig);
                            if ((fl & 3) == 2 && !outs[i].pubkey_or_multisig) n_p2pk_only_skip++;
                            if (upd) { r.insert(ser_outpoint(txid, (uint32_t)i)); updated = true; }
                            break;
                        }
                    }
                }
                if (!found) {
                    if (r.contains(prevser)) found = true;
                    else if (r.contains(sigpush1) || r.contains(sigpush2)) found = true;
                }
                want = found;
            }
            bool got = f.IsRelevantAndUpdate(tx);
            BloomSer s1 = bloom_ser(f);
            (want ? n_true : n_false)++;
            if (updated) n_updated++;
            uint64_t ev = 2;
            if (got != want)
                vx::violation("bloom-relevant", "IsRelevantAndUpdate result differs from BIP37 rule: " + id + " got=" + S(got), "part bloom_update\n" + id);
            if (s1.data != r.data || s1.flags != fl || s1.nfuncs != s0.nfuncs)
                vx::violation("bloom-update-rule", "filter contents after IsRelevantAndUpdate differ from BIP37 update rule: " + id, "part bloom_update\n" + id);
            // no false negative on the things the BIP promises: matched outputs' outpoints are now contained
            if (updated) {
                for (size_t i = 0; i < outs.size(); i++) {
                    bool direct = false;
                    for (int j = 1; j <= 3; j++) if (sub >> j & 1) for (auto& p : outs[i].pushes) if (p == *el[j]) direct = true;
                    if (direct && ((fl & 3) == 1 || outs[i].pubkey_or_multisig)) {
                        ev++;
                        if (!f.contains(COutPoint(tx.GetHash(), (uint32_t)i)))
                            vx::violation("bloom-update-false-negative", "outpoint of a matched output not contained after update: " + id + " vout=" + S(i), "part bloom_update\n" + id);
                    }
                }
            }
            g_eval += ev;
            g_distinct.add("upd" + S(shape) + "/" + S(inv) + "/" + S(fl & 3) + "/" + S(want) + "/" + S(vx::fnv1a(s1.data.data(), s1.data.size())) + "/" + S(s1.data.size()));
        }
    });
    if (!n_true || !n_false || !n_updated || !n_p2pk_only_skip) {
        printf("HARNESS-ERROR bloom update part: outcome class missing (true=%lu false=%lu updated=%lu p2pkonly-skip=%lu)\n", (unsigned long)n_true, (unsigned long)n_false, (unsigned long)n_updated, (unsigned long)n_p2pk_only_skip);
        exit(2);
    }
    vx::ev().sample("bloom update: " + S(shapes.size()) + " output shapes x 3 input variants x " + S(fparams.size()) + " filters x " + S(flags.size()) + " flag bytes x " + S(nsub) + " inserted subsets: relevant=" + S(n_true) + " irrelevant=" + S(n_false) + " updated=" + S(n_updated));
}

// ------------------------------------------------------------------------------------------------ part 3: rolling bloom
static std::atomic<uint64_t> g_roll_nodes{0}, g_roll_forgot{0};

struct RollCfg { unsigned n; double fp; uint32_t tweak; int depth; int mode; /*0 = full alphabet, 1 = 3-way deep*/ };
struct RollCtx {
    const RollCfg& cfg;
    const std::vector<Bytes>& sym;
    uint64_t nodes = 0, ev = 0, forgot = 0;
    std::vector<uint8_t> seq;
};

// The choices after history `seq`. mode 0: every symbol. mode 1: {advance to the next symbol in cyclic order,
// repeat the most recent symbol, repeat the oldest symbol still inside the window of the last n inserts}.
static int roll_choices(const RollCfg& cfg, int k, const std::vector<uint8_t>& seq, int* choices)
{
    int nc = 0;
    if (cfg.mode == 0) { for (int i = 0; i < k; i++) choices[nc++] = i; return nc; }
    int adv = 0;
    for (uint8_t s : seq) if (s == adv % k) adv++;
    choices[nc++] = adv % k;
    if (!seq.empty()) {
        int last = seq.back();
        if (last != choices[0]) choices[nc++] = last;
        int oldest = seq.size() >= cfg.n ? seq[seq.size() - cfg.n] : seq[0];
        bool dup = false;
        for (int i = 0; i < nc; i++) if (choices[i] == oldest) dup = true;
        if (!dup) choices[nc++] = oldest;
    }
    return nc;
}

// oracle after an insert: the last n insert() calls must all be contained
static void roll_check(RollCtx& c, const CRollingBloomFilter& g)
{
    const auto& seq = c.seq;
    const unsigned n = c.cfg.n;
    c.nodes++;
    size_t from = seq.size() > n ? seq.size() - n : 0;
    uint32_t seen = 0;
    for (size_t i = seq.size(); i-- > from;) {
        if (seen >> seq[i] & 1) continue;
        seen |= 1u << seq[i];
        c.ev++;
        if (!g.contains(c.sym[seq[i]])) {
            std::string h;
            for (uint8_t x : seq) h += S(x) + " ";
            vx::violation("rolling-false-negative", "CRollingBloomFilter(n=" + S(n) + ") lost one of the last n inserted items: symbol " + S(seq[i]) + " inserted " + S(seq.size() - i) + " insert()s ago; history: " + h,
                          "part rolling\nn " + S(n) + "\nfp " + std::to_string(c.cfg.fp) + "\ntweak " + S(c.cfg.tweak) + "\nmode " + S(c.cfg.mode) + "\nhistory " + h);
        }
    }
    // evidence only: some symbol inserted earlier, outside the window, is no longer reported (the filter really rolls)
    uint32_t ever = 0;
    for (uint8_t y : seq) ever |= 1u << y;
    for (size_t x = 0; x < c.sym.size(); x++)
        if ((ever >> x & 1) && !(seen >> x & 1) && !g.contains(c.sym[x])) { c.forgot++; break; }
}

// DFS below history c.seq; `f` is the filter after those inserts. stop_at: do not go below this depth (prefix collection).
static void roll_dfs(RollCtx& c, const CRollingBloomFilter& f, int stop_at, std::vector<std::vector<uint8_t>>* collect)
{
    if ((int)c.seq.size() >= stop_at) {
        if (collect) collect->push_back(c.seq);
        return;
    }
    int choices[16];
    int nc = roll_choices(c.cfg, (int)c.sym.size(), c.seq, choices);
    for (int ci = 0; ci < nc; ci++) {
        CRollingBloomFilter g = f;
        g.insert(c.sym[choices[ci]]);
        c.seq.push_back((uint8_t)choices[ci]);
        roll_check(c, g);
        if (vx::rep().violations <= 20) roll_dfs(c, g, stop_at, collect);
        c.seq.pop_back();
    }
}

static std::vector<Bytes> roll_symbols(unsigned k)
{
    std::vector<Bytes> sym;
    for (unsigned i = 0; i < k; i++) { Bytes b(32, (unsigned char)(i * 37 + 1)); b[0] = i; b[31] = 0xf0 | i; sym.push_back(b); }
    return sym;
}

static void part_rolling(bool big)
{
    std::vector<RollCfg> cfgs;
    const std::vector<std::pair<double, uint32_t>> ft = {{0.5, 0}, {0.001, 0x9E3779B9u}};
    const int fullq[7] = {0, 0, 9, 9, 9, 7, 7}, fullt[7] = {0, 0, 12, 11, 10, 9, 9};
    const int deepq[7] = {0, 0, 12, 13, 13, 14, 14}, deept[7] = {0, 0, 14, 15, 16, 17, 17};
    for (unsigned n = 2; n <= 6; n++)
        for (auto& [fp, tw] : ft) {
            cfgs.push_back({n, fp, tw, big ? fullt[n] : fullq[n], 0});
            cfgs.push_back({n, fp, tw, big ? deept[n] : deepq[n], 1});
        }
    struct Unit { size_t cfg; std::vector<uint8_t> prefix; };
    std::vector<Unit> units;
    // sequential phase: histories up to the split depth (checked here), collected as work units
    for (size_t ci = 0; ci < cfgs.size(); ci++) {
        const RollCfg& cfg = cfgs[ci];
        auto sym = roll_symbols(cfg.n + 2);
        RollCtx c{cfg, sym};
        CRollingBloomFilter f(cfg.n, cfg.fp);
        f.nTweak = cfg.tweak; // fixed tweak (the constructor draws a random one); data is still all-zero here
        std::vector<std::vector<uint8_t>> pre;
        roll_dfs(c, f, std::min(cfg.depth, cfg.mode ? 7 : 3), &pre);
        for (auto& p : pre) units.push_back({ci, p});
        g_roll_nodes += c.nodes; g_eval += c.ev; g_roll_forgot += c.forgot;
    }
    std::atomic<bool> cut{false};
    vx::par_for(units.size(), 1, [&](uint64_t lo, uint64_t hi, unsigned) {
        for (uint64_t ui = lo; ui < hi; ui++) {
            const RollCfg& cfg = cfgs[units[ui].cfg];
            auto sym = roll_symbols(cfg.n + 2);
            RollCtx c{cfg, sym};
            CRollingBloomFilter f(cfg.n, cfg.fp);
            f.nTweak = cfg.tweak;
            for (uint8_t s : units[ui].prefix) f.insert(sym[s]);
            c.seq = units[ui].prefix;
            roll_dfs(c, f, cfg.depth, nullptr);
            g_roll_nodes += c.nodes; g_eval += c.ev; g_roll_forgot += c.forgot;
        }
    });
    (void)cut;
    std::string d;
    for (auto& c : cfgs) if (c.fp == 0.5) d += "n" + S(c.n) + (c.mode ? "/deep" : "/full") + "=" + S(c.depth) + " ";
    vx::ev().set_str("rolling_depths", d);
    vx::ev().set("rolling_histories", g_roll_nodes.load());
    vx::ev().sample("rolling: every insert history to depth [" + d + "] (full = all sequences over n+2 symbols; deep = advance/repeat-last/repeat-oldest-in-window) x 2 (fp,tweak): last n insert()s contained; histories=" + S(g_roll_nodes.load()));
    for (size_t i = 0; i < cfgs.size(); i++) g_distinct.add("roll" + S(i));
}

// ------------------------------------------------------------------------------------------------ part 4: partial merkle tree
class PMT : public CPartialMerkleTree
{
public:
    using CPartialMerkleTree::CPartialMerkleTree;
    std::vector<bool>& bits() { return vBits; }
    std::vector<uint256>& hashes() { return vHash; }
    unsigned int& ntx() { return nTransactions; }
};

static std::atomic<uint64_t> g_pmt_tamper_reject{0}, g_pmt_tamper_sameroot{0}, g_pmt_dup_lists{0}, g_pmt_dup_rejected{0};

// soundness oracle for an arbitrary (possibly tampered) tree: if it authenticates to the real root, every extracted
// (txid, position) is a real (txid, position) of the block, positions strictly increasing, and the tree claims n txs.
static void pmt_check_sound(PMT t, const std::vector<uint256>& txids, const uint256& root, const std::string& id, const std::string& what, bool must_reject)
{
    std::vector<Txid> m;
    std::vector<unsigned int> idx;
    uint256 got = t.ExtractMatches(m, idx);
    if (got != root || got.IsNull()) { g_pmt_tamper_reject++; return; }
    g_pmt_tamper_sameroot++;
    bool bad = must_reject || m.size() != idx.size();
    for (size_t i = 0; !bad && i < m.size(); i++) {
        if (idx[i] >= txids.size() || txids[idx[i]] != m[i].ToUint256()) bad = true;
        if (i && idx[i] <= idx[i - 1]) bad = true;
    }
    if (must_reject) {
        vx::violation("pmt-malformed-accepted-" + what, "malformed partial merkle tree (" + what + ": damaged/missing/excess hashes or excess flag bytes) is accepted and authenticates to the block's merkle root: " + id, "part pmt\n" + id + "\ntamper " + what);
        return;
    }
    if (bad) vx::violation("pmt-forged-" + what, "tampered partial merkle tree (" + what + ") authenticates to the block's merkle root with matches that are not (txid, position) pairs of the block: " + id, "part pmt\n" + id + "\ntamper " + what);
}

static void part_pmt(bool big)
{
    const unsigned maxn = big ? 16 : 12;
    const unsigned tamper_maxn = big ? 11 : 9;
    struct Unit { unsigned n; uint64_t lo, hi; };
    std::vector<Unit> units;
    for (unsigned n = 1; n <= maxn; n++) {
        uint64_t tot = 1ULL << n;
        for (uint64_t lo = 0; lo < tot; lo += 256) units.push_back({n, lo, std::min(tot, lo + 256)});
    }
    std::vector<std::vector<uint256>> txs(maxn + 1);
    std::vector<uint256> roots(maxn + 1);
    for (unsigned n = 1; n <= maxn; n++) {
        for (unsigned i = 0; i < n; i++) {
            unsigned char seed[2] = {(unsigned char)n, (unsigned char)i};
            txs[n].push_back(ref_sha256d(seed, 2));
        }
        roots[n] = ref_merkle_root(txs[n]);
    }
    vx::par_for(units.size(), 1, [&](uint64_t ulo, uint64_t uhi, unsigned) {
        for (uint64_t ui = ulo; ui < uhi; ui++) {
            const unsigned n = units[ui].n;
            const auto& tx = txs[n];
            std::vector<Txid> vtx;
            for (auto& h : tx) vtx.push_back(Txid::FromUint256(h));
            for (uint64_t sub = units[ui].lo; sub < units[ui].hi; sub++) {
                if (vx::rep().violations > 20) return;
                std::string id = "n=" + S(n) + " matches=" + S(sub);
                std::vector<bool> vm(n);
                std::vector<Txid> wantm;
                std::vector<unsigned> wanti;
                for (unsigned i = 0; i < n; i++) if (sub >> i & 1) { vm[i] = true; wantm.push_back(vtx[i]); wanti.push_back(i); }
                PMT t(vtx, vm);
                uint64_t ev = 0;
                auto check_exact = [&](PMT& x, const char* what) {
                    std::vector<Txid> m;
                    std::vector<unsigned> idx;
                    uint256 r = x.ExtractMatches(m, idx);
                    ev++;
                    if (r != roots[n])
                        vx::violation(std::string("pmt-root-") + what, std::string("ExtractMatches (") + what + ") does not return the block's merkle root: " + id + " got=" + r.ToString(), "part pmt\n" + id);
                    else if (m != wantm || idx != wanti)
                        vx::violation(std::string("pmt-matches-") + what, std::string("ExtractMatches (") + what + ") does not return exactly the matched txids/positions: " + id + " got " + S(m.size()) + " matches", "part pmt\n" + id);
                    ev++;
                    if (x.GetNumTransactions() != n) vx::violation("pmt-ntx", "GetNumTransactions wrong: " + id, "part pmt\n" + id);
                };
                check_exact(t, "built");
                // serialisation round trip (bits are padded to a byte on the wire)
                DataStream ss;
                ss << t;
                PMT t2;
                ss >> t2;
                check_exact(t2, "deserialised");
                // wire size bound from the class documentation: at most 10 + (258*N+7)/8 bytes for N matched leaves... (not checked: documentation only)
                if (sub) g_distinct.add("pmt" + S(n) + "/" + S(sub));
                if (n <= tamper_maxn) {
                    // every single-bit flip of the flag bits, every hash damaged (one bit, position varies), truncations, extensions
                    for (size_t b = 0; b < t2.bits().size(); b++) {
                        PMT x = t2;
                        x.bits()[b] = !x.bits()[b];
                        ev++;
                        pmt_check_sound(x, tx, roots[n], id + " flipbit=" + S(b), "bitflip", false);
                    }
                    for (size_t h = 0; h < t.hashes().size(); h++) {
                        PMT x = t;
                        unsigned bit = (unsigned)((h * 37 + sub * 11 + n) % 256);
                        x.hashes()[h].begin()[bit >> 3] ^= 1 << (bit & 7);
                        ev++;
                        // a damaged hash can never give the real root (would be a sha256d collision)
                        pmt_check_sound(x, tx, roots[n], id + " damagedhash=" + S(h), "hashdamage", true);
                        if (h + 1 < t.hashes().size()) {
                            PMT y = t;
                            std::swap(y.hashes()[h], y.hashes()[h + 1]);
                            ev++;
                            pmt_check_sound(y, tx, roots[n], id + " swappedhash=" + S(h), "hashswap", true);
                        }
                    }
                    {
                        PMT x = t; x.hashes().pop_back(); ev++;
                        pmt_check_sound(x, tx, roots[n], id + " drop-last-hash", "hashdrop", true);
                        PMT y = t; y.hashes().push_back(tx[0]); ev++;
                        pmt_check_sound(y, tx, roots[n], id + " extra-hash", "hashextra", true);
                        PMT z = t2; for (int i = 0; i < 8; i++) z.bits().push_back(false); ev++;
                        pmt_check_sound(z, tx, roots[n], id + " extra-bit-byte", "bitsextra", true);
                        PMT w = t; w.bits().pop_back(); ev++;
                        pmt_check_sound(w, tx, roots[n], id + " drop-last-bit", "bitdrop", false);
                        for (int dn = -1; dn <= 1; dn += 2) {
                            if ((int)n + dn < 1) continue;
                            PMT v = t; v.ntx() = n + dn; ev++;
                            pmt_check_sound(v, tx, roots[n], id + " ntx" + (dn > 0 ? "+1" : "-1"), "ntx", false);
                        }
                    }
                }
                g_eval += ev;
            }
        }
    });
    // CVE-2012-2459 family: a longer tx list with duplicated tail that has the same merkle root must never authenticate
    uint64_t dupcases = 0;
    for (unsigned n = 2; n <= std::min(maxn, 12u); n++) {
        unsigned cap = 1;
        while (cap < n) cap <<= 1;
        // full duplication closure of the list
        std::vector<uint256> full = txs[n];
        {
            // expand level by level: leaf list of the perfect tree that the duplicating algorithm effectively hashes
            std::vector<std::vector<uint256>> groups; // each leaf group = the leaves under one node of the current level
            std::vector<std::vector<uint256>> cur;
            for (auto& h : txs[n]) cur.push_back({h});
            while (cur.size() > 1) {
                if (cur.size() & 1) cur.push_back(cur.back());
                std::vector<std::vector<uint256>> nx;
                for (size_t i = 0; i < cur.size(); i += 2) { auto g = cur[i]; g.insert(g.end(), cur[i + 1].begin(), cur[i + 1].end()); nx.push_back(g); }
                cur.swap(nx);
            }
            full = cur[0];
        }
        for (unsigned n2 = n + 1; n2 <= full.size() && n2 <= 16; n2++) {
            std::vector<uint256> l2(full.begin(), full.begin() + n2);
            if (ref_merkle_root(l2) != roots[n]) continue;
            g_pmt_dup_lists++;
            std::vector<Txid> vtx;
            for (auto& h : l2) vtx.push_back(Txid::FromUint256(h));
            const uint64_t tot = 1ULL << n2;
            std::atomic<uint64_t> cnt{0};
            vx::par_for(tot, 64, [&](uint64_t lo, uint64_t hi, unsigned) {
                for (uint64_t sub = lo; sub < hi; sub++) {
                    std::vector<bool> vm(n2);
                    for (unsigned i = 0; i < n2; i++) vm[i] = sub >> i & 1;
                    PMT t(vtx, vm);
                    std::vector<Txid> m;
                    std::vector<unsigned> idx;
                    uint256 r = t.ExtractMatches(m, idx);
                    cnt++;
                    bool touches_dup = (sub >> n) != 0; // a match inside the duplicated tail
                    if (r == roots[n]) {
                        bool forged = touches_dup || m.size() != idx.size();
                        for (size_t i = 0; !forged && i < m.size(); i++) if (idx[i] >= n || txs[n][idx[i]] != m[i].ToUint256()) forged = true;
                        if (forged)
                            vx::violation("pmt-duplicate-forgery",
                                          "tree over a " + S(n2) + "-entry list with duplicated tail authenticates to the root of the " + S(n) + "-tx block with a match in the duplicated region (CVE-2012-2459): matches=" + S(sub),
                                          "part pmt-dup\nn " + S(n) + "\nn2 " + S(n2) + "\nmatches " + S(sub));
                    } else if (touches_dup) g_pmt_dup_rejected++;
                }
            });
            dupcases += cnt;
            g_eval += cnt;
        }
    }
    // CMerkleBlock over a real CBlock with a txid set and with a bloom filter
    {
        for (unsigned n = 1; n <= (big ? 9u : 7u); n++) {
            CBlock block;
            for (unsigned j = 0; j < n; j++) {
                CMutableTransaction tx;
                tx.nLockTime = j;
                tx.vin.resize(1);
                tx.vout.emplace_back(j, CScript() << OP_TRUE);
                block.vtx.push_back(MakeTransactionRef(std::move(tx)));
            }
            std::vector<uint256> ids;
            for (auto& t : block.vtx) ids.push_back(t->GetHash().ToUint256());
            uint256 root = ref_merkle_root(ids);
            block.hashMerkleRoot = root;
            for (uint64_t sub = 0; sub < (1ULL << n); sub++) {
                std::set<Txid> want;
                std::vector<Txid> wantv;
                std::vector<unsigned> wanti;
                CBloomFilter bf(20, 0.0000001, 0, BLOOM_UPDATE_NONE);
                for (unsigned i = 0; i < n; i++) if (sub >> i & 1) { want.insert(block.vtx[i]->GetHash()); wantv.push_back(block.vtx[i]->GetHash()); wanti.push_back(i); bf.insert(block.vtx[i]->GetHash().ToUint256()); }
                for (int mode = 0; mode < 2; mode++) {
                    CMerkleBlock mb = mode ? CMerkleBlock(block, bf) : CMerkleBlock(block, want);
                    DataStream ss;
                    ss << mb;
                    CMerkleBlock mb2;
                    ss >> mb2;
                    std::vector<Txid> m;
                    std::vector<unsigned> idx;
                    uint256 r = mb2.txn.ExtractMatches(m, idx);
                    g_eval++;
                    bool superset_ok = true; // bloom mode may add false positives: matches must be a superset made of real (txid,pos)
                    if (mode) {
                        for (auto& w : wantv) if (std::find(m.begin(), m.end(), w) == m.end()) superset_ok = false;
                        for (size_t i = 0; i < m.size(); i++) if (idx[i] >= n || block.vtx[idx[i]]->GetHash() != m[i]) superset_ok = false;
                        if (mb.vMatchedTxn.size() != m.size()) superset_ok = false;
                    }
                    if (r != root || mb2.header.GetHash() != block.GetHash() || (mode ? !superset_ok : (m != wantv || idx != wanti)))
                        vx::violation(mode ? "merkleblock-bloom" : "merkleblock-txids", "CMerkleBlock does not prove exactly the requested transactions: n=" + S(n) + " subset=" + S(sub), "part merkleblock\nn " + S(n) + "\nsubset " + S(sub) + "\nmode " + S(mode));
                }
            }
        }
    }
    vx::ev().set("pmt_max_txs", maxn);
    vx::ev().set("pmt_tamper_max_txs", tamper_maxn);
    vx::ev().set("pmt_duplicate_tail_cases", dupcases);
    vx::ev().sample("pmt: n=1.." + S(maxn) + " x every match subset (built + deserialised); tampering for n<=" + S(tamper_maxn) + ": rejected=" + S(g_pmt_tamper_reject.load()) + " same-root-but-sound=" + S(g_pmt_tamper_sameroot.load()) + "; duplicate-tail lists=" + S(g_pmt_dup_lists.load()) + " cases=" + S(dupcases));
}

int main(int argc, char** argv)
{
    vx::init(argc, argv, "C51", "exploration");
    auto& E = vx::ev();
    const bool big = vx::thorough();
    if (!vx::ctx().replay.empty()) {
        std::ifstream f(vx::ctx().replay);
        std::string l;
        printf("replay case (re-run the tier to re-check; the case is identified by these lines):\n");
        while (std::getline(f, l)) printf("  %s\n", l.c_str());
    }
    if (!ref_selftest()) {
        printf("HARNESS-ERROR reference BIP158 encoder fails the published testnet-genesis vector\n");
        return 2;
    }
    if (ref_murmur3(0, {}) != 0 || ref_murmur3(0xFBA4C795u, {}) != 0x6a396f08u || ref_murmur3(0xFBA4C795u, {0x00}) != 0xea3f0b17u || ref_murmur3(0, {0x00, 0x11, 0x22}) != 0x8eb51c3du ||
        ref_murmur3(0, {0x00, 0x11, 0x22, 0x33, 0x44, 0x55, 0x66, 0x77, 0x88}) != 0xb4698defu) {
        printf("HARNESS-ERROR reference murmur3 fails published vectors\n");
        return 2;
    }
    part_gcs(big);
    part_blockfilter(big);
    part_bloom_sets(big);
    part_bloom_update(big);
    part_pmt(big);
    part_rolling(big);
    // sanity gates: the interesting branches were really taken
    struct G { const char* name; uint64_t v; } gates[] = {
        {"gcs zero delta (hash collision inside a filter)", g_gcs.zero_delta}, {"gcs unary run > 64 bits", g_gcs.long_unary},
        {"gcs false positive (exact-compare is meaningful)", g_gcs.false_pos}, {"gcs MatchAny true", g_gcs.any_true}, {"gcs MatchAny false", g_gcs.any_false},
        {"gcs truncated rejected", g_gcs.decode_reject}, {"bloom false positive", g_bloom_fp}, {"bloom empty (match-all) filter", g_bloom_empty},
        {"bloom size capped at 36000", g_bloom_capped}, {"rolling filter forgot an old item", g_roll_forgot}, {"pmt tamper rejected", g_pmt_tamper_reject},
        {"pmt tamper same root but sound", g_pmt_tamper_sameroot}, {"pmt duplicate-tail lists", g_pmt_dup_lists}, {"pmt duplicate-tail forgery rejected", g_pmt_dup_rejected}};
    for (auto& g : gates)
        if (!g.v && vx::rep().violations == 0) {
            printf("HARNESS-ERROR outcome class never occurred: %s\n", g.name);
            return 2;
        }
    E.evaluations = g_eval.load();
    E.distinct_nontrivial = g_distinct.size();
    E.rule = "GCS: every subset of a " + std::string(big ? "10" : "8") + "-element universe x 7 (P,M) x 3 keys: encoding == BIP158 reference, Match exact for every element, MatchAny exact for every query subset, decode round trip, excess/truncated rejected; "
             "BlockFilter: every 2-tx block shape over a script alphabet; CBloomFilter: parameter grid x all subsets vs BIP37 bit reference; IsRelevantAndUpdate: tx shapes x filters x flags x inserted subsets vs BIP37 rule; "
             "CRollingBloomFilter n=2..6: every insert history to the stated depths, last n inserts contained; CPartialMerkleTree: n=1..max x every match subset, exact extraction, single-fault tampering soundness, duplicate-tail lists rejected. "
             "distinct = distinct non-empty filters (by encoding) / distinct (n,match set) trees / distinct update outcomes";
    E.exhaustive = true;
    E.assume("SHA256d collision resistance (a damaged hash never authenticates)");
    E.assume("rolling filter oracle is one-directional: only 'last n insert() calls are contained' (false positives allowed)");
    return vx::finish();
}
