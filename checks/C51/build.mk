LINK := full
