// C09 — The UTXO set depends only on the active chain, not on the reorg history.
// chainsim: tx-rich valid block menu on tip / tip-1 / tip-2, cache flushes, InvalidateBlock / ReconsiderBlock.
// In every reached state the node's UTXO view (through the cache stack, and through a DB cursor after a flush)
// must equal the reference ledger's replay of the active chain from genesis.
#include <kits/chainsim_main.h>
int main(int argc, char** argv)
{
    return cs::Main(argc, argv, "C09", {}, [](cs::Sim& s) {
        cs::Plan p;
        s.kinds = {"spend1", "chain2", "merge2", "spendlast", "opret_mid", "opret", "empty"};
        s.parents = {"t0", "t1", "t2"};
        s.ev_flush = s.ev_invalidate = s.ev_reconsider = true;
        p.depth = vx::thorough() ? 5 : 3;
        s.max_new_blocks = p.depth;
        p.what = "oracle: UTXO view through the cache stack and (post-order) through a DB cursor == reference replay of the active chain from genesis";
        return p;
    });
}
