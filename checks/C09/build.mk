LINK := full
KITS := chainkit
