// C64 — A malleated copy of a transaction cannot censor the genuine one.
//
// Engine: VX-STATE by history replay (kits/histbfs.h). Object under test: the real node::TxDownloadManagerImpl
// (orphanage, TxRequestTracker, reject filters) wired to the real mempool of an in-process regtest node exactly as
// net_processing wires it (the handlers below are transcriptions of the INV / TX / NOTFOUND / orphan-work /
// getdata-scheduling / FinalizeNode / BlockConnected code paths of PeerManagerImpl).
//
// Universe. Mode 1: G spends a confirmed P2WSH(OP_DROP OP_TRUE) coin with witness [01, script]; same-txid copies
//   Gb (witness script does not match the program), Gs (witness stripped), Gx (81-byte stack item: consensus-valid,
//   witness non-standard). Mode 2 (orphan forms): parent P (unconfirmed, not yet known) creates that coin, G/Gb/Gs/Gx
//   spend P:0; P itself can be delivered.
// Peers: A (attacker, wtxid relay, inbound), H (wtxid relay, outbound/preferred), T (txid relay, inbound).
// Events: deliver(copy, peer), announce(hash, peer), clock +2s / +60s, getdata scheduling per peer, notfound, disconnect,
//   orphan work per peer, block connected (reject filters reset), 1-block reorg.
//
// Oracle, evaluated in EVERY reachable state in which G is not in the mempool (destructive probe on the replayed state):
//   1. unless G itself sits in the orphanage, AlreadyHaveTx(wtxid(G)) is false;
//   2. a fresh wtxid-relay peer F announcing wtxid(G) is not told "already have";
//   3. with nobody answering, F is asked for wtxid(G) within 250 s (every other announcer may stall for its 60 s);
//   4. when F then delivers G (and, in mode 2, P if it is still missing, followed by the orphan work) G is validated
//      and ends up in the mempool.
#include <vx/vx.h>
#include <malloc.h>
#include <kits/histbfs.h>
#include <kits/chainkit.h>
#include <kits/p2pkit.h>

#include <addresstype.h>
#include <chainparams.h>
#include <node/txdownloadman_impl.h>
#include <policy/packages.h>
#include <random.h>
#include <test/util/random.h>
#include <txmempool.h>
#include <util/time.h>
#include <validation.h>

using namespace ck;
using namespace std::chrono_literals;
using node::TxDownloadManagerImpl;

namespace {

Node* N = nullptr;
int64_t T0 = 0;
int MODE = 1;

CTransactionRef G, Gb, Gs, Gx, P, Pb, Ps, Px, P2;   // P2: second parent, mode 3 only
std::vector<std::pair<std::string, CTransactionRef>> NAMED_TX; // for the canonical key
std::vector<CTransactionRef> PARENTS;     // P and its malleated copies only in mode 2
enum { PA = 0, PH = 1, PT = 2, PF = 9 };
const char* peer_name(int p) { return p == PA ? "A" : p == PH ? "H" : p == PT ? "T" : "F"; }

struct Named { std::string name; uint256 h; };
std::vector<Named> UNIVERSE; // hashes that can appear anywhere

std::string name_of(const uint256& h)
{
    for (auto& u : UNIVERSE) if (u.h == h) return u.name;
    return "?" + h.ToString().substr(0, 8);
}

enum OpT { DEL, ANN, CLK, REQ, NF, DISC, ORPH, BLOCK, REORG };
struct Op { OpT t; int peer; int x; std::string label; };
std::vector<Op> OPS;

// gates
uint64_t g_stripped, g_reject_filter, g_orphan_kept, g_orphan_rejected, g_filter_reset, g_probe_accept, g_probe_orphan_path, g_req_immediate, g_req_after_stall,
    g_pkg, g_probe_skipped_inpool, g_g_in_orphanage, g_mutated_witness;

CScript DropTrue() { return CScript() << OP_DROP << OP_TRUE; }
CScript DropTrueSpk() { return GetScriptForDestination(WitnessV0ScriptHash(DropTrue())); }

CTransactionRef WithWitness(const CTransactionRef& base, const std::vector<std::vector<unsigned char>>& stack)
{
    CMutableTransaction m(*base);
    m.vin[0].scriptWitness.stack = stack;
    return MakeTransactionRef(m);
}

std::string describe(const std::string& hist)
{
    std::string s = "# mode " + std::to_string(MODE) + (MODE == 1 ? " (G spends a confirmed coin)" : MODE == 2 ? " (G spends output 0 of the unconfirmed parent P)" : " (G spends outputs of two unconfirmed parents P1, P2; the malleated copy M=Gb sorts before G by wtxid)") + "\n";
    for (unsigned char c : hist) s += std::to_string((int)c) + " " + OPS[c].label + "\n";
    return s;
}
// Failures of the probe are collected per replay; replay() attributes them to the malleated copies by comparing with
// the same history without those copies (the property speaks about what a copy *causes*).
std::vector<std::pair<std::string, std::string>> g_fails;
void fail(const std::string& key, const std::string& what, const std::string&) { g_fails.emplace_back(key, what); }
bool IsCopyOp(const Op& o) { return (o.t == DEL && ((o.x >= 1 && o.x <= 3) || (o.x >= 5 && o.x <= 7))) || (o.t == ANN && o.x == 2); }
uint64_t g_baseline_fail;
constexpr int N_VARIANTS = 8;
std::string g_baseline_sample;

// ---------------------------------------------------------------------------------- the wiring (transcribed from net_processing.cpp)
struct Wiring {
    FastRandomContext rng;
    TxDownloadManagerImpl dm;
    int64_t now_s;
    std::set<int> connected;
    std::map<int, bool> wtxid_relay;

    // variant 0 is the deterministic context the exploration uses; other variants only change the node's internal coin flips
    // (which announcer of an orphan gets the reconsideration work)
    explicit Wiring(int variant = 0) : rng(uint256{(uint8_t)variant}), dm(node::TxDownloadOptions{N->pool(), rng, /*deterministic_txrequest=*/true}), now_s(T0) { SetMockTime(now_s); }
    std::chrono::microseconds now() const { return std::chrono::seconds{now_s}; }

    void Connect(int p, bool preferred, bool relay_perm, bool wtxid)
    {
        dm.ConnectedPeer(p, node::TxDownloadConnectionInfo{preferred, relay_perm, wtxid}); // VERACK
        connected.insert(p);
        wtxid_relay[p] = wtxid;
    }
    void Disconnect(int p) { dm.DisconnectedPeer(p); connected.erase(p); } // FinalizeNode
    // INV: a wtxid-relay peer's MSG_TX invs and a txid-relay peer's MSG_WTX invs are ignored
    bool Inv(int p, const GenTxid& g)
    {
        if (wtxid_relay[p] != g.IsWtxid()) return false;
        return dm.AddTxAnnouncement(p, g, now());
    }
    std::vector<GenTxid> Requests(int p) { return dm.GetRequestsToSend(p, now()); } // SendMessages
    void NotFound(int p, const std::vector<GenTxid>& v) { dm.ReceivedNotFound(p, v); }
    void Package(const node::PackageToValidate& pkg)
    {
        g_pkg++;
        const auto res{WITH_LOCK(cs_main, return ProcessNewPackage(N->cs(), N->pool(), pkg.m_txns, /*test_accept=*/false, /*client_maxfeerate=*/std::nullopt))};
        if (res.m_state.IsInvalid()) dm.MempoolRejectedPackage(pkg.m_txns);
        if (pkg.m_txns.size() != 2) return;
        for (int i = 1; i >= 0; i--) {
            const auto& tx = pkg.m_txns[i];
            auto it = res.m_tx_results.find(tx->GetWitnessHash());
            if (it == res.m_tx_results.end()) continue;
            if (it->second.m_result_type == MempoolAcceptResult::ResultType::VALID) dm.MempoolAcceptedTx(tx);
            else if (it->second.m_result_type != MempoolAcceptResult::ResultType::MEMPOOL_ENTRY) (void)dm.MempoolRejectedTx(tx, it->second.m_state, pkg.m_senders[i], /*first_time_failure=*/false);
        }
    }
    // TX message. Returns the validation result if the tx was handed to the mempool.
    std::optional<MempoolAcceptResult> Tx(int p, const CTransactionRef& tx)
    {
        const auto [should_validate, pkg] = dm.ReceivedTx(p, tx);
        if (!should_validate) {
            if (pkg) Package(*pkg);
            return std::nullopt;
        }
        const MempoolAcceptResult result = N->SubmitTx(tx);
        if (result.m_result_type == MempoolAcceptResult::ResultType::VALID) dm.MempoolAcceptedTx(tx); // ProcessValidTx
        if (result.m_state.IsInvalid()) {                                                             // ProcessInvalidTx
            if (result.m_state.GetResult() == TxValidationResult::TX_WITNESS_STRIPPED) g_stripped++;
            if (result.m_state.GetResult() == TxValidationResult::TX_WITNESS_MUTATED) g_mutated_witness++;
            if (result.m_state.GetResult() == TxValidationResult::TX_MISSING_INPUTS) g_orphan_kept++;
            auto todo = dm.MempoolRejectedTx(tx, result.m_state, p, /*first_time_failure=*/true);
            if (todo.m_package_to_validate) Package(*todo.m_package_to_validate);
        }
        return result;
    }
    // ProcessOrphanTx
    bool OrphanWork(int p)
    {
        while (CTransactionRef tx = dm.GetTxToReconsider(p)) {
            const MempoolAcceptResult result = N->SubmitTx(tx);
            if (result.m_result_type == MempoolAcceptResult::ResultType::VALID) { dm.MempoolAcceptedTx(tx); return true; }
            if (result.m_state.GetResult() != TxValidationResult::TX_MISSING_INPUTS) {
                g_orphan_rejected++;
                (void)dm.MempoolRejectedTx(tx, result.m_state, p, /*first_time_failure=*/false);
                return true;
            }
        }
        return false;
    }
    void Block(int salt)
    {
        auto b = std::make_shared<CBlock>();
        CMutableTransaction cb;
        cb.vin.resize(1);
        cb.vin[0].scriptSig = CScript() << 4242 << salt;
        cb.vout.emplace_back(50 * COIN, OpTrueSpk());
        b->vtx.push_back(MakeTransactionRef(cb));
        dm.ActiveTipChange();   // synchronous callback, resets the reject filters
        dm.BlockConnected(b);
        g_filter_reset++;
    }
    void Advance(int s) { now_s += s; SetMockTime(now_s); }
};

void ClearPool()
{
    LOCK2(cs_main, N->pool().cs);
    for (auto& info : N->pool().infoAll())
        if (N->pool().exists(info.tx->GetHash())) N->pool().removeRecursive(*info.tx, MemPoolRemovalReason::CONFLICT);
    if (N->pool().size() != 0) {
        printf("HARNESS-ERROR property=C64 mode %d mempool not empty after reset:", MODE);
        for (auto& i : N->pool().infoAll()) printf(" %s", name_of(i.tx->GetWitnessHash().ToUint256()).c_str());
        printf("\n");
        exit(2);
    }
}

bool InPool(const CTransactionRef& t) { return N->pool().exists(t->GetWitnessHash()); }

std::string Observe(Wiring& w)
{
    std::string k;
    k += "pool:";
    for (auto& t : NAMED_TX) if (t.second && InPool(t.second)) k += t.first + ",";
    if (N->pool().exists(G->GetHash()) && !InPool(G) && !InPool(Gb) && !InPool(Gx)) k += "Gs,";
    k += " orph:";
    {
        std::vector<std::string> v;
        for (auto& o : w.dm.GetOrphanTransactions()) {
            std::string s = name_of(o.tx->GetWitnessHash().ToUint256()) + "@";
            for (auto a : o.announcers) s += peer_name((int)a);
            v.push_back(s);
        }
        std::sort(v.begin(), v.end());
        for (auto& s : v) k += s + ",";
    }
    k += " filt:";
    for (auto& u : UNIVERSE) {
        // the filters are created lazily; an absent filter contains nothing
        int bits = (w.dm.m_lazy_recent_rejects && w.dm.m_lazy_recent_rejects->contains(u.h) ? 1 : 0) |
                   (w.dm.m_lazy_recent_rejects_reconsiderable && w.dm.m_lazy_recent_rejects_reconsiderable->contains(u.h) ? 2 : 0) |
                   (w.dm.m_lazy_recent_confirmed_transactions && w.dm.m_lazy_recent_confirmed_transactions->contains(u.h) ? 4 : 0);
        k += std::to_string(bits);
    }
    k += " peers:";
    for (int p : {PA, PH, PT}) {
        if (!w.connected.count(p)) { k += "-;"; continue; }
        k += std::to_string(w.dm.m_txrequest.Count(p)) + "/" + std::to_string(w.dm.m_txrequest.CountInFlight(p)) + "/" + std::to_string(w.dm.m_txrequest.CountCandidates(p)) + (w.dm.HaveMoreWork(p) ? "w" : "") + ";";
    }
    k += " cand:";
    for (auto& u : UNIVERSE) {
        std::vector<NodeId> v;
        w.dm.m_txrequest.GetCandidatePeers(u.h, v);
        std::sort(v.begin(), v.end());
        for (auto p : v) k += peer_name((int)p);
        k += "|";
    }
    return k;
}

// Destructive probe: oracle + behavioural signature of the hidden request-scheduling state.
std::string Probe(Wiring& w, const std::string& hist)
{
    std::string sig;
    const GenTxid wG{G->GetWitnessHash()};
    const bool g_in_orphanage = w.dm.m_orphanage->HaveTx(G->GetWitnessHash());
    if (g_in_orphanage) g_g_in_orphanage++;
    // 1
    if (!g_in_orphanage && w.dm.AlreadyHaveTx(wG, /*include_reconsiderable=*/true))
        fail("C64-alreadyhave", "AlreadyHaveTx(wtxid(G)) is true although G is neither in the mempool nor in the orphanage", hist);
    // 2
    w.Connect(PF, /*preferred=*/false, /*relay_perm=*/false, /*wtxid=*/true);
    const bool dropped = w.Inv(PF, wG);
    if (dropped && !g_in_orphanage) fail("C64-announcement-dropped", "announcement of wtxid(G) by a fresh wtxid-relay peer was dropped as already known", hist);
    // 3
    bool asked = false;
    int asked_at = -1;
    const int steps[] = {0, 2, 2, 2, 2, 60, 2, 60, 2, 60, 2};
    int t = 0;
    for (int st : steps) {
        w.Advance(st);
        t += st;
        for (int p : {PA, PH, PT, PF}) {
            if (!w.connected.count(p)) continue;
            auto reqs = w.Requests(p);
            if (reqs.empty()) continue;
            sig += "t" + std::to_string(t) + peer_name(p) + ":";
            for (auto& r : reqs) {
                sig += (r.IsWtxid() ? "w" : "t") + name_of(r.ToUint256()) + ",";
                if (p == PF && r.IsWtxid() && r.ToUint256() == G->GetWitnessHash().ToUint256() && !asked) { asked = true; asked_at = t; }
            }
        }
    }
    if (!dropped) {
        if (!asked) fail("C64-not-requested", "the fresh wtxid-relay peer that announced wtxid(G) was not asked for it within 194 s although nobody delivered it", hist);
        else if (asked_at <= 8) g_req_immediate++; else g_req_after_stall++;
    }
    // 4
    auto r = w.Tx(PF, G);
    if (!r && !g_in_orphanage) fail("C64-not-validated", "G delivered by the announcing peer was dropped without validation (treated as already known)", hist);
    if (MODE >= 2 && !InPool(G)) {
        g_probe_orphan_path++;
        for (auto& par : PARENTS) {
            if (!InPool(par)) (void)w.Tx(PF, par);
            if (!InPool(par)) fail("C64-parent-not-accepted", "a valid parent was not accepted", hist);
        }
        for (int round = 0; round < 8; round++) {
            bool any = false;
            for (int p : {PA, PH, PT, PF}) if (w.connected.count(p)) any |= w.OrphanWork(p);
            if (!any) break;
        }
        if (!InPool(G) && !w.dm.m_orphanage->HaveTx(G->GetWitnessHash())) {
            // G was not kept as an orphan: the peer sends it once more now that the parent is there
            (void)w.Tx(PF, G);
        }
    }
    if (!InPool(G)) fail("C64-not-accepted", std::string("the genuine transaction G is not in the mempool after being delivered") + (MODE >= 2 ? " together with its parent(s)" : ""), hist);
    else g_probe_accept++;
    return sig;
}

bool replay_raw(const std::string& hist, std::string& key, int variant = 0, bool skip_disabled = false)
{
    g_fails.clear();
    ClearPool();
    Wiring w(variant);
    w.Connect(PA, /*preferred=*/false, false, /*wtxid=*/true);
    w.Connect(PH, /*preferred=*/true, false, /*wtxid=*/true);
    w.Connect(PT, /*preferred=*/false, false, /*wtxid=*/false);
    int nblocks = 0;
    for (size_t i = 0; i < hist.size(); i++) {
        const Op& o = OPS[(unsigned char)hist[i]];
        const bool last = !skip_disabled && i + 1 == hist.size(); // (a baseline run treats a disabled event as a no-op)
        if (o.t != CLK && o.t != BLOCK && o.t != REORG && !w.connected.count(o.peer)) { if (last) return false; continue; }
        switch (o.t) {
        case DEL: {
            CTransactionRef tx = o.x == 0 ? G : o.x == 1 ? Gb : o.x == 2 ? Gs : o.x == 3 ? Gx : o.x == 4 ? P : o.x == 5 ? Pb : o.x == 6 ? Ps : o.x == 7 ? Px : P2;
            if (InPool(G)) { if (last) return false; break; } // G already accepted: nothing left to attack
            (void)w.Tx(o.peer, tx);
            break;
        }
        case ANN: {
            GenTxid g = o.x == 0 ? GenTxid{G->GetWitnessHash()} : o.x == 1 ? GenTxid{G->GetHash()} : GenTxid{Gb->GetWitnessHash()};
            (void)w.Inv(o.peer, g);
            break;
        }
        case CLK: w.Advance(o.x); break;
        case REQ: (void)w.Requests(o.peer); break;
        case NF: w.NotFound(o.peer, {GenTxid{G->GetWitnessHash()}, GenTxid{G->GetHash()}}); break;
        case DISC: w.Disconnect(o.peer); break;
        case ORPH:
            if (!w.dm.HaveMoreWork(o.peer)) { if (last) return false; break; }
            (void)w.OrphanWork(o.peer);
            break;
        case BLOCK: w.Block(++nblocks); break;
        case REORG: w.dm.BlockDisconnected(); w.Block(++nblocks); break;
        }
    }
    w.dm.m_txrequest.SanityCheck();
    w.dm.m_orphanage->SanityCheck();
    if (InPool(G)) {
        g_probe_skipped_inpool++;
        key = "G-in-pool"; // the property has nothing more to say
        return true;
    }
    key = Observe(w);
    for (auto& u : UNIVERSE) if (w.dm.m_lazy_recent_rejects && w.dm.m_lazy_recent_rejects->contains(u.h)) { g_reject_filter++; break; }
    key += " probe:" + Probe(w, hist);
    return true;
}

bool replay(const std::string& hist, std::string& key)
{
    const bool enabled = replay_raw(hist, key);
    if (g_fails.empty()) return enabled;
    auto fails = g_fails;
    // the same history without the malleated copies
    std::string base;
    for (unsigned char c : hist) if (!IsCopyOp(OPS[c])) base.push_back((char)c);
    // ... under every variant of the node's internal randomness that is tried: the copies must not be blamed for a coin flip
    std::set<std::string> base_keys;
    if (base != hist) {
        for (int variant = 0; variant < N_VARIANTS; variant++) {
            std::string k2;
            replay_raw(base, k2, variant, /*skip_disabled=*/true);
            for (auto& f : g_fails) base_keys.insert(f.first);
        }
    }
    for (auto& f : fails) {
        if (base == hist || base_keys.count(f.first)) {
            // G is not obtainable here even though no malleated copy was ever seen: not what this property is about
            g_baseline_fail++;
            if (g_baseline_sample.empty()) { g_baseline_sample = f.first + ": " + f.second + " | history without any malleated copy:"; for (unsigned char c : base) g_baseline_sample += " " + OPS[c].label + ";"; }
            continue;
        }
        vx::violation(f.first, f.second + " (the same history without the malleated copies passes)", describe(hist));
    }
    // leave the global node as replay_raw(hist) left it is not required: every replay starts with ClearPool()
    return enabled;
}

void BuildUniverse(int mode)
{
    MODE = mode;
    UNIVERSE.clear();
    OPS.clear();
    static std::vector<COutPoint> base_coin;
    static std::vector<CAmount> base_val;
    static COutPoint drop_coin[2];
    static CAmount drop_val[2];
    if (base_coin.empty()) {
        // base chain: blocks 1 and 2 pay to P2WSH(OP_DROP OP_TRUE), the others to P2WSH(OP_TRUE)
        const int nblocks = 120;
        T0 = Params().GenesisBlock().nTime + 600 * (int64_t)(nblocks + 1);
        SetMockTime(T0);
        for (int i = 0; i < nblocks; i++) {
            BlockOpts o;
            if (i < 2) o.coinbase_spk = DropTrueSpk();
            CBlock b = MakeBlock(*N, N->tip(), {}, o);
            auto r = N->ProcessBlock(b);
            if (N->tip()->GetBlockHash() != b.GetHash()) { printf("HARNESS-ERROR property=C64 base block rejected: %s\n", r.reason.c_str()); exit(2); }
            if (i < 2) { drop_coin[i] = COutPoint(b.vtx[0]->GetHash(), 0); drop_val[i] = b.vtx[0]->vout[0].nValue; }
            else { base_coin.push_back(COutPoint(b.vtx[0]->GetHash(), 0)); base_val.push_back(b.vtx[0]->vout[0].nValue); }
        }
    }
    const CAmount fee = 20000;
    COutPoint spend;
    CAmount v;
    const CScript ws = DropTrue();
    const std::vector<unsigned char> wsb(ws.begin(), ws.end());
    const CScript wrong = OpTrueScript();
    const std::vector<unsigned char> wrongb(wrong.begin(), wrong.end());
    P2 = nullptr;
    if (mode == 3) {
        // two unconfirmed parents; G spends P1:0 (OP_DROP OP_TRUE) and P2:0 (OP_TRUE). One malleated copy M (witness script
        // mismatch on input 0), chosen so that wtxid(M) < wtxid(G): the orphanage keeps the spenders of an outpoint ordered by wtxid.
        Pb = Ps = Px = nullptr;
        P = MakeTransactionRef(MakeTx({{base_coin[0]}}, {{base_val[0] - fee, DropTrueSpk()}}));
        P2 = MakeTransactionRef(MakeTx({{base_coin[1]}}, {{base_val[1] - fee, OpTrueSpk()}}));
        CTransactionRef base3 = MakeTransactionRef(MakeTx({{COutPoint(P->GetHash(), 0), 0xffffffff, false}, {COutPoint(P2->GetHash(), 0)}}, {{base_val[0] + base_val[1] - 3 * fee, OpTrueSpk()}}));
        G = WithWitness(base3, {{1}, wsb});
        Gb = nullptr;
        for (int k = 1; k < 256 && !Gb; k++) {
            CTransactionRef m = WithWitness(base3, {{(unsigned char)k}, wrongb});
            if (m->GetWitnessHash().ToUint256() < G->GetWitnessHash().ToUint256()) Gb = m;
        }
        if (!Gb || !(Gb->GetWitnessHash().ToUint256() < G->GetWitnessHash().ToUint256()) || Gb->GetHash() != G->GetHash()) { printf("HARNESS-ERROR property=C64 mode 3: no malleated copy with wtxid(M) < wtxid(G)\n"); exit(2); }
        CMutableTransaction st(*base3);
        for (auto& in : st.vin) in.scriptWitness.SetNull();
        Gs = MakeTransactionRef(st);
        Gx = WithWitness(base3, {std::vector<unsigned char>(81, 7), wsb});
        UNIVERSE = {{"G", G->GetWitnessHash().ToUint256()}, {"txid", G->GetHash().ToUint256()}, {"M", Gb->GetWitnessHash().ToUint256()},
                    {"P1", P->GetWitnessHash().ToUint256()}, {"P1txid", P->GetHash().ToUint256()}, {"P2", P2->GetWitnessHash().ToUint256()}, {"P2txid", P2->GetHash().ToUint256()}};
        NAMED_TX = {{"G", G}, {"M", Gb}, {"P1", P}, {"P2", P2}};
        PARENTS = {P, P2};
        auto add = [&](OpT t, int peer, int x, const std::string& l) { OPS.push_back(Op{t, peer, x, l}); };
        add(DEL, PA, 1, "A delivers M (same txid as G, witness script mismatch, wtxid(M) < wtxid(G))");
        add(DEL, PH, 0, "H delivers G");
        add(DEL, PH, 4, "H delivers P1");
        add(DEL, PH, 8, "H delivers P2");
        add(DEL, PA, 4, "A delivers P1");
        add(DEL, PA, 8, "A delivers P2");
        add(ANN, PH, 0, "H announces wtxid(G)");
        add(ANN, PA, 0, "A announces wtxid(G)");
        add(ANN, PA, 2, "A announces wtxid(M)");
        add(ORPH, PA, 0, "orphan work for A");
        add(ORPH, PH, 0, "orphan work for H");
        add(ORPH, PT, 0, "orphan work for T");
        add(DISC, PA, 0, "A disconnects");
        add(CLK, -1, 2, "clock +2s");
        return;
    }
    if (mode == 1) {
        P = Pb = Ps = Px = nullptr;
        spend = drop_coin[0];
        v = drop_val[0];
    } else {
        // the parent spends the second OP_DROP OP_TRUE coin, so it has the same three malleated forms
        CTransactionRef pbase = MakeTransactionRef(MakeTx({{drop_coin[1], 0xffffffff, false}}, {{drop_val[1] - fee, DropTrueSpk()}}));
        P = WithWitness(pbase, {{1}, wsb});
        Pb = WithWitness(pbase, {{1}, wrongb});
        Ps = pbase;
        Px = WithWitness(pbase, {std::vector<unsigned char>(81, 7), wsb});
        spend = COutPoint(P->GetHash(), 0);
        v = drop_val[1] - fee;
    }
    CTransactionRef base = MakeTransactionRef(MakeTx({{spend, 0xffffffff, false}}, {{v - fee, OpTrueSpk()}}));
    G = WithWitness(base, {{1}, wsb});
    Gb = WithWitness(base, {{1}, wrongb});
    Gs = base;
    Gx = WithWitness(base, {std::vector<unsigned char>(81, 7), wsb});
    UNIVERSE = {{"G", G->GetWitnessHash().ToUint256()}, {"txid", G->GetHash().ToUint256()}, {"Gb", Gb->GetWitnessHash().ToUint256()}, {"Gx", Gx->GetWitnessHash().ToUint256()}};
    NAMED_TX = {{"G", G}, {"Gb", Gb}, {"Gx", Gx}, {"P", P}};
    PARENTS.clear();
    if (P) PARENTS.push_back(P);
    if (P) for (auto& u : {Named{"P", P->GetWitnessHash().ToUint256()}, Named{"Ptxid", P->GetHash().ToUint256()}, Named{"Pb", Pb->GetWitnessHash().ToUint256()}, Named{"Px", Px->GetWitnessHash().ToUint256()}}) UNIVERSE.push_back(u);

    auto add = [&](OpT t, int peer, int x, const std::string& l) { OPS.push_back(Op{t, peer, x, l}); };
    add(DEL, PA, 1, "A delivers Gb (witness script mismatch)");
    add(DEL, PA, 2, "A delivers Gs (witness stripped)");
    add(DEL, PA, 3, "A delivers Gx (81-byte witness item)");
    add(DEL, PT, 2, "T delivers Gs (witness stripped)");
    add(ANN, PH, 0, "H announces wtxid(G)");
    add(ANN, PA, 0, "A announces wtxid(G)");
    add(ANN, PT, 1, "T announces txid(G)");
    add(ANN, PA, 2, "A announces wtxid(Gb)");
    add(CLK, -1, 2, "clock +2s");
    add(CLK, -1, 60, "clock +60s");
    add(REQ, PA, 0, "getdata scheduling for A");
    add(REQ, PH, 0, "getdata scheduling for H");
    add(REQ, PT, 0, "getdata scheduling for T");
    add(NF, PA, 0, "A: notfound {wtxid(G), txid(G)}");
    add(NF, PH, 0, "H: notfound {wtxid(G), txid(G)}");
    add(NF, PT, 0, "T: notfound {wtxid(G), txid(G)}");
    add(DISC, PA, 0, "A disconnects");
    add(DISC, PH, 0, "H disconnects");
    add(BLOCK, -1, 0, "block connected (unrelated)");
    add(REORG, -1, 0, "1-block reorg (unrelated)");
    if (mode == 2) {
        add(DEL, PH, 4, "H delivers P");
        add(DEL, PA, 5, "A delivers Pb (parent, witness script mismatch)");
        add(DEL, PA, 6, "A delivers Ps (parent, witness stripped)");
        add(DEL, PA, 7, "A delivers Px (parent, 81-byte witness item)");
        add(DEL, PH, 0, "H delivers G");
        add(ORPH, PA, 0, "orphan work for A");
        add(ORPH, PH, 0, "orphan work for H");
        add(ORPH, PT, 0, "orphan work for T");
    }
}


// ---------------------------------------------------------------------------------- end-to-end: the same scenarios through ProcessMessage
// A fresh PeerManager (kits/p2pkit) per history on the shared node; peers A (inbound), H (outbound-full-relay), T (inbound,
// txid relay), F (inbound, silent until the probe). After every event every peer gets one ProcessMessages + SendMessages
// round, as the message-handler thread does; getdata messages are read off the peers' sockets.
struct EOp { int kind; int peer; int x; std::string label; }; // kind 0: tx, 1: inv, 2: clock
std::vector<EOp> EOPS;
uint64_t g_e2e_hist, g_e2e_events, g_e2e_accept, g_e2e_getdata_fast, g_e2e_getdata_late, g_e2e_baseline_fail;

std::string e2e_describe(const std::string& h)
{
    std::string s = "# end-to-end, mode " + std::to_string(MODE) + "\n";
    for (unsigned char c : h) s += "e" + std::to_string((int)c) + " " + EOPS[c].label + "\n";
    return s;
}

std::vector<std::string> RunE2E(const std::string& hist, int variant = 0)
{
    std::vector<std::string> fails;
    ClearPool();
    int64_t now = T0;
    SetMockTime(now);
    pk::NetOpts nopts;
    if (variant > 0) nopts.peerman_tweak = [](PeerManager::Options& o) { o.deterministic_rng = false; }; // seeded from the (deterministic) global stream below
    pk::Net net(*N, nopts);
    for (int k = 0; k < variant; k++) (void)GetRandHash();
    auto spec = [](ConnectionType t, const char* ip, bool wtxid) { pk::PeerSpec s; s.type = t; s.ip = ip; s.wtxid_relay = wtxid; return s; };
    pk::Peer* peers[4] = {&net.AddPeer(spec(ConnectionType::INBOUND, "11.1.1.1", true)), &net.AddPeer(spec(ConnectionType::OUTBOUND_FULL_RELAY, "12.2.2.2", true)),
                          &net.AddPeer(spec(ConnectionType::INBOUND, "13.3.3.3", false)), &net.AddPeer(spec(ConnectionType::INBOUND, "14.4.4.4", true))};
    for (auto* p : peers) (void)p->TakeSent();
    auto round = [&] { for (int k = 0; k < 2; k++) for (auto* p : peers) net.Round(*p); };
    auto tx_of = [&](int x) { return x == 0 ? G : x == 1 ? Gb : x == 2 ? Gs : x == 3 ? Gx : x == 4 ? P : x == 5 ? Pb : x == 6 ? Ps : Px; };
    for (unsigned char c : hist) {
        const EOp& o = EOPS[c];
        g_e2e_events++;
        if (o.kind == 0) { if (InPool(G)) continue; net.Deliver(*peers[o.peer], pk::MsgTx(*tx_of(o.x))); }
        else if (o.kind == 1) net.Deliver(*peers[o.peer], pk::MsgInv({o.x == 0 ? CInv(MSG_WTX, G->GetWitnessHash().ToUint256()) : CInv(MSG_TX, G->GetHash().ToUint256())}));
        else { now += o.x; SetMockTime(now); }
        round();
    }
    for (auto* p : peers) if (p->disconnect_flag()) fails.push_back("C64-e2e-disconnected");
    if (InPool(G)) return fails;
    // probe
    pk::Peer& F = *peers[3];
    (void)F.TakeSent();
    net.Deliver(F, pk::MsgInv({CInv(MSG_WTX, G->GetWitnessHash().ToUint256())}));
    bool asked = false;
    int t = 0, asked_at = -1;
    for (int st : {0, 2, 2, 2, 2, 60, 2, 60, 2, 60, 2}) {
        now += st; t += st;
        SetMockTime(now);
        round();
        for (auto& m : F.TakeSent())
            if (m.type == "getdata") for (auto& inv : pk::ParseInvVector(m)) if (inv.IsMsgWtx() && inv.hash == G->GetWitnessHash().ToUint256() && !asked) { asked = true; asked_at = t; }
    }
    const bool g_orph = [&] { for (auto& o : net.peerman->GetOrphanTransactions()) if (o.tx->GetWitnessHash() == G->GetWitnessHash()) return true; return false; }();
    // (G may have been sitting in the orphanage and been accepted by pending orphan work while the clock was stepped)
    if (!asked && !g_orph && !InPool(G)) fails.push_back("C64-e2e-not-requested");
    if (asked) { if (asked_at <= 8) g_e2e_getdata_fast++; else g_e2e_getdata_late++; }
    net.Deliver(F, pk::MsgTx(*G));
    round();
    if (MODE == 2 && !InPool(G)) {
        if (!InPool(P)) { net.Deliver(F, pk::MsgTx(*P)); round(); }
        for (int k = 0; k < 4; k++) round();
        if (!InPool(G)) { net.Deliver(F, pk::MsgTx(*G)); round(); }
    }
    if (!InPool(G)) fails.push_back("C64-e2e-not-accepted"); else g_e2e_accept++;
    return fails;
}

void ExploreE2E(int depth)
{
    EOPS.clear();
    auto add = [&](int k, int p, int x, const std::string& l) { EOPS.push_back(EOp{k, p, x, l}); };
    add(0, 0, 1, "A: tx Gb"); add(0, 0, 2, "A: tx Gs"); add(0, 0, 3, "A: tx Gx"); add(0, 2, 2, "T: tx Gs");
    add(1, 1, 0, "H: inv wtxid(G)"); add(1, 0, 0, "A: inv wtxid(G)"); add(1, 2, 1, "T: inv txid(G)");
    add(2, -1, 2, "clock +2s"); add(2, -1, 60, "clock +60s");
    if (MODE == 2) { add(0, 1, 4, "H: tx P"); add(0, 1, 0, "H: tx G"); add(0, 0, 5, "A: tx Pb"); add(0, 0, 6, "A: tx Ps"); add(0, 0, 7, "A: tx Px"); }
    const int n = (int)EOPS.size();
    std::vector<std::string> level{""};
    for (int d = 0; d <= depth; d++) {
        std::vector<std::string> next;
        for (auto& h : level) {
            if (vx::deadline_reached()) { vx::ev().exhaustive = false; return; }
            g_e2e_hist++;
            auto fails = RunE2E(h);
            if (!fails.empty()) {
                std::string base;
                for (unsigned char c : h) if (!(EOPS[c].kind == 0 && ((EOPS[c].x >= 1 && EOPS[c].x <= 3) || EOPS[c].x >= 5))) base.push_back((char)c);
                std::set<std::string> bf;
                if (base != h) for (int variant = 0; variant < N_VARIANTS; variant++) for (auto& f : RunE2E(base, variant)) bf.insert(f);
                for (auto& f : fails) {
                    if (base == h || bf.count(f)) { g_e2e_baseline_fail++; continue; }
                    vx::violation(f, "end-to-end through ProcessMessage: genuine G not requested / not accepted after this history (passes without the malleated copies)", e2e_describe(h));
                }
            }
            if (d < depth) for (int o = 0; o < n; o++) next.push_back(h + (char)o);
        }
        level = std::move(next);
    }
}

// what the mempool says about each copy (sanity of the universe)
bool CheckUniverse()
{
    ClearPool();
    bool ok = true;
    // only validity is required of the universe (the reject reason of a copy is what the code under test decides;
    // the reasons actually seen are counted by the gates)
    auto expect = [&](const char* n, const CTransactionRef& t, bool valid, TxValidationResult) {
        auto res = N->SubmitTx(t, /*test_accept=*/true);
        bool v = res.m_result_type == MempoolAcceptResult::ResultType::VALID;
        if (v != valid) {
            printf("HARNESS-ERROR property=C64 mode %d: %s classified unexpectedly: %s\n", MODE, n, res.m_state.ToString().c_str());
            ok = false;
        }
    };
    if (MODE == 3) {
        expect("G without parents", G, false, TxValidationResult::TX_MISSING_INPUTS);
        for (auto& par : PARENTS) {
            auto r = N->SubmitTx(par);
            if (r.m_result_type != MempoolAcceptResult::ResultType::VALID) { printf("HARNESS-ERROR property=C64 parent rejected: %s\n", r.m_state.ToString().c_str()); return false; }
        }
    }
    if (MODE == 2) {
        expect("G without parent", G, false, TxValidationResult::TX_MISSING_INPUTS);
        expect("Pb", Pb, false, TxValidationResult::TX_NOT_STANDARD);
        expect("Ps", Ps, false, TxValidationResult::TX_WITNESS_STRIPPED);
        expect("Px", Px, false, TxValidationResult::TX_WITNESS_MUTATED);
        auto r = N->SubmitTx(P);
        if (r.m_result_type != MempoolAcceptResult::ResultType::VALID) { printf("HARNESS-ERROR property=C64 P rejected: %s\n", r.m_state.ToString().c_str()); return false; }
    }
    expect("G", G, true, TxValidationResult::TX_RESULT_UNSET);
    expect("Gb", Gb, false, TxValidationResult::TX_NOT_STANDARD);
    expect("Gs", Gs, false, TxValidationResult::TX_WITNESS_STRIPPED);
    expect("Gx", Gx, false, TxValidationResult::TX_WITNESS_MUTATED);
    if (G->GetHash() != Gb->GetHash() || G->GetHash() != Gs->GetHash() || G->GetHash() != Gx->GetHash() || G->GetWitnessHash() == Gb->GetWitnessHash()) {
        printf("HARNESS-ERROR property=C64 copies do not share the txid\n");
        ok = false;
    }
    ClearPool();
    return ok;
}

int run()
{
    auto& E = vx::ev();
    setenv("VERIF_JOBS", "1", 1); // one global node / mock clock: the search is single-threaded
    vx::scratch_dir();
    Node node{NodeOpts{}};
    N = &node;
    SeedRandomStateForTest(SeedRand::ZEROS);
    hb::describer() = describe;
    const int depth1 = vx::thorough() ? 12 : 6, depth2 = vx::thorough() ? 7 : 4;
    const int de = getenv("C64_DE") ? atoi(getenv("C64_DE")) : (vx::thorough() ? 4 : 3);
    const int d3 = getenv("C64_D3") ? atoi(getenv("C64_D3")) : 8; // mode 3 reaches its fixpoint (315 canonical states) at depth 7
    const int d1 = getenv("C64_D1") ? atoi(getenv("C64_D1")) : depth1, d2 = getenv("C64_D2") ? atoi(getenv("C64_D2")) : depth2;

    if (!vx::ctx().replay.empty()) {
        std::ifstream f(vx::ctx().replay);
        std::string line, hist;
        int mode = 1;
        while (std::getline(f, line)) {
            if (line.rfind("# mode ", 0) == 0) mode = atoi(line.c_str() + 7);
            if (line.empty() || !isdigit((unsigned char)line[0])) continue;
            hist.push_back((char)atoi(line.c_str()));
        }
        BuildUniverse(mode);
        printf("replaying %zu operations:\n%s", hist.size(), describe(hist).c_str());
        for (size_t i = 1; i <= hist.size(); i++) { std::string k; bool en = replay(hist.substr(0, i), k); printf("  after op %zu (%s): %s\n", i, en ? "enabled" : "not enabled", k.c_str()); }
        printf("replay finished: %d violation(s)\n", vx::rep().violations);
        return vx::finish();
    }

    uint64_t states = 0, transitions = 0;
    bool complete = true;
    std::string levels;
    int done[4] = {0, 0, 0, 0};
    for (int mode = 1; mode <= 3; mode++) {
        BuildUniverse(mode);
        if (!CheckUniverse()) return 2;
        hb::Bfs bfs;
        bfs.nops = (int)OPS.size();
        bfs.max_depth = mode == 1 ? d1 : mode == 2 ? d2 : d3;
        bfs.replay = replay;
        int nsamples = 0;
        bfs.on_new_state = [&](const std::string& h, int d) {
            if (d < 4 || nsamples >= 3) return;
            const Op& l = OPS[(unsigned char)h.back()];
            if (l.t != DEL && l.t != ORPH) return;
            nsamples++;
            std::string s = "mode " + std::to_string(mode) + ": ";
            for (unsigned char c : h) s += OPS[c].label + "; ";
            E.sample(s + "=> probe: fresh peer announces wtxid(G), is asked for it, delivers it, G accepted");
        };
        bfs.run();
        states += bfs.states;
        transitions += bfs.transitions;
        done[mode] = bfs.depth_done;
        levels += "mode" + std::to_string(mode) + ": ";
        for (auto v : bfs.level_states) levels += std::to_string(v) + " ";
        if (!bfs.complete) { complete = false; break; }
        if (mode <= 2) ExploreE2E(de);
        if (!E.exhaustive) { complete = false; break; }
    }
    states += g_e2e_hist;
    transitions += g_e2e_events;
    E.states = states;
    E.transitions = transitions;
    E.traces_validated = transitions;
    E.exhaustive = complete;
    E.set("mode1_depth_completed", (uint64_t)done[1]);
    E.set("mode2_depth_completed", (uint64_t)done[2]);
    E.set("mode1_depth_target", (uint64_t)d1);
    E.set("mode2_depth_target", (uint64_t)d2);
    E.set("mode3_depth_completed", (uint64_t)done[3]);
    E.set("mode3_depth_target", (uint64_t)d3);
    E.set_str("new_states_per_depth", levels);
    E.set("e2e_depth", (uint64_t)de);
    E.set("e2e_histories", g_e2e_hist);
    E.set("e2e_messages_processed", g_e2e_events);
    E.set("n: e2e probe: G accepted", g_e2e_accept);
    E.set("n: e2e probe: getdata(wtxid G) to F within 8 s", g_e2e_getdata_fast);
    E.set("n: e2e probe: getdata(wtxid G) to F after a stall", g_e2e_getdata_late);
    E.set("n: e2e probe failures also present without malleated copies", g_e2e_baseline_fail);
    struct Gt { const char* n; uint64_t v; bool req; } gates[] = {
        {"copy rejected as witness-stripped", g_stripped, true}, {"copy rejected as witness-mutated (non-standard witness)", g_mutated_witness, true},
        {"state with an entry in the reject filter", g_reject_filter, true},
        {"copy kept as orphan", g_orphan_kept, true}, {"orphan reconsidered and rejected", g_orphan_rejected, true}, {"reject filters reset by a block", g_filter_reset, true},
        {"probe: G accepted", g_probe_accept, true}, {"probe: G accepted through the orphan path", g_probe_orphan_path, true}, {"probe: F asked within 8 s", g_req_immediate, true},
        {"probe: F asked only after another announcer's request expired", g_req_after_stall, true}, {"probe: G itself was in the orphanage", g_g_in_orphanage, true},
        {"replays ending with G in the mempool", g_probe_skipped_inpool, false}, {"1p1c package evaluations", g_pkg, false},
        {"probe failures that also occur without any malleated copy (not attributed to the copies)", g_baseline_fail, false}};
    for (auto& g : gates) E.set(std::string("n: ") + g.n, g.v);
    E.rule = "BFS over all event histories (deliver malleated copy / announce / clock +2s,+60s / getdata scheduling / notfound / disconnect / orphan work / block / reorg) on a fresh "
             "TxDownloadManagerImpl + the node's real mempool; states merged on (mempool, orphanage with announcers, filter membership of every universe hash, per-peer "
             "announcement counters, candidate peers per hash, behavioural signature = getdata schedule observed by the probe over the next 194 s); in every state without G in the "
             "mempool the probe (fresh wtxid peer announces G, is asked for it, delivers it, G accepted) is executed on the replayed state";
    E.assume("the handlers of the main search are transcriptions of PeerManagerImpl's INV/TX/NOTFOUND/ProcessOrphanTx/SendMessages(getdata)/FinalizeNode/BlockConnected code; in addition all "
             "sequences of <= e2e_depth events {A: tx Gb/Gs/Gx, T: tx Gs, inv of G by H/A/T, clock +2s/+60s (+ H: tx P, H: tx G in mode 2)} are run end-to-end through the real "
             "PeerManager::ProcessMessages/SendMessages (one fresh PeerManager per history, histories not merged; counted in states/transitions) with the same probe read off the sockets");
    E.assume("block and reorg events reach the download manager as callbacks with unrelated blocks; the chain and therefore the validity of G do not change");
    E.assume("states whose hidden request-tracker timing differs but yields the same getdata schedule under the probe are merged (observational equivalence)");
    if (!g_baseline_sample.empty()) E.sample("NOT a violation of this property (no malleated copy involved): " + g_baseline_sample);
    E.assume("a probe failure counts only if the same history with the malleated deliveries/announcements removed passes the probe under each of 8 seeds of the node's internal randomness (the property is about what a copy causes, not about which announcer a coin flip assigns orphan work to)");
    E.assume("mode 3: G spends outputs of two unconfirmed parents P1 and P2; one malleated copy M (witness script mismatch) chosen with wtxid(M) < wtxid(G) (the orphanage orders the spenders of an outpoint by wtxid); events: deliver M (A), G (H), P1/P2 (A or H), announce wtxid(G) (A, H) / wtxid(M) (A), orphan work per peer, A disconnects, clock +2s; no end-to-end stage in this mode");
    E.assume("mode 1: G spends a confirmed coin; mode 2: G spends the unconfirmed, initially unknown parent P (orphan forms of all copies)");
    if (complete && vx::rep().violations == 0 && (g_e2e_accept == 0 || g_e2e_getdata_fast == 0)) { printf("HARNESS-ERROR property=C64 vacuous end-to-end stage\n"); vx::write_evidence(); return 2; }
    if (complete && vx::rep().violations == 0)
        for (auto& g : gates) if (g.req && g.v == 0) { printf("HARNESS-ERROR property=C64 vacuous: never observed '%s'\n", g.n); vx::write_evidence(); return 2; }
    return vx::finish();
}

} // namespace

int main(int argc, char** argv)
{
    setenv("RANDOM_CTX_SEED", "c64c64c64c64", 1);
    // every replay builds a fresh download manager whose three rolling bloom filters are ~3 MB: keep them on the heap
    // instead of mmap/munmap + page faults per replay
    mallopt(M_MMAP_THRESHOLD, 256 << 20);
    mallopt(M_TRIM_THRESHOLD, 512 << 20);
    vx::init(argc, argv, "C64", "model_checking");
    return hb::guarded(run);
}
