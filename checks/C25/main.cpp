// C25 — The transaction graph answers like a naive graph with a consistent linearization.
//
// VX-STATE by history replay. A state is an operation history; every history is replayed on a fresh real
// TxGraph (MakeTxGraph) and a fresh naive model (bitmask transitive closure per level), in three query
// disciplines (lazy: observe only at the end; light: Exists/count/IsOversized after every op; eager: the full
// observation after every op) because TxGraph is internally lazy and queries change its hidden state.
// BFS over histories with dedup on (model state + every implementation-visible ordering answer).
//
// Operations: AddTransaction(fee,size) / RemoveTransaction (tx + all descendants | + all ancestors, as the interface
// requires for reorder-insensitivity) / AddDependency(i,j) (no cycles; also no-op calls on removed txs) /
// SetTransactionFee / StartStaging / CommitStaging / AbortStaging / Trim / DoWork(0|1e9) / ~Ref (closed under
// descendants|ancestors across both graphs).
// The full observation compares every structural query at both levels with the model and checks that all ordering
// answers are consistent with ONE topological linearization per cluster with connected chunks; it walks a
// BlockBuilder with every Include/Skip pattern.
//
// Work is executed in fork()ed workers: the code under test asserts (SanityCheck) and the process-global RNG
// must be re-seeded per replay for determinism. An abnormal worker exit is a violation with the history as replay.
#include <vx/vx.h>

#include <random.h>
#include <txgraph.h>
#include <uint256.h>
#include <util/feefrac.h>

#include <fcntl.h>
#include <sys/wait.h>

#include <array>
#include <memory>
#include <optional>

extern void MakeRandDeterministicDANGEROUS(const uint256& seed) noexcept;

typedef __int128 i128;
static constexpr int R = 5; // max Ref slots

struct Cfg {
    const char* name;
    unsigned max_count;
    uint64_t max_size;
    uint64_t acceptable_cost;
    int max_slots;
    std::vector<int64_t> fees;
    std::vector<int32_t> sizes;
};

enum Kind : uint8_t { ADD, REM, DEP, FEE, STAGE, COMMIT, ABORT, TRIM, DOWORK, DESTROY };
struct Op {
    uint8_t kind, a, b;
    bool operator==(const Op&) const = default;
    auto operator<=>(const Op&) const = default;
};
static std::string op_str(const Op& o, const Cfg& c)
{
    char buf[96];
    switch (o.kind) {
    case ADD: snprintf(buf, sizeof buf, "Add(fee=%lld,size=%d)", (long long)c.fees[o.a], c.sizes[o.b]); break;
    case REM: snprintf(buf, sizeof buf, "Remove(t%d,+%s)", o.a, o.b ? "desc" : "anc"); break;
    case DEP: snprintf(buf, sizeof buf, "Dep(t%d->t%d)", o.a, o.b); break;
    case FEE: snprintf(buf, sizeof buf, "SetFee(t%d,%lld)", o.a, (long long)c.fees[o.b]); break;
    case STAGE: snprintf(buf, sizeof buf, "StartStaging"); break;
    case COMMIT: snprintf(buf, sizeof buf, "CommitStaging"); break;
    case ABORT: snprintf(buf, sizeof buf, "AbortStaging"); break;
    case TRIM: snprintf(buf, sizeof buf, "Trim"); break;
    case DOWORK: snprintf(buf, sizeof buf, "DoWork(%s)", o.a ? "1e9" : "0"); break;
    case DESTROY: snprintf(buf, sizeof buf, "~Ref(t%d,+%s)", o.a, o.b ? "desc" : "anc"); break;
    default: snprintf(buf, sizeof buf, "?");
    }
    return buf;
}
typedef std::vector<Op> History;
static std::string hist_str(const History& h, const Cfg& c)
{
    std::string s;
    for (auto& o : h) { if (!s.empty()) s += ' '; s += op_str(o, c); }
    return s;
}
static std::string replay_text(const History& h, const Cfg& c, int mode)
{
    std::ostringstream o;
    o << "cfg " << c.name << "\nmode " << mode << "\nops";
    for (auto& x : h) o << ' ' << (int)x.kind << ' ' << (int)x.a << ' ' << (int)x.b;
    o << "\n# " << hist_str(h, c);
    return o.str();
}

// ------------------------------------------------------------------ naive model
struct NG {
    uint8_t ex = 0;       // existing slots
    uint8_t anc[R] = {};  // ancestors incl. self (only meaningful for existing slots)
    uint8_t desc(int i) const { uint8_t m = 0; for (int j = 0; j < R; j++) if ((ex >> j & 1) && (anc[j] >> i & 1)) m |= 1u << j; return m; }
    uint8_t comp(int i) const
    {
        uint8_t c = 1u << i;
        for (;;) {
            uint8_t n = c;
            for (int j = 0; j < R; j++) if (c >> j & 1) n |= anc[j] | desc(j);
            if (n == c) return c;
            c = n;
        }
    }
    void remove(int i)
    {
        if (!(ex >> i & 1)) return;
        ex &= ~(1u << i);
        anc[i] = 0;
        for (int j = 0; j < R; j++) anc[j] &= ~(1u << i);
    }
    void add_dep(int p, int c)
    {
        if (!(ex >> p & 1) || !(ex >> c & 1)) return;
        uint8_t d = desc(c);
        for (int j = 0; j < R; j++) if (d >> j & 1) anc[j] |= anc[p];
    }
};
struct Model {
    const Cfg* cfg = nullptr;
    NG g[2];
    bool staging = false;
    int64_t fee[R] = {};
    int32_t size[R] = {};
    uint8_t created = 0, destroyed = 0;
    int frozen_main_oversized = -1; // while staging exists: IsOversized(MAIN) as it was at StartStaging

    int top() const { return staging ? 1 : 0; }
    uint8_t live() const { return created & ~destroyed; }
    int nslots() const { return __builtin_popcount(created); }
    bool oversized_naive(int level) const
    {
        const NG& G = g[level];
        uint8_t todo = G.ex;
        while (todo) {
            int i = __builtin_ctz(todo);
            uint8_t c = G.comp(i);
            todo &= ~c;
            uint64_t sz = 0;
            for (int j = 0; j < R; j++) if (c >> j & 1) sz += size[j];
            if ((unsigned)__builtin_popcount(c) > cfg->max_count || sz > cfg->max_size) return true;
        }
        return false;
    }
    bool oversized_expected(int level) const
    {
        if (level == 0 && staging && frozen_main_oversized >= 0) return frozen_main_oversized;
        return oversized_naive(level);
    }
    // closure of {i} under ancestors (mode 0) / descendants (mode 1) in the given levels
    uint8_t closure(uint8_t set, int mode, bool both_levels) const
    {
        for (;;) {
            uint8_t n = set;
            for (int l = both_levels ? 0 : top(); l <= top(); l++)
                for (int j = 0; j < R; j++)
                    if ((set >> j & 1) && (g[l].ex >> j & 1)) n |= mode ? g[l].desc(j) : g[l].anc[j];
            if (n == set) return set;
            set = n;
        }
    }
    std::string key() const
    {
        std::string k;
        k += (char)('0' + staging);
        k += (char)('a' + frozen_main_oversized + 1);
        k += (char)created; k += (char)destroyed;
        for (int l = 0; l <= top(); l++) { k += (char)g[l].ex; for (int j = 0; j < R; j++) k += (char)((g[l].ex >> j & 1) ? g[l].anc[j] : 0); }
        for (int j = 0; j < R; j++) if ((g[0].ex | g[1].ex) >> j & 1) { k += (char)fee[j]; k += (char)size[j]; } else k += "--";
        return k;
    }
};

static std::vector<Op> enabled_ops(const Model& m)
{
    std::vector<Op> v;
    const Cfg& c = *m.cfg;
    const NG& T = m.g[m.top()];
    if (m.nslots() < c.max_slots)
        for (uint8_t f = 0; f < c.fees.size(); f++) for (uint8_t s = 0; s < c.sizes.size(); s++) v.push_back({ADD, f, s});
    uint8_t live = m.live();
    for (uint8_t i = 0; i < R; i++) {
        if (!(live >> i & 1)) continue;
        if (T.ex >> i & 1) {
            uint8_t ca = m.closure(1u << i, 0, false), cd = m.closure(1u << i, 1, false);
            v.push_back({REM, i, 1});
            if (ca != cd) v.push_back({REM, i, 0});
        } else {
            v.push_back({REM, i, 1}); // no-op call on an already removed transaction
        }
    }
    for (uint8_t p = 0; p < R; p++) for (uint8_t ch = 0; ch < R; ch++) {
        if (p == ch || !(live >> p & 1) || !(live >> ch & 1)) continue;
        if ((T.ex >> p & 1) && (T.ex >> ch & 1) && (T.anc[p] >> ch & 1)) continue; // would be a cycle
        v.push_back({DEP, p, ch});
    }
    for (uint8_t i = 0; i < R; i++) {
        if (!(live >> i & 1) || !((m.g[0].ex | (m.staging ? m.g[1].ex : 0)) >> i & 1)) continue;
        for (uint8_t f = 0; f < c.fees.size(); f++) if (c.fees[f] != m.fee[i]) v.push_back({FEE, i, f});
    }
    if (!m.staging) v.push_back({STAGE, 0, 0});
    else { v.push_back({COMMIT, 0, 0}); v.push_back({ABORT, 0, 0}); }
    v.push_back({TRIM, 0, 0});
    v.push_back({DOWORK, 0, 0});
    v.push_back({DOWORK, 1, 0});
    for (uint8_t i = 0; i < R; i++) {
        if (!(live >> i & 1)) continue;
        uint8_t ca = m.closure(1u << i, 0, true), cd = m.closure(1u << i, 1, true);
        v.push_back({DESTROY, i, 1});
        if (ca != cd) v.push_back({DESTROY, i, 0});
    }
    return v;
}

// ------------------------------------------------------------------ real object + checks
struct MyRef : public TxGraph::Ref {
    int id;
    explicit MyRef(int i) : id(i) {}
};

struct Fail { std::string kind, what; };

struct FF { int64_t fee; int64_t size; };
static bool ff_gt(const FF& a, const FF& b) { return (i128)a.fee * b.size > (i128)b.fee * a.size; } // feerate a > b
static bool ff_eq_rate(const FF& a, const FF& b) { return (i128)a.fee * b.size == (i128)b.fee * a.size; }

struct Chunk { uint8_t set; FF fr; std::vector<int> txs; };

struct Stats {
    uint64_t observations = 0, queries = 0, builder_walks = 0, trims_effective = 0, diagrams = 0, oversized_seen = 0, frozen_stale_seen = 0,
             multi_chunk_clusters = 0, staging_obs = 0, mutator_calls = 0;
    void add(const Stats& o)
    {
        observations += o.observations; queries += o.queries; builder_walks += o.builder_walks; trims_effective += o.trims_effective;
        diagrams += o.diagrams; oversized_seen += o.oversized_seen; frozen_stale_seen += o.frozen_stale_seen;
        multi_chunk_clusters += o.multi_chunk_clusters; staging_obs += o.staging_obs; mutator_calls += o.mutator_calls;
    }
};

struct Run {
    const Cfg& cfg;
    Model m;
    std::unique_ptr<TxGraph> real;
    std::unique_ptr<MyRef> refs[R];
    std::vector<Fail> fails;
    Stats st;
    std::string vis; // implementation-visible ordering answers of the last full observation
    uint8_t last_trim_mask = 0;

    explicit Run(const Cfg& c) : cfg(c)
    {
        m.cfg = &c;
        MakeRandDeterministicDANGEROUS(uint256::ZERO);
        real = MakeTxGraph(c.max_count, c.max_size, c.acceptable_cost, [](const TxGraph::Ref& a, const TxGraph::Ref& b) noexcept {
            return static_cast<const MyRef&>(a).id <=> static_cast<const MyRef&>(b).id;
        });
    }
    ~Run()
    {
        real.reset(); // Refs may outlive the graph
    }
    void fail(const std::string& kind, const std::string& what) { if (fails.size() < 4) fails.push_back({kind, what}); }

    static std::string set_str(uint8_t s)
    {
        std::string r = "{";
        for (int i = 0; i < R; i++) if (s >> i & 1) { if (r.size() > 1) r += ','; r += 't' + std::to_string(i); }
        return r + "}";
    }
    // convert returned Refs to a mask; -1 on duplicates / foreign pointers
    int mask_of(const std::vector<TxGraph::Ref*>& v, std::vector<int>* order = nullptr)
    {
        int mk = 0;
        for (auto* p : v) {
            if (!p) return -1;
            int id = static_cast<MyRef*>(p)->id;
            if (id < 0 || id >= R || refs[id].get() != p) return -1;
            if (mk >> id & 1) return -1;
            mk |= 1 << id;
            if (order) order->push_back(id);
        }
        return mk;
    }

    // ---- apply one operation to both
    void apply(const Op& o)
    {
        NG& T = m.g[m.top()];
        // The alphabet is computed from the lazy discipline's model. Trim may legitimately remove a different set in
        // another discipline, after which a Ref named by the op may already be destroyed here: such an op is skipped.
        if ((o.kind == REM || o.kind == FEE || o.kind == DESTROY) && !(m.live() >> o.a & 1)) return;
        if (o.kind == DEP && (!(m.live() >> o.a & 1) || !(m.live() >> o.b & 1))) return;
        if (o.kind == ADD && m.nslots() >= cfg.max_slots) return;
        st.mutator_calls++;
        switch (o.kind) {
        case ADD: {
            int i = m.nslots();
            refs[i] = std::make_unique<MyRef>(i);
            m.created |= 1u << i;
            m.fee[i] = cfg.fees[o.a];
            m.size[i] = cfg.sizes[o.b];
            T.ex |= 1u << i;
            T.anc[i] = 1u << i;
            real->AddTransaction(*refs[i], FeePerWeight{m.fee[i], m.size[i]});
            break;
        }
        case REM: {
            uint8_t set = (T.ex >> o.a & 1) ? m.closure(1u << o.a, o.b, false) : (uint8_t)(1u << o.a);
            for (int i = 0; i < R; i++) if (set >> i & 1) { real->RemoveTransaction(*refs[i]); T.remove(i); }
            break;
        }
        case DEP:
            // (the alphabet is computed from the lazy run's model; if Trim removed something else in this discipline the
            //  request could be a cycle here: never ask the real object for that)
            if ((T.ex >> o.a & 1) && (T.ex >> o.b & 1) && (T.anc[o.a] >> o.b & 1)) break;
            real->AddDependency(*refs[o.a], *refs[o.b]);
            T.add_dep(o.a, o.b);
            break;
        case FEE:
            real->SetTransactionFee(*refs[o.a], cfg.fees[o.b]);
            m.fee[o.a] = cfg.fees[o.b];
            break;
        case STAGE:
            m.frozen_main_oversized = m.oversized_naive(0);
            m.g[1] = m.g[0];
            m.staging = true;
            real->StartStaging();
            break;
        case COMMIT:
            real->CommitStaging();
            m.g[0] = m.g[1];
            m.g[1] = NG{};
            m.staging = false;
            m.frozen_main_oversized = -1;
            break;
        case ABORT:
            real->AbortStaging();
            m.g[1] = NG{};
            m.staging = false;
            m.frozen_main_oversized = -1;
            break;
        case TRIM: {
            bool was = m.oversized_naive(m.top());
            auto removed = real->Trim();
            int mk = mask_of(removed);
            if (mk < 0) { fail("trim-bad-refs", "Trim returned duplicate or unknown Refs"); break; }
            if (!was && mk) fail("trim-when-not-oversized", "Trim removed " + set_str(mk) + " although the graph was not oversized");
            if (was && !mk) fail("trim-removed-nothing", "Trim returned nothing although the graph was oversized");
            if (mk & ~T.ex) fail("trim-removed-nonexistent", "Trim returned transactions that do not exist in the trimmed graph: " + set_str(mk & ~T.ex));
            for (int i = 0; i < R; i++) if ((mk & T.ex) >> i & 1) {
                if (T.desc(i) & ~mk) fail("trim-not-descendant-closed", "Trim removed t" + std::to_string(i) + " but kept its descendants " + set_str(T.desc(i) & ~mk));
            }
            for (int i = 0; i < R; i++) if (mk >> i & 1) T.remove(i);
            if (m.oversized_naive(m.top())) fail("trim-left-oversized", "after Trim (removed " + set_str(mk) + ") a cluster still exceeds the count/size limit");
            if (mk) st.trims_effective++;
            last_trim_mask = (uint8_t)mk;
            break;
        }
        case DOWORK:
            real->DoWork(o.a ? 1000000000ULL : 0);
            break;
        case DESTROY: {
            uint8_t set = m.closure(1u << o.a, o.b, true);
            for (int i = 0; i < R; i++) if (set >> i & 1) {
                refs[i].reset();
                m.destroyed |= 1u << i;
                m.g[0].remove(i);
                if (m.staging) m.g[1].remove(i);
            }
            break;
        }
        }
    }

    // ---- light observation: only queries that are always available
    void observe_light()
    {
        for (int lv = 0; lv < 2; lv++) {
            auto L = lv ? TxGraph::Level::TOP : TxGraph::Level::MAIN;
            int ml = lv ? m.top() : 0;
            const NG& G = m.g[ml];
            st.queries += 2;
            if (real->GetTransactionCount(L) != (unsigned)__builtin_popcount(G.ex)) fail("count-mismatch", std::string("GetTransactionCount(") + (lv ? "TOP" : "MAIN") + ") != model");
            if (real->IsOversized(L) != m.oversized_expected(ml)) fail("oversized-mismatch", std::string("IsOversized(") + (lv ? "TOP" : "MAIN") + ") != model (" + (m.oversized_expected(ml) ? "true" : "false") + ")");
            for (int i = 0; i < R; i++) if (m.live() >> i & 1) {
                st.queries++;
                if (real->Exists(*refs[i], L) != bool(G.ex >> i & 1)) fail("exists-mismatch", "Exists(t" + std::to_string(i) + "," + (lv ? "TOP" : "MAIN") + ") != model");
            }
        }
        if (real->HaveStaging() != m.staging) fail("havestaging-mismatch", "HaveStaging() != model");
    }

    // reference chunking of a linearization (standard: absorb while the new chunk has a strictly higher feerate)
    std::vector<Chunk> ref_chunks(const std::vector<int>& lin) const
    {
        std::vector<Chunk> r;
        for (int t : lin) {
            Chunk c{(uint8_t)(1u << t), FF{m.fee[t], m.size[t]}, {t}};
            while (!r.empty() && ff_gt(c.fr, r.back().fr)) {
                Chunk& b = r.back();
                c.set |= b.set; c.fr.fee += b.fr.fee; c.fr.size += b.fr.size;
                std::vector<int> tx = b.txs; tx.insert(tx.end(), c.txs.begin(), c.txs.end()); c.txs = tx;
                r.pop_back();
            }
            r.push_back(c);
        }
        return r;
    }
    bool connected(const NG& G, uint8_t set) const
    {
        if (!set) return true;
        uint8_t c = set & -set;
        for (;;) {
            uint8_t n = c;
            for (int j = 0; j < R; j++) if (c >> j & 1) n |= (G.anc[j] | G.desc(j)) & set;
            if (n == c) break;
            c = n;
        }
        return c == set;
    }
    bool topo(const NG& G, const std::vector<int>& lin) const
    {
        uint8_t done = 0;
        for (int t : lin) { done |= 1u << t; if (G.anc[t] & ~done) return false; }
        return true;
    }

    // ---- full observation. `deep` adds the exhaustive Include/Skip walks.
    void observe_full(bool deep)
    {
        st.observations++;
        vis.clear();
        real->SanityCheck();
        observe_light();
        uint8_t live = m.live();
        // individual feerates
        for (int i = 0; i < R; i++) if (live >> i & 1) {
            st.queries++;
            auto f = real->GetIndividualFeerate(*refs[i]);
            bool anywhere = (m.g[0].ex | (m.staging ? m.g[1].ex : 0)) >> i & 1;
            if (anywhere ? !(f.fee == m.fee[i] && f.size == m.size[i]) : !f.IsEmpty()) fail("individual-feerate-mismatch", "GetIndividualFeerate(t" + std::to_string(i) + ") != model");
        }
        std::vector<int> live_ids;
        for (int i = 0; i < R; i++) if (live >> i & 1) live_ids.push_back(i);
        std::vector<std::vector<int>> staging_cluster_lins; // per staging component, as reported by GetCluster(TOP)
        bool staging_ok = false;
        for (int lv = 0; lv < 2; lv++) {
            auto L = lv ? TxGraph::Level::TOP : TxGraph::Level::MAIN;
            const char* Ls = lv ? "TOP" : "MAIN";
            int ml = lv ? m.top() : 0;
            const NG& G = m.g[ml];
            if (m.oversized_expected(ml)) { st.oversized_seen++; if (ml == 0 && m.staging && !m.oversized_naive(0)) st.frozen_stale_seen++; continue; }
            if (lv && m.staging) { staging_ok = true; st.staging_obs++; }
            for (int i : live_ids) {
                st.queries += 3;
                bool ex = G.ex >> i & 1;
                int a = mask_of(real->GetAncestors(*refs[i], L));
                if (a != (ex ? G.anc[i] : 0)) fail("ancestors-mismatch", std::string("GetAncestors(t") + std::to_string(i) + "," + Ls + ") = " + (a < 0 ? "invalid" : set_str(a)) + " model " + set_str(ex ? G.anc[i] : 0));
                int d = mask_of(real->GetDescendants(*refs[i], L));
                if (d != (ex ? G.desc(i) : 0)) fail("descendants-mismatch", std::string("GetDescendants(t") + std::to_string(i) + "," + Ls + ") = " + (d < 0 ? "invalid" : set_str(d)) + " model " + set_str(ex ? G.desc(i) : 0));
                std::vector<int> order;
                int c = mask_of(real->GetCluster(*refs[i], L), &order);
                uint8_t want = ex ? G.comp(i) : 0;
                if (c != want) fail("cluster-mismatch", std::string("GetCluster(t") + std::to_string(i) + "," + Ls + ") = " + (c < 0 ? "invalid" : set_str(c)) + " model " + set_str(want));
                else if (ex) {
                    if (!topo(G, order)) fail("cluster-order-not-topological", std::string("GetCluster(t") + std::to_string(i) + "," + Ls + ") is not in topological order");
                    if (lv && m.staging && i == __builtin_ctz(want)) staging_cluster_lins.push_back(order);
                    if (lv && m.staging) {
                        // all members must report the same order: compare with the first member's
                        if (i != __builtin_ctz(want)) {
                            std::vector<int> o2;
                            mask_of(real->GetCluster(*refs[__builtin_ctz(want)], L), &o2);
                            if (o2 != order) fail("cluster-order-inconsistent", std::string("GetCluster(") + Ls + ") order differs between members of one cluster");
                        }
                    }
                }
            }
            // unions and distinct-cluster counts over every subset of live refs
            size_t nl = live_ids.size();
            for (unsigned sub = 0; sub < (1u << nl); sub++) {
                std::vector<const TxGraph::Ref*> args;
                uint8_t wa = 0, wd = 0, reps = 0;
                for (size_t k = 0; k < nl; k++) if (sub >> k & 1) {
                    int i = live_ids[k];
                    args.push_back(refs[i].get());
                    if (G.ex >> i & 1) { wa |= G.anc[i]; wd |= G.desc(i); reps |= 1u << __builtin_ctz(G.comp(i)); }
                }
                st.queries += 3;
                int a = mask_of(real->GetAncestorsUnion(args, L));
                if (a != wa) fail("ancestors-union-mismatch", std::string("GetAncestorsUnion(") + Ls + ") != model");
                int d = mask_of(real->GetDescendantsUnion(args, L));
                if (d != wd) fail("descendants-union-mismatch", std::string("GetDescendantsUnion(") + Ls + ") != model");
                if (real->CountDistinctClusters(args, L) != (unsigned)__builtin_popcount(reps)) fail("count-distinct-clusters-mismatch", std::string("CountDistinctClusters(") + Ls + ") != model");
            }
        }

        // ---- ordering answers of the main graph
        std::vector<Chunk> main_chunks_all; // all chunks of main (per cluster reference chunking)
        bool main_ok = !m.oversized_expected(0);
        if (main_ok) {
            const NG& G = m.g[0];
            std::vector<int> M;
            for (int i = 0; i < R; i++) if (G.ex >> i & 1) M.push_back(i);
            // total order from CompareMainOrder
            std::vector<int> rank(R, 0);
            bool order_ok = true;
            for (int a : M) for (int b : M) {
                st.queries++;
                auto c = real->CompareMainOrder(*refs[a], *refs[b]);
                auto c2 = real->CompareMainOrder(*refs[b], *refs[a]);
                if (a == b ? c != 0 : (c == 0 || (c < 0) != (c2 > 0))) { fail("main-order-not-antisymmetric", "CompareMainOrder(t" + std::to_string(a) + ",t" + std::to_string(b) + ") inconsistent with the reverse comparison"); order_ok = false; }
                if (c > 0) rank[a]++;
            }
            std::vector<int> order(M.size(), -1);
            for (int a : M) { if (rank[a] < (int)M.size() && order[rank[a]] < 0) order[rank[a]] = a; else order_ok = false; }
            if (!order_ok) fail("main-order-not-total", "CompareMainOrder does not define a strict total order");
            if (order_ok) {
                for (int a : M) for (int b : M) if (a != b && ((real->CompareMainOrder(*refs[a], *refs[b]) < 0) != (rank[a] < rank[b]))) { fail("main-order-not-transitive", "CompareMainOrder is not transitive"); order_ok = false; }
            }
            if (order_ok) {
                if (!topo(G, order)) fail("main-order-not-topological", "the order defined by CompareMainOrder places a child before its parent");
                vis += "M:";
                for (int t : order) vis += (char)('0' + t);
                // per cluster: linearization = restriction of the main order
                uint8_t todo = G.ex;
                std::vector<FF> chunk_fr_of(R, FF{0, 0});
                std::vector<int> chunk_id_of(R, -1);
                while (todo) {
                    uint8_t comp = G.comp(__builtin_ctz(todo));
                    todo &= ~comp;
                    std::vector<int> lin;
                    for (int t : order) if (comp >> t & 1) lin.push_back(t);
                    auto chunks = ref_chunks(lin);
                    if (chunks.size() > 1) st.multi_chunk_clusters++;
                    for (auto& ch : chunks) {
                        if (!connected(G, ch.set)) fail("main-chunk-disconnected", "chunk " + set_str(ch.set) + " of the main linearization is not connected");
                        for (int t : ch.txs) { chunk_fr_of[t] = ch.fr; chunk_id_of[t] = (int)main_chunks_all.size(); }
                        main_chunks_all.push_back(ch);
                    }
                    for (int t : lin) {
                        st.queries++;
                        std::vector<int> o;
                        mask_of(real->GetCluster(*refs[t], TxGraph::Level::MAIN), &o);
                        if (o != lin) { fail("cluster-order-vs-main-order", "GetCluster(t" + std::to_string(t) + ",MAIN) order differs from the order given by CompareMainOrder"); break; }
                    }
                }
                for (int t : M) {
                    st.queries++;
                    auto f = real->GetMainChunkFeerate(*refs[t]);
                    if (!(f.fee == chunk_fr_of[t].fee && f.size == chunk_fr_of[t].size)) fail("main-chunk-feerate-mismatch", "GetMainChunkFeerate(t" + std::to_string(t) + ") = " + std::to_string(f.fee) + "/" + std::to_string(f.size) + " but the chunk of the reported linearization has " + std::to_string(chunk_fr_of[t].fee) + "/" + std::to_string(chunk_fr_of[t].size));
                    vis += (char)('a' + chunk_id_of[t]);
                }
                // chunks contiguous and feerates non-increasing along the whole main order
                std::vector<int> seq; // chunk ids in main order
                for (int t : order) if (seq.empty() || seq.back() != chunk_id_of[t]) seq.push_back(chunk_id_of[t]);
                {
                    std::set<int> seen(seq.begin(), seq.end());
                    if (seen.size() != seq.size()) fail("main-order-splits-chunk", "transactions of one chunk are not contiguous in the main order");
                    for (size_t k = 1; k < seq.size(); k++) if (ff_gt(main_chunks_all[seq[k]].fr, main_chunks_all[seq[k - 1]].fr)) fail("main-order-feerate-increasing", "chunk feerates increase along the main order");
                }
                // removed / non-main refs
                for (int i : live_ids) if (!(G.ex >> i & 1)) {
                    st.queries++;
                    if (!real->GetMainChunkFeerate(*refs[i]).IsEmpty()) fail("main-chunk-feerate-nonexistent", "GetMainChunkFeerate of a transaction not in main is not empty");
                }
                // block builder: every Include/Skip pattern (deep) or only all-Include
                if (std::set<int>(seq.begin(), seq.end()).size() == seq.size()) walk_builder(order, seq, main_chunks_all, deep);
                // worst chunk
                st.queries++;
                auto [wc, wf] = real->GetWorstMainChunk();
                if (M.empty()) {
                    if (!wc.empty() || !wf.IsEmpty()) fail("worst-chunk-nonempty", "GetWorstMainChunk on an empty main graph is not empty");
                } else {
                    std::vector<int> wo;
                    int wm = mask_of(wc, &wo);
                    const Chunk& last = main_chunks_all[seq.back()];
                    if (wm != last.set || !(wf.fee == last.fr.fee && wf.size == last.fr.size)) fail("worst-chunk-mismatch", "GetWorstMainChunk = " + (wm < 0 ? std::string("invalid") : set_str(wm)) + " but the last chunk of the main order is " + set_str(last.set));
                    else {
                        uint8_t done = 0;
                        for (int t : wo) { done |= 1u << t; if ((G.desc(t) & last.set) & ~done) { fail("worst-chunk-order", "GetWorstMainChunk is not in reverse topological order"); break; } }
                    }
                }
            }
        }
        // ---- staging linearizations and diagrams
        if (m.staging && staging_ok) {
            const NG& G = m.g[1];
            std::vector<Chunk> stage_chunks;
            vis += "|S:";
            for (auto& lin : staging_cluster_lins) {
                for (int t : lin) vis += (char)('0' + t);
                vis += ',';
                for (auto& ch : ref_chunks(lin)) {
                    if (!connected(G, ch.set)) fail("staging-chunk-disconnected", "chunk " + set_str(ch.set) + " of a staging linearization is not connected");
                    stage_chunks.push_back(ch);
                }
            }
            if (main_ok) {
                st.diagrams++;
                st.queries++;
                auto [dm, ds] = real->GetMainStagingDiagrams();
                auto sorted_ok = [](const std::vector<FeeFrac>& d) { for (size_t i = 1; i < d.size(); i++) if (ff_gt(FF{d[i].fee, d[i].size}, FF{d[i - 1].fee, d[i - 1].size})) return false; return true; };
                if (!sorted_ok(dm) || !sorted_ok(ds)) fail("diagram-not-monotone", "GetMainStagingDiagrams feerates are not non-increasing");
                auto ms = [](const std::vector<FeeFrac>& d) { std::multiset<std::pair<int64_t, int64_t>> s; for (auto& f : d) s.insert({f.fee, f.size}); return s; };
                auto msc = [](const std::vector<Chunk>& d) { std::multiset<std::pair<int64_t, int64_t>> s; for (auto& c : d) s.insert({c.fr.fee, c.fr.size}); return s; };
                auto all_main = msc(main_chunks_all), all_stage = msc(stage_chunks), got_main = ms(dm), got_stage = ms(ds);
                bool sub = true;
                for (auto& x : got_main) { auto it = all_main.find(x); if (it == all_main.end()) { sub = false; break; } all_main.erase(it); }
                for (auto& x : got_stage) { auto it = all_stage.find(x); if (it == all_stage.end()) { sub = false; break; } all_stage.erase(it); }
                if (!sub) fail("diagram-not-from-linearization", "GetMainStagingDiagrams contains a chunk feerate that is not a chunk of the reported main/staging linearizations");
                else if (all_main != all_stage) fail("diagram-omits-differing-clusters", "the chunks omitted from the main and staging diagrams differ");
            }
        }
        real->SanityCheck();
    }

    void walk_builder(const std::vector<int>& order, const std::vector<int>& seq, const std::vector<Chunk>& chunks, bool deep)
    {
        const NG& G = m.g[0];
        // cluster id (lowest member) of each chunk
        auto cluster_of = [&](int cid) { return __builtin_ctz(G.comp(__builtin_ctz(chunks[cid].set))); };
        // iterate over skip patterns: pattern bit k applies to the k-th *presented* chunk
        size_t K = seq.size();
        uint64_t npat = deep ? (1ull << K) : 1;
        for (uint64_t pat = 0; pat < npat; pat++) {
            // expected presentation under this pattern
            std::vector<int> expect;
            std::vector<bool> skipflag;
            uint8_t excluded_clusters = 0;
            size_t presented = 0;
            for (size_t k = 0; k < K; k++) {
                int cl = cluster_of(seq[k]);
                if (excluded_clusters >> cl & 1) continue;
                bool skip = pat >> presented & 1;
                presented++;
                expect.push_back(seq[k]);
                skipflag.push_back(skip);
                if (skip) excluded_clusters |= 1u << cl;
            }
            if (pat >> presented) continue; // pattern has bits beyond what is ever presented: duplicate of a smaller one
            st.builder_walks++;
            auto builder = real->GetBlockBuilder();
            uint8_t included = 0;
            bool ok = true;
            for (size_t k = 0; k < expect.size() && ok; k++) {
                st.queries++;
                auto cur = builder->GetCurrentChunk();
                auto cur2 = builder->GetCurrentChunk();
                if (!cur || !cur2 || cur->first != cur2->first || !(cur->second == cur2->second)) { fail("builder-chunk-unstable-or-missing", "BlockBuilder ended early or GetCurrentChunk is not repeatable (pattern " + std::to_string(pat) + ")"); ok = false; break; }
                std::vector<int> o;
                int mk = mask_of(cur->first, &o);
                const Chunk& want = chunks[expect[k]];
                if (mk != want.set || o != want.txs || !(cur->second.fee == want.fr.fee && cur->second.size == want.fr.size)) {
                    fail("builder-sequence-mismatch", "BlockBuilder chunk #" + std::to_string(k) + " under skip pattern " + std::to_string(pat) + " = " + (mk < 0 ? std::string("invalid") : set_str(mk)) + " expected " + set_str(want.set) + " (the next chunk of the main order from a non-skipped cluster)");
                    ok = false;
                    break;
                }
                if (skipflag[k]) builder->Skip();
                else {
                    included |= want.set;
                    for (int t : want.txs) if (G.anc[t] & ~included) fail("builder-includes-child-before-parent", "included chunks are not topologically closed");
                    builder->Include();
                }
            }
            if (ok && builder->GetCurrentChunk()) fail("builder-extra-chunk", "BlockBuilder yields more chunks than the main order has (pattern " + std::to_string(pat) + ")");
        }
        (void)order;
    }
};

// result of replaying one history in the three disciplines
struct Result {
    uint64_t key_hi = 0, key_lo = 0;
    uint8_t trim_mask_lazy = 0;
    std::vector<std::pair<int, Fail>> fails; // (mode, fail)
    Stats st;
};

static void run_history(const Cfg& cfg, const History& h, Result& res, int only_mode = -1)
{
    std::string key;
    for (int mode = 0; mode < 3; mode++) {
        if (only_mode >= 0 && mode != only_mode) continue;
        Run r(cfg);
        for (size_t k = 0; k < h.size(); k++) {
            r.apply(h[k]);
            if (!r.fails.empty()) break;
            if (k + 1 < h.size()) {
                if (mode == 1) r.observe_light();
                if (mode == 2) r.observe_full(false);
            }
            if (!r.fails.empty()) break;
        }
        if (r.fails.empty()) r.observe_full(true);
        for (auto& f : r.fails) res.fails.push_back({mode, f});
        if (mode == 0) res.trim_mask_lazy = r.last_trim_mask;
        key += r.m.key();
        key += '#';
        key += r.vis;
        res.st.add(r.st);
    }
    res.key_lo = vx::fnv1a(key);
    res.key_hi = vx::fnv1a(key, 0x9E3779B97F4A7C15ULL);
}

static Model model_after(const Cfg& cfg, const History& h, const std::vector<uint8_t>& trim_sets)
{
    // pure model replay (Trim results are recorded from the real run: trim_sets[k] for the k-th TRIM)
    Model m;
    m.cfg = &cfg;
    size_t tk = 0;
    for (auto& o : h) {
        NG& T = m.g[m.top()];
        switch (o.kind) {
        case ADD: { int i = m.nslots(); m.created |= 1u << i; m.fee[i] = cfg.fees[o.a]; m.size[i] = cfg.sizes[o.b]; T.ex |= 1u << i; T.anc[i] = 1u << i; break; }
        case REM: { uint8_t set = (T.ex >> o.a & 1) ? m.closure(1u << o.a, o.b, false) : (uint8_t)(1u << o.a); for (int i = 0; i < R; i++) if (set >> i & 1) T.remove(i); break; }
        case DEP: T.add_dep(o.a, o.b); break;
        case FEE: m.fee[o.a] = cfg.fees[o.b]; break;
        case STAGE: m.frozen_main_oversized = m.oversized_naive(0); m.g[1] = m.g[0]; m.staging = true; break;
        case COMMIT: m.g[0] = m.g[1]; m.g[1] = NG{}; m.staging = false; m.frozen_main_oversized = -1; break;
        case ABORT: m.g[1] = NG{}; m.staging = false; m.frozen_main_oversized = -1; break;
        case TRIM: { uint8_t mk = tk < trim_sets.size() ? trim_sets[tk] : 0; tk++; for (int i = 0; i < R; i++) if (mk >> i & 1) T.remove(i); break; }
        case DOWORK: break;
        case DESTROY: { uint8_t set = m.closure(1u << o.a, o.b, true); for (int i = 0; i < R; i++) if (set >> i & 1) { m.destroyed |= 1u << i; m.g[0].remove(i); if (m.staging) m.g[1].remove(i); } break; }
        }
    }
    return m;
}

// ------------------------------------------------------------------ BFS driver with forked workers
struct Node {
    History h;
    std::vector<uint8_t> trims; // what each Trim in h removed (needed to rebuild the model without the real object)
};

struct TaskOut {
    uint64_t hi, lo;
    uint8_t trim_mask;   // removed set if the last op was TRIM
    uint8_t nfails;
};

static std::vector<Cfg> g_cfgs;

// Runs tasks [lo,hi) (task = parent node + op) in a child; writes records to fd. Record: TaskOut + fails + stats at end.
static void worker(const Cfg& cfg, const std::vector<Node>& nodes, const std::vector<std::pair<uint32_t, Op>>& tasks, size_t lo, size_t hi, int fd)
{
    FILE* f = fdopen(fd, "wb");
    Stats total;
    for (size_t t = lo; t < hi; t++) {
        History h = nodes[tasks[t].first].h;
        h.push_back(tasks[t].second);
        Result res;
        run_history(cfg, h, res);
        total.add(res.st);
        TaskOut out{res.key_hi, res.key_lo, 0, (uint8_t)std::min<size_t>(res.fails.size(), 4)};
        if (tasks[t].second.kind == TRIM) out.trim_mask = res.trim_mask_lazy;
        uint32_t idx = (uint32_t)t;
        fwrite(&idx, sizeof idx, 1, f);
        fwrite(&out, sizeof out, 1, f);
        for (size_t k = 0; k < out.nfails; k++) {
            auto& [mode, fl] = res.fails[k];
            uint32_t md = mode, a = fl.kind.size(), b = fl.what.size();
            fwrite(&md, 4, 1, f); fwrite(&a, 4, 1, f); fwrite(&b, 4, 1, f);
            fwrite(fl.kind.data(), 1, a, f); fwrite(fl.what.data(), 1, b, f);
        }
        fflush(f);
    }
    uint32_t endmark = 0xFFFFFFFFu;
    fwrite(&endmark, 4, 1, f);
    fwrite(&total, sizeof total, 1, f);
    fflush(f);
    fclose(f);
}

struct Merged {
    std::vector<TaskOut> outs;
    std::vector<char> have;
};

static bool read_exact(FILE* f, void* p, size_t n) { return fread(p, 1, n, f) == n; }

// Executes all tasks with forked workers; reports violations; returns per-task outputs.
// Returns false if the wall-clock deadline stopped it before all blocks were started (the level is then incomplete).
static bool run_tasks(const Cfg& cfg, const std::vector<Node>& nodes, const std::vector<std::pair<uint32_t, Op>>& tasks, Merged& mg, Stats& st, const std::string& scratch)
{
    size_t N = tasks.size();
    mg.outs.assign(N, TaskOut{});
    mg.have.assign(N, 0);
    unsigned W = std::max(1u, vx::ncpu());
    // blocks to run: (lo, hi). A crashed block is re-queued from the task after the crash.
    std::vector<std::pair<size_t, size_t>> blocks;
    size_t per = std::max<size_t>(256, (N + W * 4 - 1) / (W * 4));
    for (size_t lo = 0; lo < N; lo += per) blocks.push_back({lo, std::min(N, lo + per)});
    size_t next_block = 0;
    struct Live { pid_t pid; size_t lo, hi; std::string path; };
    std::vector<Live> running;
    int crashes = 0;
    auto harvest = [&](const Live& lv, int status) {
        FILE* f = fopen(lv.path.c_str(), "rb");
        size_t last_done = lv.lo; // first task without a record
        bool ended = false;
        if (f) {
            for (;;) {
                uint32_t idx;
                if (!read_exact(f, &idx, 4)) break;
                if (idx == 0xFFFFFFFFu) { Stats s; if (read_exact(f, &s, sizeof s)) { st.add(s); ended = true; } break; }
                TaskOut out;
                if (!read_exact(f, &out, sizeof out)) break;
                std::vector<std::pair<int, Fail>> fails;
                bool okrec = true;
                for (unsigned k = 0; k < out.nfails; k++) {
                    uint32_t md, a, b;
                    if (!read_exact(f, &md, 4) || !read_exact(f, &a, 4) || !read_exact(f, &b, 4) || a > 1000 || b > 100000) { okrec = false; break; }
                    Fail fl; fl.kind.resize(a); fl.what.resize(b);
                    if (!read_exact(f, fl.kind.data(), a) || !read_exact(f, fl.what.data(), b)) { okrec = false; break; }
                    fails.push_back({(int)md, fl});
                }
                if (!okrec || idx >= N) break;
                mg.outs[idx] = out;
                mg.have[idx] = 1;
                last_done = idx + 1;
                for (auto& [mode, fl] : fails) {
                    History h = nodes[tasks[idx].first].h;
                    h.push_back(tasks[idx].second);
                    static const char* mn[3] = {"lazy", "light", "eager"};
                    vx::violation(fl.kind + " @ " + cfg.name + ": " + hist_str(h, cfg), std::string("[") + mn[mode] + " queries] " + fl.what, replay_text(h, cfg, mode));
                }
            }
            fclose(f);
        }
        unlink(lv.path.c_str());
        if (!ended) {
            // the worker died while executing task last_done
            if (last_done < lv.hi) {
                History h = nodes[tasks[last_done].first].h;
                h.push_back(tasks[last_done].second);
                std::string how = WIFSIGNALED(status) ? "signal " + std::to_string(WTERMSIG(status)) : "exit " + std::to_string(WEXITSTATUS(status));
                vx::violation("abort @ " + std::string(cfg.name) + ": " + hist_str(h, cfg), "the code under test aborted (assert/SanityCheck/crash, " + how + ") while replaying this history", replay_text(h, cfg, -1));
                mg.have[last_done] = 2; // crashed: do not expand
                crashes++;
                if (last_done + 1 < lv.hi && crashes < 50) blocks.push_back({last_done + 1, lv.hi});
            }
        }
    };
    bool cut = false;
    while ((next_block < blocks.size() && !cut) || !running.empty()) {
        if (vx::deadline_reached() && next_block < blocks.size()) cut = true;
        while (!cut && running.size() < W && next_block < blocks.size()) {
            auto [lo, hi] = blocks[next_block];
            std::string path = scratch + "/c25_" + std::to_string(getpid()) + "_" + std::to_string(next_block) + ".bin";
            next_block++;
            fflush(stdout);
            pid_t pid = fork();
            if (pid == 0) {
                int fd = open(path.c_str(), O_WRONLY | O_CREAT | O_TRUNC, 0600);
                if (fd < 0) _exit(3);
                worker(cfg, nodes, tasks, lo, hi, fd);
                _exit(0);
            }
            if (pid < 0) { printf("HARNESS-ERROR fork failed\n"); exit(2); }
            running.push_back({pid, lo, hi, path});
        }
        int status = 0;
        pid_t p = wait(&status);
        if (p < 0) break;
        for (size_t k = 0; k < running.size(); k++) if (running[k].pid == p) {
            Live lv = running[k];
            running.erase(running.begin() + k);
            harvest(lv, status);
            break;
        }
    }
    return !cut;
}

static int run_replay()
{
    std::ifstream f(vx::ctx().replay);
    std::string line, cfgname;
    int mode = -1;
    History h;
    while (std::getline(f, line)) {
        if (line.empty() || line[0] == '#') continue;
        std::istringstream is(line);
        std::string k;
        is >> k;
        if (k == "cfg") is >> cfgname;
        else if (k == "mode") is >> mode;
        else if (k == "ops") { int a, b, c; while (is >> a >> b >> c) h.push_back({(uint8_t)a, (uint8_t)b, (uint8_t)c}); }
    }
    const Cfg* cfg = nullptr;
    for (auto& c : g_cfgs) if (cfgname == c.name) cfg = &c;
    if (!cfg) { printf("HARNESS-ERROR unknown cfg in replay\n"); return 2; }
    printf("replaying [%s] %s\n", cfg->name, hist_str(h, *cfg).c_str());
    Result res;
    run_history(*cfg, h, res, mode);
    for (auto& [md, fl] : res.fails) vx::violation(fl.kind + " @ " + cfg->name + ": " + hist_str(h, *cfg), fl.what, replay_text(h, *cfg, md));
    printf("replay done: %zu failures\n", res.fails.size());
    return vx::finish();
}

int main(int argc, char** argv)
{
    vx::init(argc, argv, "C25", "model_checking");
    auto& E = vx::ev();
    const bool big = vx::thorough();
    g_cfgs = {
        {"c3s7a0", 3, 7, 0, 4, {1, 5}, {1, 4}},          // count limit 3, size limit 7 (4+4 is oversized), minimal linearization effort
        {"c3s7opt", 3, 7, 1000000, 4, {1, 5}, {1, 4}},    // same, always linearized optimally
        {"c2s3a0", 2, 3, 0, 4, {1, 5}, {1, 4}},          // size-4 transactions are individually oversized
        {"c4s9a0", 4, 9, 0, 5, {1, 5}, {1, 4}},          // 5 refs, count limit 4
    };
    if (!vx::ctx().replay.empty()) return run_replay();

    std::string scratch = "/verif/build/scratch";
    if (const char* e = getenv("VERIF_BUILD")) scratch = std::string(e) + "/scratch";
    scratch += "/" + std::to_string(getpid());
    mkdir(scratch.c_str(), 0700);

    struct PlanItem { int cfg; int depth; };
    std::vector<PlanItem> plan = big ? std::vector<PlanItem>{{0, 5}, {1, 5}, {2, 5}, {3, 4}} : std::vector<PlanItem>{{0, 4}, {1, 3}, {2, 3}};
    if (const char* e = getenv("C25_DEPTH")) for (auto& p : plan) p.depth = atoi(e);

    Stats total;
    uint64_t states = 0, transitions = 0;
    bool complete = true;
    std::string plan_desc;
    for (auto& pi : plan) {
        if (vx::deadline_reached()) { complete = false; break; }
        const Cfg& cfg = g_cfgs[pi.cfg];
        std::vector<Node> frontier{Node{}};
        std::set<std::pair<uint64_t, uint64_t>> seen;
        uint64_t cfg_states = 1, cfg_trans = 0;
        int completed_depth = 0;
        // Seeds: besides the empty graph, BFS also starts from every dependency shape (transitively closed DAG with
        // edges low->high id) on 1..3 transactions, in two (fee,size) patterns, built by Add.. then Dep.. calls.
        {
            std::vector<Node> seed_parents;
            std::vector<std::pair<uint32_t, Op>> seed_tasks;
            std::set<History> uniq;
            for (int n = 1; n <= 3; n++) {
                int npairs = n * (n - 1) / 2;
                for (unsigned e = 0; e < (1u << npairs); e++) {
                    // keep transitively reduced representatives only: skip edge sets containing an implied edge
                    bool edge[3][3] = {};
                    int b = 0;
                    for (int j = 1; j < n; j++) for (int i = 0; i < j; i++, b++) edge[i][j] = e >> b & 1;
                    if (n == 3 && edge[0][1] && edge[1][2] && edge[0][2]) continue;
                    for (int pat = 0; pat < 2; pat++) {
                        History h;
                        for (int i = 0; i < n; i++) {
                            uint8_t f = pat ? (i & 1) : 0;                 // fees 1,1,1 | 1,5,1
                            uint8_t z = pat ? (i < 2 ? 1 : 0) : 0;         // sizes 1,1,1 | 4,4,1
                            h.push_back({ADD, f, z});
                        }
                        for (int j = 1; j < n; j++) for (int i = 0; i < j; i++) if (edge[i][j]) h.push_back({DEP, (uint8_t)i, (uint8_t)j});
                        if (!uniq.insert(h).second) continue;
                        Node par;
                        par.h.assign(h.begin(), h.end() - 1);
                        seed_parents.push_back(par);
                        seed_tasks.push_back({(uint32_t)seed_parents.size() - 1, h.back()});
                    }
                }
            }
            // Staging seeds: a transaction (small / size 4, which is individually oversized under c2s3a0) that enters main
            // through a committed staging, alone or next to an older main transaction; BFS continues from there, so what
            // CommitStaging carries over (counters, cached oversize status) is probed by later removals within the quick depth.
            for (uint8_t z = 0; z < 2; z++) {
                for (int pre = 0; pre < 2; pre++) {
                    for (int fin = 0; fin < 2; fin++) {
                        History h;
                        if (pre) h.push_back({ADD, 0, 0});
                        h.push_back({STAGE, 0, 0});
                        h.push_back({ADD, 1, z});
                        if (fin) h.push_back({COMMIT, 0, 0});
                        if (!uniq.insert(h).second) continue;
                        Node par;
                        par.h.assign(h.begin(), h.end() - 1);
                        seed_parents.push_back(par);
                        seed_tasks.push_back({(uint32_t)seed_parents.size() - 1, h.back()});
                    }
                }
            }
            Merged mg;
            run_tasks(cfg, seed_parents, seed_tasks, mg, total, scratch);
            size_t nseeds = 0;
            for (size_t t = 0; t < seed_tasks.size(); t++) {
                if (mg.have[t] != 1 || mg.outs[t].nfails) continue;
                cfg_trans++;
                if (!seen.insert({mg.outs[t].hi, mg.outs[t].lo}).second) continue;
                Node nn;
                nn.h = seed_parents[seed_tasks[t].first].h;
                nn.h.push_back(seed_tasks[t].second);
                frontier.push_back(std::move(nn));
                nseeds++;
            }
            cfg_states += nseeds;
            printf("[%s] %zu seed histories (%zu distinct states) + empty graph\n", cfg.name, seed_tasks.size(), nseeds);
        }
        for (int d = 1; d <= pi.depth; d++) {
            if (vx::deadline_reached()) { complete = false; break; }
            std::vector<std::pair<uint32_t, Op>> tasks;
            for (uint32_t n = 0; n < frontier.size(); n++) {
                Model m = model_after(cfg, frontier[n].h, frontier[n].trims);
                for (auto& o : enabled_ops(m)) tasks.push_back({n, o});
            }
            Merged mg;
            double t0 = vx::elapsed();
            if (!run_tasks(cfg, frontier, tasks, mg, total, scratch)) { complete = false; printf("[%s] depth %d cut by deadline\n", cfg.name, d); break; }
            std::vector<Node> next;
            for (size_t t = 0; t < tasks.size(); t++) {
                if (mg.have[t] != 1) continue;
                cfg_trans++;
                if (mg.outs[t].nfails) continue; // do not expand beyond a violating state
                if (!seen.insert({mg.outs[t].hi, mg.outs[t].lo}).second) continue;
                Node nn;
                nn.h = frontier[tasks[t].first].h;
                nn.h.push_back(tasks[t].second);
                nn.trims = frontier[tasks[t].first].trims;
                if (tasks[t].second.kind == TRIM) nn.trims.push_back(mg.outs[t].trim_mask);
                next.push_back(std::move(nn));
            }
            cfg_states += next.size();
            printf("[%s] depth %d: %zu histories executed, %zu new states (%.1fs)\n", cfg.name, d, tasks.size(), next.size(), vx::elapsed() - t0);
            frontier.swap(next);
            completed_depth = d;
            if (frontier.empty()) break;
            if (vx::rep().violations > 0) break;
        }
        if (completed_depth < pi.depth && !frontier.empty() && vx::rep().violations == 0) complete = false;
        states += cfg_states;
        transitions += cfg_trans;
        char buf[256];
        snprintf(buf, sizeof buf, "cfg %s (max_count=%u max_size=%" PRIu64 " acceptable_cost=%" PRIu64 " refs<=%d): depth %d, states %" PRIu64 ", transitions %" PRIu64,
                 cfg.name, cfg.max_count, cfg.max_size, cfg.acceptable_cost, cfg.max_slots, completed_depth, cfg_states, cfg_trans);
        E.sample(buf);
        plan_desc += std::string(buf) + "; ";
        E.set(std::string("depth_") + cfg.name, (uint64_t)completed_depth);
        if (vx::rep().violations > 0) break;
    }
    rmdir(scratch.c_str());

    E.states = states;
    E.transitions = transitions;
    E.traces_validated = transitions;
    E.exhaustive = complete;
    E.set("observations", total.observations);
    E.set("queries_compared", total.queries);
    E.set("builder_walks", total.builder_walks);
    E.set("effective_trims", total.trims_effective);
    E.set("diagram_queries", total.diagrams);
    E.set("oversized_levels_observed", total.oversized_seen);
    E.set("stale_main_oversized_observed", total.frozen_stale_seen);
    E.set("multi_chunk_clusters_observed", total.multi_chunk_clusters);
    E.set("staging_observations", total.staging_obs);
    E.set("real_mutator_calls", total.mutator_calls);
    E.rule = "BFS over operation histories, each replayed from scratch on a real TxGraph and a naive closure model in 3 query disciplines (lazy/light/eager); "
             "states = distinct (model state + main order + chunk assignment + staging cluster orders) reached; transitions = histories executed (one new real operation each, x3 disciplines); " + plan_desc;
    E.assume("RemoveTransaction/~Ref are always applied to a set closed under descendants or under ancestors (the interface's condition for reorder-insensitivity); no dependency cycles are requested");
    E.assume("while staging exists IsOversized(MAIN) keeps its value from StartStaging (documented: Ref destruction does not clear main's oversizedness)");
    E.assume("two histories with equal canonical key are merged although hidden lazy state (cluster quality, queued work, rng position) may differ");

    if (vx::rep().violations == 0 && complete) {
        const char* miss = nullptr;
        if (!total.trims_effective) miss = "no effective Trim";
        else if (!total.diagrams) miss = "GetMainStagingDiagrams never compared";
        else if (!total.oversized_seen) miss = "no oversized level observed";
        else if (!total.multi_chunk_clusters) miss = "no multi-chunk cluster observed";
        else if (!total.staging_obs) miss = "staging never observed";
        else if (!total.builder_walks) miss = "no BlockBuilder walk";
        else if (!total.frozen_stale_seen) miss = "stale main oversizedness (Ref destroyed during staging) never observed";
        if (miss) { vx::write_evidence(); printf("HARNESS-ERROR property=C25 vacuous: %s\n", miss); return 2; }
    }
    return vx::finish();
}
