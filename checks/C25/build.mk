LINK := full
