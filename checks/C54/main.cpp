// C54 — Block index navigation and chainwork are correct.
// VX-ENUM. (1) every rooted tree with <= N nodes (parent arrays p[i] < i), built through the real
// BlockManager::AddToBlockIndex (nHeight, pprev, BuildSkip, nChainWork, nTimeMax): GetAncestor, LastCommonAncestor,
// CChain (SetTip incl. re-pointing, [], Contains, Next, FindFork, FindEarliestAtLeast), LocatorEntries vs a naive
// parent-array walk; (2) single chains of every length and a forked long chain for the skip list and the
// locator heights; (3) GetBitsProof for all nBits vs floor(2^256/(target+1)) stated by its defining inequality.
#include <vx/vx.h>
#include <ref/refmodel_bignum.h>

#include <arith_uint256.h>
#include <chain.h>
#include <kernel/chainparams.h>
#include <node/blockstorage.h>
#include <node/kernel_notifications.h>
#include <primitives/block.h>
#include <test/util/setup_common.h>
#include <uint256.h>
#include <validation.h>

using refbig::Big;

namespace {

std::atomic<uint64_t> n_bad{0};
void bad(const std::string& key, const std::string& what)
{
    if (n_bad.fetch_add(1) < 12) vx::violation(key, what, key + "\n" + what);
}
std::string hx(uint32_t v) { char b[16]; snprintf(b, sizeof b, "0x%08x", v); return b; }
std::mutex g_mu;

// ---------------------------------------------------------------------------------- proof reference
// proof(nBits) = floor(2^256 / (target+1)), 0 if the target is negative, zero or overflows.
Big ref_proof(uint32_t nb)
{
    const refbig::Compact t = refbig::decode_compact(nb);
    if (t.negative || t.overflow || t.value.is_zero()) return Big(0);
    return Big::div(Big(1) << 256, t.value + Big(1));
}
Big big_of(const arith_uint256& a)
{
    const uint256 u = ArithToUint256(a);
    return Big::from_bytes_le(u.data(), 32);
}

// fast form for the full sweep: 256-bit numbers as 4 x u64 (little endian), products in 8 x u64
using u128 = unsigned __int128;
struct U256 { uint64_t w[4]; };
struct FastTarget { U256 t; bool invalid; };
inline unsigned nbytes(uint32_t m) { return m == 0 ? 0 : m < 0x100 ? 1 : m < 0x10000 ? 2 : 3; }
inline FastTarget fast_target(uint32_t nb)
{
    FastTarget r{};
    const unsigned e = nb >> 24;
    uint32_t m = nb & 0x007fffff;
    unsigned shift = 0;
    if (e <= 3) m >>= 8 * (3 - e); else shift = e - 3;
    r.invalid = m == 0 || (nb & 0x00800000) || nbytes(m) + shift > 32;
    if (r.invalid) return r;
    unsigned char le[32] = {};
    for (unsigned k = 0; k < 3; k++) if (shift + k < 32) le[shift + k] = (unsigned char)(m >> (8 * k));
    for (int i = 0; i < 4; i++) { uint64_t x = 0; for (int b = 7; b >= 0; b--) x = (x << 8) | le[8 * i + b]; r.t.w[i] = x; }
    return r;
}
// is q == floor(2^256/(t+1)) ?  <=>  q*(t+1) <= 2^256 and 2^256 - q*(t+1) < t+1
inline bool is_proof(const U256& q, const U256& t)
{
    // d = t + 1 as 5 limbs (t = 2^256-1 cannot occur: targets have at most 3 non-zero bytes... but keep it exact)
    uint64_t d[5];
    u128 c = 1;
    for (int i = 0; i < 4; i++) { c += t.w[i]; d[i] = (uint64_t)c; c >>= 64; }
    d[4] = (uint64_t)c;
    uint64_t p[9] = {};
    for (int i = 0; i < 4; i++) {
        u128 carry = 0;
        for (int j = 0; j < 5; j++) {
            u128 cur = (u128)q.w[i] * d[j] + p[i + j] + carry;
            p[i + j] = (uint64_t)cur;
            carry = cur >> 64;
        }
        p[i + 5] += (uint64_t)carry;
    }
    // r = 2^256 - p must satisfy 0 <= r < d
    for (int i = 5; i < 9; i++) if (p[i]) return false;          // p >= 2^320
    if (p[4] > 1) return false;
    if (p[4] == 1) return !(p[0] | p[1] | p[2] | p[3]) && (d[4] | d[3] | d[2] | d[1] | d[0]) != 0; // p == 2^256: r = 0 < d
    // p < 2^256: r = 2^256 - p (as 5 limbs)
    uint64_t r[5];
    u128 borrow = 0;
    const uint64_t two256[5] = {0, 0, 0, 0, 1};
    for (int i = 0; i < 5; i++) {
        u128 sub = (u128)(i < 4 ? p[i] : 0) + borrow;
        r[i] = (uint64_t)((u128)two256[i] - sub);
        borrow = ((u128)two256[i] < sub) ? 1 : 0;
    }
    for (int i = 4; i >= 0; i--) if (r[i] != d[i]) return r[i] < d[i];
    return false; // r == d
}

struct ProofStats { uint64_t n = 0, valid = 0, zero = 0; };
ProofStats g_proof;
vx::Distinct g_proof_values;

void proof_case(uint32_t nb, ProofStats& st, bool record_distinct)
{
    const FastTarget ft = fast_target(nb);
    const arith_uint256 got = GetBitsProof(nb);
    const uint256 gu = ArithToUint256(got);
    U256 q;
    for (int i = 0; i < 4; i++) { uint64_t x = 0; for (int b = 7; b >= 0; b--) x = (x << 8) | gu.data()[8 * i + b]; q.w[i] = x; }
    bool ok;
    if (ft.invalid) ok = !(q.w[0] | q.w[1] | q.w[2] | q.w[3]);
    else ok = is_proof(q, ft.t);
    if (!ok) bad("proof nBits=" + hx(nb), "GetBitsProof=" + got.GetHex() + " is not floor(2^256/(target+1)); reference " + ref_proof(nb).hex());
    st.n++;
    (ft.invalid ? st.zero : st.valid)++;
    if (record_distinct && !ft.invalid) g_proof_values.add(vx::fnv1a(gu.data(), 32));
}

// ---------------------------------------------------------------------------------- trees
const uint32_t TREE_BITS[] = {0x207fffff, 0x1d00ffff, 0x1c0168fd, 0x1b0404cb, 0x170331db, 0x03000100 /* target 256 */, 0x04000080 /* target 0x8000 */,
                              0x00000000 /* zero */, 0x1d80ffff /* negative */, 0x23000001 /* overflow */, 0x1e0377ae, 0x02008000 /* target 128: proof ~2^249, the largest in the alphabet */};
const uint32_t TREE_TIMES[] = {1000, 1010, 990, 1010, 2000, 1, 1500, 1000, 3000, 2999};

struct TreeStats { uint64_t trees = 0, nodes = 0, ancestor_q = 0, lca_q = 0, chain_q = 0, earliest_q = 0, locator_q = 0, work_q = 0; };
TreeStats g_tree;
vx::Distinct g_tree_shapes;

// All queries on one tree given by its parent array (par[0] = -1).
void check_tree(node::BlockManager& bm, const std::vector<int>& par, uint64_t tree_id, TreeStats& st)
{
    const int n = par.size();
    std::vector<CBlockIndex*> idx(n);
    std::vector<int> depth(n);
    std::vector<uint32_t> bits(n), times(n);
    std::vector<Big> work(n);
    std::vector<uint32_t> tmax(n);
    std::string shape;
    CBlockIndex* best = nullptr;
    for (int i = 0; i < n; i++) {
        CBlockHeader h;
        h.nVersion = 4;
        h.hashPrevBlock = i ? idx[par[i]]->GetBlockHash() : uint256{};
        h.hashMerkleRoot = uint256{(uint8_t)i};
        bits[i] = TREE_BITS[(tree_id + 5 * i) % std::size(TREE_BITS)];
        times[i] = TREE_TIMES[(tree_id + 3 * i) % std::size(TREE_TIMES)];
        h.nBits = bits[i];
        h.nTime = times[i];
        h.nNonce = (uint32_t)tree_id;
        idx[i] = bm.AddToBlockIndex(h, best);
        depth[i] = i ? depth[par[i]] + 1 : 0;
        work[i] = (i ? work[par[i]] : Big(0)) + ref_proof(bits[i]);
        tmax[i] = i ? std::max(tmax[par[i]], times[i]) : times[i];
        shape += std::to_string(par[i]) + ",";
    }
    const std::string tkey = "tree parents=[" + shape + "] id=" + std::to_string(tree_id);
    auto naive_anc = [&](int v, int h) { // node index of the ancestor of v at height h, -1 if none
        if (h < 0 || h > depth[v]) return -1;
        while (depth[v] > h) v = par[v];
        return v;
    };
    auto ptr = [&](int v) -> const CBlockIndex* { return v < 0 ? nullptr : idx[v]; };
    // construction results
    for (int i = 0; i < n; i++) {
        if (idx[i]->nHeight != depth[i]) bad(tkey + " node=" + std::to_string(i), "nHeight=" + std::to_string(idx[i]->nHeight) + " want " + std::to_string(depth[i]));
        if (idx[i]->pprev != ptr(i ? par[i] : -1)) bad(tkey + " node=" + std::to_string(i), "pprev is not the parent");
        if (big_of(idx[i]->nChainWork) != work[i]) bad(tkey + " node=" + std::to_string(i) + " nBits=" + hx(bits[i]), "nChainWork=" + idx[i]->nChainWork.GetHex() + " want " + work[i].hex());
        if (idx[i]->GetBlockTimeMax() != (int64_t)tmax[i]) bad(tkey + " node=" + std::to_string(i), "nTimeMax=" + std::to_string(idx[i]->GetBlockTimeMax()) + " want " + std::to_string(tmax[i]));
        st.work_q++;
        for (int h = -1; h <= depth[i] + 1; h++) {
            if (idx[i]->GetAncestor(h) != ptr(naive_anc(i, h))) bad(tkey + " GetAncestor node=" + std::to_string(i) + " height=" + std::to_string(h), "wrong ancestor");
            st.ancestor_q++;
        }
    }
    // last common ancestor of every ordered pair
    auto naive_lca = [&](int a, int b) {
        while (a != b) { if (depth[a] >= depth[b]) a = par[a]; else b = par[b]; }
        return a;
    };
    for (int a = 0; a < n; a++)
        for (int b = 0; b < n; b++) {
            if (LastCommonAncestor(idx[a], idx[b]) != idx[naive_lca(a, b)]) bad(tkey + " LastCommonAncestor a=" + std::to_string(a) + " b=" + std::to_string(b), "wrong block");
            st.lca_q++;
        }
    // CChain for every tip, also re-pointed from every other tip
    for (int tip = 0; tip < n; tip++) {
        for (int from = -1; from < n; from++) {
            CChain c;
            if (from >= 0) c.SetTip(*idx[from]);
            c.SetTip(*idx[tip]);
            const std::string ckey = tkey + " chain tip=" + std::to_string(tip) + (from >= 0 ? " (previous tip " + std::to_string(from) + ")" : "");
            if (c.Height() != depth[tip] || c.Tip() != idx[tip] || c.Genesis() != idx[0]) bad(ckey, "Height/Tip/Genesis wrong");
            for (int h = -1; h <= depth[tip] + 1; h++) {
                if (c[h] != ptr(naive_anc(tip, h))) bad(ckey + " [" + std::to_string(h) + "]", "wrong block at height");
                st.chain_q++;
            }
            if (from >= 0) continue; // the remaining queries only read vChain, which was just compared completely
            for (int x = 0; x < n; x++) {
                const bool on = naive_anc(tip, depth[x]) == x;
                if (c.Contains(*idx[x]) != on) bad(ckey + " Contains node=" + std::to_string(x), "wrong answer");
                const CBlockIndex* nx = on ? ptr(naive_anc(tip, depth[x] + 1)) : nullptr;
                if (c.Next(*idx[x]) != nx) bad(ckey + " Next node=" + std::to_string(x), "wrong block");
                if (c.FindFork(*idx[x]) != idx[naive_lca(tip, x)]) bad(ckey + " FindFork node=" + std::to_string(x), "wrong block");
                st.chain_q += 3;
            }
            // earliest block on the chain with max-time >= T and height >= H
            for (uint32_t t0 : TREE_TIMES)
                for (int64_t T : {(int64_t)t0 - 1, (int64_t)t0, (int64_t)t0 + 1})
                    for (int H = 0; H <= depth[tip] + 1; H++) {
                        int want = -1;
                        for (int h = 0; h <= depth[tip]; h++) {
                            int v = naive_anc(tip, h);
                            if ((int64_t)tmax[v] >= T && h >= H) { want = v; break; }
                        }
                        if (c.FindEarliestAtLeast(T, H) != ptr(want)) bad(ckey + " FindEarliestAtLeast time=" + std::to_string(T) + " height=" + std::to_string(H), "wrong block");
                        st.earliest_q++;
                    }
        }
        // locator: heights tip, tip-1, ... (step doubles after 10 entries), always ends with genesis
        std::vector<uint256> want;
        for (int h = depth[tip], step = 1;;) {
            want.push_back(idx[naive_anc(tip, h)]->GetBlockHash());
            if (h == 0) break;
            h = std::max(h - step, 0);
            if (want.size() > 10) step *= 2;
        }
        if (LocatorEntries(idx[tip]) != want || GetLocator(idx[tip]).vHave != want) bad(tkey + " locator tip=" + std::to_string(tip), "wrong entries");
        st.locator_q++;
    }
    st.trees++;
    st.nodes += n;
    g_tree_shapes.add(shape);
}

void all_trees(int n, const std::function<void(const std::vector<int>&)>& fn)
{
    std::vector<int> par(n, 0);
    par[0] = -1;
    std::function<void(int)> rec = [&](int i) {
        if (i == n) { fn(par); return; }
        for (int p = 0; p < i; p++) { par[i] = p; rec(i + 1); }
    };
    rec(1);
}

// ---------------------------------------------------------------------------------- long chains (plain objects)
struct PlainChain {
    std::vector<uint256> hashes;
    std::vector<CBlockIndex> blocks;
    // trunk of `len` blocks; further branches can be appended with add()
    explicit PlainChain(size_t reserve) { hashes.reserve(reserve); blocks.reserve(reserve); }
    int add(int parent)
    {
        const int i = blocks.size();
        uint256 h;
        memcpy(h.data(), &i, sizeof i);
        h.data()[31] = 0x54;
        hashes.push_back(h);
        blocks.emplace_back();
        CBlockIndex& b = blocks.back();
        b.phashBlock = &hashes.back();
        b.pprev = parent >= 0 ? &blocks[parent] : nullptr;
        b.nHeight = parent >= 0 ? blocks[parent].nHeight + 1 : 0;
        b.BuildSkip();
        return i;
    }
};

} // namespace

int main(int argc, char** argv)
{
    vx::init(argc, argv, "C54", "exploration");
    auto& E = vx::ev();
    const bool big = vx::thorough();
    if (!vx::ctx().replay.empty()) printf("replay: the key in the replay file names the tree (parent array) / input; re-run the tier to re-evaluate\n");

    // ---------------------------------------------------------------- 1. all rooted trees
    {
        BasicTestingSetup setup{ChainType::REGTEST};
        node::KernelNotifications notifications{Assert(setup.m_node.shutdown_request), setup.m_node.exit_status, *Assert(setup.m_node.warnings)};
        const auto params = CChainParams::RegTest({});
        const int maxn = big ? 9 : 8;
        uint64_t tree_id = 0;
        for (int n = 1; n <= maxn; n++) {
            std::unique_ptr<node::BlockManager> bm;
            uint64_t in_bm = 0;
            all_trees(n, [&](const std::vector<int>& par) {
                if (!bm || in_bm >= 2000) { // fresh, empty block index every 2000 trees
                    const node::BlockManager::Options opts{
                        .chainparams = *params,
                        .blocks_dir = setup.m_args.GetBlocksDirPath(),
                        .notifications = notifications,
                        .block_tree_db_params = DBParams{.path = setup.m_args.GetDataDirNet() / "blocks" / "index", .cache_bytes = 0, .memory_only = true},
                    };
                    bm = std::make_unique<node::BlockManager>(*Assert(setup.m_node.shutdown_signal), opts);
                    in_bm = 0;
                }
                LOCK(cs_main);
                check_tree(*bm, par, tree_id++, g_tree);
                in_bm++;
            });
            printf("trees with %d nodes done: %" PRIu64 " trees so far, %.1fs\n", n, g_tree.trees, vx::elapsed());
            if (vx::deadline_reached()) { E.exhaustive = false; break; }
        }
        E.set("tree_max_nodes", (uint64_t)maxn);
        E.set("trees", g_tree.trees);
        E.set("tree_ancestor_queries", g_tree.ancestor_q);
        E.set("tree_lca_queries", g_tree.lca_q);
        E.set("tree_chain_queries", g_tree.chain_q);
        E.set("tree_find_earliest_queries", g_tree.earliest_q);
        E.set("tree_locator_queries", g_tree.locator_q);
        E.evaluations += g_tree.ancestor_q + g_tree.lca_q + g_tree.chain_q + g_tree.earliest_q + g_tree.locator_q + g_tree.work_q;
    }

    // ---------------------------------------------------------------- 2. long chains: skip list depth and locators
    uint64_t long_anc = 0, long_loc = 0, long_lca = 0, loc_doubling = 0;
    {
        const int L = big ? 6000 : 2100;              // every tip height 0..L-1 x every target height
        const int LONG = big ? 300000 : 70000;        // spot tips on a long trunk
        PlainChain pc(LONG + 64 * 600);
        for (int i = 0; i < LONG; i++) pc.add(i - 1);
        auto& B = pc.blocks;
        std::atomic<uint64_t> anc{0};
        vx::par_for(L, 16, [&](uint64_t lo, uint64_t hi, unsigned) {
            uint64_t k = 0;
            for (uint64_t t = lo; t < hi; t++) {
                for (int h = 0; h <= (int)t; h++, k++)
                    if (B[t].GetAncestor(h) != &B[h]) bad("chain GetAncestor tip=" + std::to_string(t) + " height=" + std::to_string(h), "wrong ancestor");
                if (B[t].GetAncestor((int)t + 1) != nullptr || B[t].GetAncestor(-1) != nullptr) bad("chain GetAncestor tip=" + std::to_string(t), "out-of-range height must give null");
            }
            anc += k;
        });
        long_anc += anc;
        // spot tips: every target height
        std::vector<int> tips = {10000, 32767, 32768, 32769, 65535, 65536, 65537, 69999};
        if (big) for (int t : {99999, 100000, 131071, 131072, 131073, 262143, 262144, 262145, 299999}) tips.push_back(t);
        for (int t : tips) {
            std::atomic<uint64_t> a2{0};
            vx::par_for(t + 1, 4096, [&](uint64_t lo, uint64_t hi, unsigned) {
                for (uint64_t h = lo; h < hi; h++)
                    if (B[t].GetAncestor((int)h) != &B[h]) bad("chain GetAncestor tip=" + std::to_string(t) + " height=" + std::to_string(h), "wrong ancestor");
                a2 += hi - lo;
            });
            long_anc += a2;
        }
        // locators for every tip height 0..L-1 and the spot tips: exact heights
        std::vector<int> loc_tips;
        for (int t = 0; t < L; t++) loc_tips.push_back(t);
        for (int t : tips) loc_tips.push_back(t);
        for (int t : loc_tips) {
            std::vector<uint256> want;
            for (int h = t, step = 1;;) {
                want.push_back(pc.hashes[h]);
                if (h == 0) break;
                h = std::max(h - step, 0);
                if (want.size() > 10) step *= 2;
            }
            const std::vector<uint256> got = LocatorEntries(&B[t]);
            if (got != want || GetLocator(&B[t]).vHave != want) {
                std::string hs;
                for (const uint256& g : got) { int v; memcpy(&v, g.data(), sizeof v); hs += std::to_string(v) + " "; }
                bad("locator tip=" + std::to_string(t), "entries at heights: " + hs);
            }
            long_loc++;
            loc_doubling += want.size() > 12;
        }
        if (!LocatorEntries(nullptr).empty()) bad("locator null", "locator of no block must be empty");
        // forks off the long trunk: last common ancestor / FindFork across deep skip pointers
        const int BR = big ? 300 : 60;
        std::vector<int> forks = {0, 1, 2, 3, 62, 63, 64, 65, 1000, 1023, 1024, 1025, 2047, 2048, 4095, 4096, 4097};
        const int TR = big ? 6000 : 4200; // trunk heights compared
        std::vector<std::pair<int, int>> branches; // (fork height, first index)
        for (int f : forks) {
            int parent = f;
            branches.emplace_back(f, (int)B.size());
            for (int k = 0; k < BR; k++) parent = pc.add(parent);
        }
        std::atomic<uint64_t> lca{0};
        vx::par_for(branches.size() * BR, 8, [&](uint64_t lo, uint64_t hi, unsigned) {
            uint64_t k = 0;
            for (uint64_t j = lo; j < hi; j++) {
                const int f = branches[j / BR].first;
                const CBlockIndex* y = &B[branches[j / BR].second + j % BR];
                for (int x = 0; x < TR; x++, k++) {
                    const CBlockIndex* want = &B[std::min(x, f)];
                    if (LastCommonAncestor(&B[x], y) != want || LastCommonAncestor(y, &B[x]) != want)
                        bad("fork LastCommonAncestor trunk=" + std::to_string(x) + " fork_height=" + std::to_string(f) + " branch_height=" + std::to_string(y->nHeight), "wrong block");
                }
                // two different branches meet at the lower fork point
                for (size_t o = 0; o < branches.size(); o++, k++) {
                    const CBlockIndex* z = &B[branches[o].second + (j * 7) % BR];
                    const CBlockIndex* want = o == j / BR ? (z->nHeight < y->nHeight ? z : y) : &B[std::min(f, branches[o].first)];
                    if (LastCommonAncestor(y, z) != want) bad("fork LastCommonAncestor branches fork_heights=" + std::to_string(f) + "," + std::to_string(branches[o].first), "wrong block");
                }
            }
            lca += k;
        });
        long_lca += lca;
        // CChain::FindFork from a trunk chain to every branch block
        {
            CChain c;
            c.SetTip(B[TR - 1]);
            for (auto& [f, first] : branches)
                for (int k = 0; k < BR; k++, long_lca++)
                    if (c.FindFork(B[first + k]) != &B[f]) bad("fork FindFork fork_height=" + std::to_string(f) + " branch_block=" + std::to_string(k), "wrong block");
            CChain s;
            s.SetTip(B[100]); // chain shorter than the queried block
            for (int x : {0, 50, 100, 101, 5000}) { if (s.FindFork(B[x]) != &B[std::min(x, 100)]) bad("FindFork short chain block=" + std::to_string(x), "wrong block"); long_lca++; }
        }
        E.set("chain_ancestor_queries", long_anc);
        E.set("chain_locators", long_loc);
        E.set("chain_lca_queries", long_lca);
        E.evaluations += long_anc + long_loc + long_lca;
        printf("long chains: %.1fs\n", vx::elapsed());
    }

    // ---------------------------------------------------------------- 3. GetBitsProof
    {
        // self-check of the fast reference against the bignum division on boundary values
        const std::vector<uint32_t> MANT = {0x000000, 0x000001, 0x0000ff, 0x000100, 0x008000, 0x00ffff, 0x010000, 0x0377ae, 0x123456, 0x7fffff, 0x800001, 0xffffff};
        for (uint32_t e = 0; e < 256; e++)
            for (uint32_t m : MANT) {
                const uint32_t nb = (e << 24) | m;
                const FastTarget ft = fast_target(nb);
                const Big q = ref_proof(nb);
                const auto qb = q.bytes_le(32);
                U256 qq;
                for (int i = 0; i < 4; i++) { uint64_t x = 0; for (int b = 7; b >= 0; b--) x = (x << 8) | qb[8 * i + b]; qq.w[i] = x; }
                const refbig::Compact c = refbig::decode_compact(nb);
                const bool inv = c.negative || c.overflow || c.value.is_zero();
                U256 q1 = qq; q1.w[0] += 1; // q+1 (no carry needed for the self-check values below)
                if (ft.invalid != inv || (!inv && (!is_proof(qq, ft.t) || (qq.w[0] != ~0ULL && is_proof(q1, ft.t))))) {
                    printf("HARNESS-ERROR property=C54 fast and bignum proof references disagree at %s\n", hx(nb).c_str());
                    return 2;
                }
            }
        const std::vector<uint32_t> MID = {0x00, 0x01, 0x7f, 0x80, 0xfe, 0xff, 0x5a};
        const std::vector<uint32_t> LOW = {0x00, 0x01, 0x02, 0x0f, 0x10, 0x3f, 0x40, 0x55, 0x7e, 0x7f, 0x80, 0x81, 0xaa, 0xc0, 0xe0, 0xf0, 0xfc, 0xfd, 0xfe, 0xff};
        // quick: exponent x mantissa high byte x 7 mid bytes x 20 low bytes; thorough: exponent x all 2^16 upper mantissa
        // bit patterns x 20 low bytes (the complete 2^32 sweep costs ~20 CPU-minutes in the 256-bit division of the
        // code under test and is not run)
        const uint64_t per_top = big ? 256 * LOW.size() : MID.size() * LOW.size();
        std::atomic<bool> cut{false};
        vx::par_for(1 << 16, 16, [&](uint64_t lo, uint64_t hi, unsigned) {
            if (cut || vx::deadline_reached()) { cut = true; return; }
            ProofStats st;
            for (uint64_t top = lo; top < hi; top++)
                for (uint64_t k = 0; k < per_top; k++) {
                    const uint32_t low16 = big ? (uint32_t)((k / LOW.size()) << 8 | LOW[k % LOW.size()]) : (MID[k / LOW.size()] << 8 | LOW[k % LOW.size()]);
                    proof_case((uint32_t)(top << 16) | low16, st, !big || (k % 64) == 0);
                }
            std::lock_guard<std::mutex> l(g_mu);
            g_proof.n += st.n; g_proof.valid += st.valid; g_proof.zero += st.zero;
        });
        if (cut) E.exhaustive = false;
        // GetBlockProof(header/index) are thin wrappers
        for (uint32_t nb : {0x1d00ffffu, 0x207fffffu, 0x03000001u, 0u}) {
            CBlockIndex bi; bi.nBits = nb;
            CBlockHeader bh; bh.nBits = nb;
            if (GetBlockProof(bi) != GetBitsProof(nb) || GetBlockProof(bh) != GetBitsProof(nb)) bad("GetBlockProof wrapper nBits=" + hx(nb), "differs from GetBitsProof");
        }
        E.evaluations += g_proof.n;
        E.set("proof_nbits_values", g_proof.n);
        E.set("proof_valid_targets", g_proof.valid);
        E.set("proof_zero_work", g_proof.zero);
        printf("proof: %" PRIu64 " nBits values, %.1fs\n", g_proof.n, vx::elapsed());
    }

    E.distinct_nontrivial = g_tree_shapes.size() + g_proof_values.size() + long_loc;
    E.rule = std::string("(1) every parent array p[i]<i with <=") + (big ? "9" : "8") + " nodes built by BlockManager::AddToBlockIndex with mixed nBits/times: nHeight, pprev, nChainWork (bignum sum of floor(2^256/(t+1))), nTimeMax, GetAncestor(every node, every height -1..h+1), LastCommonAncestor(all ordered pairs), CChain for every tip and re-pointed from every other tip ([] all heights, Contains/Next/FindFork for all nodes, FindEarliestAtLeast over times+-1 x heights), LocatorEntries/GetLocator; "
             "(2) single chain: GetAncestor for every tip < " + (big ? "6000" : "2100") + " x every height and spot tips up to " + (big ? "299999" : "69999") + " x every height, exact locator heights for all those tips, LastCommonAncestor/FindFork between a trunk and 17 branches forking at skip-list boundaries; "
             "(3) GetBitsProof for " + (big ? "all 256 exponents x all 2^16 upper mantissa bits (incl. sign) x 20 low bytes" : "all exponents x all mantissa high bytes x 140 low-16 patterns") + " vs q*(t+1) <= 2^256 < (q+1)*(t+1). distinct_nontrivial = distinct tree shapes + distinct proof values (thorough: of a 1/64 sub-grid) + locators checked";
    E.sample("trees=" + std::to_string(g_tree.trees) + " nodes=" + std::to_string(g_tree.nodes) + " ancestor_q=" + std::to_string(g_tree.ancestor_q) + " lca_q=" + std::to_string(g_tree.lca_q) + " chain_q=" + std::to_string(g_tree.chain_q));
    E.sample("locator of height 2099: 2099..2089 (step 1), then 2087 2083 2075 ... 0");
    E.sample("proof(0x1d00ffff)=0x100010001, proof(0x207fffff)=2, proof(0x03000001)=2^255, proof(negative/zero/overflow)=0");
    E.assume("trees are built in parent-before-child order with unique headers; the nBits alphabet of the trees keeps every block proof below 2^250 so that the sum over a path of <= 9 blocks stays below 2^256 (no wrap-around of nChainWork)");

    if (vx::rep().violations == 0 && E.exhaustive) {
        const char* miss = nullptr;
        if (!g_tree.trees || !g_tree.lca_q || !g_tree.earliest_q) miss = "tree queries";
        else if (!loc_doubling) miss = "locator with doubling steps";
        else if (!g_proof.valid || !g_proof.zero) miss = "proof classes";
        if (miss) {
            printf("HARNESS-ERROR property=C54 class never occurred: %s\n", miss);
            vx::finish();
            return 2;
        }
    }
    return vx::finish();
}
