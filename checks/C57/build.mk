LINK := full
KITS := chainkit
