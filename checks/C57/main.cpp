// C57 — Scripts are skipped only under the assumed-valid conditions.
//
// Scenario grid on the real regtest node (kits/chainkit) with ChainstateManager options assumed_valid_block and
// minimum_chain_work. A builder node produces the block bodies of long regtest chains on header-only index entries
// (base 1..101 connected; then chains up to height ~2,400 / ~4,300), one of whose blocks X spends an anyone-can-spend
// P2WSH(OP_TRUE) coin with a WRONG witness script (otherwise perfectly valid). For every scenario a fresh node gets
// (assumevalid hash, minimum chain work), the base, the announced headers (main chain up to b, optionally a rival
// header-only branch) and then the blocks in height order through ProcessNewBlock.
// Reference predicate (from the property): script checks of X are skipped iff the assumevalid block is in the index,
// X is an ancestor of (or is) it, X is on the best-header chain, best-header work >= minimum chain work and the work
// between X and the best header is worth MORE than two weeks (regtest: 600 s per block => more than 2016 blocks).
// X must be connected iff that predicate holds; otherwise it must be rejected with a script-verification reason,
// marked failed, and the tip must stay right below X. Control scenarios use a valid witness at the same position.
#include <vx/vx.h>
#include <kits/chainkit.h>

#include <chainparams.h>
#include <util/time.h>

static const int BASE = 101;
static int64_t Work(int h) { return 2 * ((int64_t)h + 1); }

struct Chain { int fork{BASE}; std::vector<CBlock> blocks; /* blocks[i] has height fork+1+i */ int top() const { return fork + (int)blocks.size(); } const CBlock& at(int h) const { return blocks.at(h - fork - 1); } };

struct Builder {
    std::vector<CBlock> base;                 // heights 1..BASE
    std::map<std::string, Chain> chains;
    COutPoint coin;                           // coinbase output of height 1: P2WSH(OP_TRUE), mature from height 101
    CAmount coin_value{0};
};

static CTransactionRef SpendCoin(const Builder& B, bool bad, int tag)
{
    CMutableTransaction m = ck::MakeTx({{B.coin, 0xffffffff, true}}, {{B.coin_value - 1000 - tag, ck::OpTrueSpk()}});
    if (bad) {
        CScript wrong = CScript() << OP_TRUE << OP_TRUE; // not the committed witness script
        m.vin[0].scriptWitness.stack = {std::vector<unsigned char>(wrong.begin(), wrong.end())};
    }
    return MakeTransactionRef(m);
}

// chain of `len` blocks on the base tip; block at height x carries the (bad or good) spend
static void BuildChain(ck::Node& n, Builder& B, const std::string& name, int len, int x, bool bad, int tag)
{
    Chain c;
    const CBlockIndex* p = n.index_of(B.base.back().GetHash());
    for (int i = 0; i < len; i++) {
        int h = BASE + 1 + i;
        std::vector<CTransactionRef> txs;
        ck::BlockOpts bo;
        bo.extra_nonce = tag;
        if (h == x) { txs.push_back(SpendCoin(B, bad, tag)); bo.fees = 0; }
        CBlock b = ck::MakeBlock(n, p, txs, bo);
        BlockValidationState st;
        if (!n.ProcessHeader(b, st)) throw std::runtime_error("builder: header rejected " + st.GetRejectReason());
        p = n.index_of(b.GetHash());
        c.blocks.push_back(std::move(b));
    }
    B.chains[name] = std::move(c);
}

struct Scen {
    std::string name;
    std::string xchain; int x{0}; bool bad{true};
    std::string avchain; int a{0}; bool av_unknown{false}, av_unset{false};
    int headers_to{0};                 // headers of xchain announced up to this height
    std::string rival; int rival_headers_to{0}; bool rival_first{false};
    int64_t m{0};
    int blocks_to{0};                  // blocks of xchain delivered up to this height
};

struct Ref { bool skip; bool av_known, on_av, on_best, work_ok, time_ok; int b; };
static Ref Reference(const Scen& s)
{
    Ref r{};
    bool rival_best = !s.rival.empty() && (s.rival_headers_to > s.headers_to || (s.rival_headers_to == s.headers_to && s.rival_first));
    r.b = rival_best ? s.rival_headers_to : s.headers_to;
    // assumevalid block known to the index: configured, real, and its header announced (base blocks always are)
    bool av_announced = s.a <= BASE || (s.avchain == s.xchain && s.a <= s.headers_to) || (s.avchain == s.rival && s.a <= s.rival_headers_to);
    r.av_known = !s.av_unset && !s.av_unknown && av_announced;
    r.on_av = r.av_known && s.x <= s.a && (s.avchain == s.xchain);
    r.on_best = !rival_best;
    r.work_ok = Work(r.b) >= s.m;
    r.time_ok = (int64_t)(r.b - s.x) * 600 > 14 * 24 * 60 * 60;
    r.skip = r.av_known && r.on_av && r.on_best && r.work_ok && r.time_ok;
    return r;
}

struct Stats { uint64_t scen{0}, skipped{0}, verified_reject{0}, controls{0}; std::map<std::string, int> why; vx::Distinct distinct; };

static void RunScenario(const Builder& B, const Scen& s, Stats& S)
{
    const Chain& xc = B.chains.at(s.xchain);
    ck::NodeOpts o;
    o.min_validation_cache = true;
    o.check_block_index = false;
    if (!s.av_unset) {
        if (s.av_unknown) o.assumed_valid = uint256{0x5a};
        else o.assumed_valid = s.a <= BASE ? B.base.at(s.a - 1).GetHash() : B.chains.at(s.avchain).at(s.a).GetHash();
    } else o.assumed_valid = uint256{};
    o.minimum_chain_work = arith_uint256((uint64_t)s.m);
    ck::Node n(o);
    SetMockTime(Params().GenesisBlock().nTime + 600 * 100000);
    for (auto& b : B.base) if (!n.ProcessBlock(b).pnb_ret) throw std::runtime_error("scenario: base block rejected");
    if (n.height() != BASE) throw std::runtime_error("scenario: base not connected");
    auto announce = [&](const Chain& c, int to) {
        for (int h = c.fork + 1; h <= to; h++) { BlockValidationState st; if (!n.ProcessHeader(c.at(h), st)) throw std::runtime_error("scenario: header rejected " + st.GetRejectReason()); }
    };
    if (!s.rival.empty() && s.rival_first) announce(B.chains.at(s.rival), s.rival_headers_to);
    announce(xc, s.headers_to);
    if (!s.rival.empty() && !s.rival_first) announce(B.chains.at(s.rival), s.rival_headers_to);
    Ref ref = Reference(s);
    {
        LOCK(cs_main);
        // the reference's view of the best header must be the node's (heights and work are a pure function of the plan)
        if (n.chainman().m_best_header->nHeight != ref.b || n.chainman().m_best_header->nChainWork != arith_uint256((uint64_t)Work(ref.b))) { printf("HARNESS-ERROR C57 best header model mismatch in %s\n", s.name.c_str()); exit(2); }
    }
    const uint256 xhash = xc.at(s.x).GetHash();
    ck::BlockResult xres;
    for (int h = BASE + 1; h <= s.blocks_to; h++) {
        ck::BlockResult r = n.ProcessBlock(xc.at(h), true);
        if (h == s.x) xres = r;
        if (h >= s.x && n.height() < s.x) break; // X was refused: nothing above can connect
    }
    bool x_active;
    bool x_failed;
    {
        LOCK(cs_main);
        const CBlockIndex* xi = n.chainman().m_blockman.LookupBlockIndex(xhash);
        x_active = xi && n.chainman().ActiveChain().Contains(*xi);
        x_failed = xi && (xi->nStatus & BLOCK_FAILED_VALID);
    }
    const bool expect_connected = !s.bad || ref.skip;
    std::string why = !s.bad ? "control(valid script)" : ref.skip ? "skip" : !ref.av_known ? "assumevalid-unknown-or-unset" : !ref.on_av ? "not-ancestor-of-assumevalid" : !ref.on_best ? "not-on-best-header-chain" : !ref.work_ok ? "best-header-below-min-work" : "within-two-weeks-of-best-header";
    std::string detail = "x=" + std::to_string(s.x) + " a=" + std::to_string(s.a) + " best_header=" + std::to_string(ref.b) + " m=" + std::to_string(s.m) + " (" + why + ")";
    S.scen++;
    S.why[why]++;
    S.distinct.add(s.name);
    if (s.bad && x_active && !expect_connected) vx::violation("C57-invalid-script-block-connected:" + why, "block with a failing script was connected although script checks may not be skipped: " + detail, "scenario: " + s.name);
    if (s.bad && !x_active && expect_connected) vx::violation("C57-assumevalid-not-applied", "all assumed-valid conditions hold but the block was script-checked and refused (" + xres.reason + "): " + detail, "scenario: " + s.name);
    if (!s.bad && !x_active) vx::violation("C57-valid-block-refused", "control block with a valid script was refused (" + xres.reason + "): " + detail, "scenario: " + s.name);
    if (x_active) {
        if (n.height() != s.blocks_to) vx::violation("C57-chain-stalled-after-x", "X connected but the tip is at " + std::to_string(n.height()) + " instead of " + std::to_string(s.blocks_to), "scenario: " + s.name);
        if (s.bad) S.skipped++; else S.controls++;
    } else if (s.bad) {
        S.verified_reject++;
        if (n.height() != s.x - 1) vx::violation("C57-tip-after-reject", "X refused but the tip is at " + std::to_string(n.height()) + " instead of " + std::to_string(s.x - 1), "scenario: " + s.name);
        if (!x_failed) vx::violation("C57-refused-block-not-failed", "X refused but not marked failed", "scenario: " + s.name);
        if (!xres.checked || xres.valid || xres.reason.find("script-verify-flag-failed") == std::string::npos) vx::violation("C57-reject-reason", "X refused with reason '" + xres.reason + "' instead of a script-verification reason", "scenario: " + s.name);
    }
    if (S.scen % 23 == 1) vx::ev().sample(s.name + ": " + detail + " -> " + (x_active ? "connected" : "refused: " + xres.reason));
}

int main(int argc, char** argv)
{
    vx::init(argc, argv, "C57", "exploration", 150, 1500);
    vx::scratch_dir();
    auto& E = vx::ev();
    const bool big = vx::thorough();
    std::string only;
    if (!vx::ctx().replay.empty()) {
        std::ifstream f(vx::ctx().replay);
        std::string line;
        while (std::getline(f, line)) if (line.rfind("scenario: ", 0) == 0) only = line.substr(10);
    }
    Builder B;
    const int X1 = 102;             // X right above the base
    const int LEN1 = 2300;          // chain "early": heights 102..2401
    const int X2 = 2150;            // X deep inside a long chain
    const int LEN2 = 4400;          // chain "late": heights 102..4501
    {
        ck::NodeOpts o;
        o.min_validation_cache = true;
        o.check_block_index = false;
        ck::Node n(o);
        ck::RefLedger L;
        L.AddGenesis(Params().GenesisBlock());
        SetMockTime(Params().GenesisBlock().nTime + 600 * 100000);
        auto hashes = ck::MineEmpty(n, L, BASE);
        for (auto& h : hashes) B.base.push_back(L.blocks.at(h).block);
        B.coin = COutPoint(B.base[0].vtx[0]->GetHash(), 0);
        B.coin_value = B.base[0].vtx[0]->vout[0].nValue;
        BuildChain(n, B, "early", LEN1, X1, true, 1);
        BuildChain(n, B, "early-good", LEN1, X1, false, 2);
        BuildChain(n, B, "rival", big ? LEN2 + 10 : LEN1 + 10, -1, false, 3); // header-only competitor
        BuildChain(n, B, "side", 6, X1, true, 4);                 // short branch whose first block is bad
        BuildChain(n, B, "clean", LEN1, -1, false, 5);            // all valid
        if (big) { BuildChain(n, B, "late", LEN2, X2, true, 6); BuildChain(n, B, "late-good", LEN2, X2, false, 7); }
    }
    printf("builder done at %.1fs\n", vx::elapsed());
    std::vector<Scen> scens;
    auto add = [&](Scen s) { scens.push_back(std::move(s)); };
    const int TW = 2016; // blocks worth exactly two weeks
    // product grid: assumevalid position x distance to the best header x minimum chain work x rival header branch
    const std::vector<std::string> AVK{"deep", "is-x", "child-of-x", "parent-of-x", "50-below-x", "unknown-hash", "unset", "header-not-announced"};
    const std::vector<int> DIST{1, -1, 0, 2, 250};                 // best header = x + 2016 + d   (baseline first)
    const std::vector<int> MK{-9, -1, 0, 1};                       // -9: no minimum; else min work = best-header work + d
    const std::vector<std::string> RK{"none", "longer", "equal-first", "equal-second", "shorter"};
    auto product = [&](const std::string& chain, int x, int max_dev) {
        for (size_t ai = 0; ai < AVK.size(); ai++) for (size_t di = 0; di < DIST.size(); di++) for (size_t mi = 0; mi < MK.size(); mi++) for (size_t ri = 0; ri < RK.size(); ri++) {
            int dev = (ai != 0) + (di != 0) + (mi != 0) + (ri != 0);
            if (dev > max_dev) continue;
            Scen s;
            s.xchain = chain; s.x = x; s.avchain = chain;
            s.headers_to = x + TW + DIST[di];
            const std::string& av = AVK[ai];
            s.a = av == "is-x" ? x : av == "child-of-x" ? x + 1 : av == "parent-of-x" ? x - 1 : av == "50-below-x" ? x - 50 : av == "header-not-announced" ? s.headers_to + 10 : x + 1000;
            s.av_unknown = av == "unknown-hash"; s.av_unset = av == "unset";
            const std::string& rv = RK[ri];
            if (rv != "none") { s.rival = "rival"; s.rival_headers_to = s.headers_to + (rv == "longer" ? 1 : rv == "shorter" ? -1 : 0); s.rival_first = rv == "equal-first"; }
            int b = Reference(s).b;
            s.m = MK[mi] == -9 ? 0 : Work(b) + MK[mi];
            s.blocks_to = x + 30;
            s.name = chain + "/av=" + av + "/best=x+2016" + (DIST[di] >= 0 ? "+" : "") + std::to_string(DIST[di]) + "/minwork=" + (MK[mi] == -9 ? std::string("0") : "best" + std::string(MK[mi] >= 0 ? "+" : "") + std::to_string(MK[mi])) + "/rival=" + rv;
            add(s);
        }
    };
    product("early", X1, big ? 4 : 2);
    if (big) product("late", X2, 2);
    // assumevalid block on a competing branch at the same height as X
    { Scen s; s.name = "side/av-on-other-branch-same-height"; s.xchain = "side"; s.x = X1; s.avchain = "clean"; s.a = 2300; s.headers_to = X1 + 5; s.rival = "clean"; s.rival_headers_to = 2401; s.blocks_to = X1 + 5; add(s); }
    // X on the best-header chain, assumevalid block on a shorter competing branch (above X's height / at X's height):
    // every condition except "X is an ancestor of the assumevalid block" holds
    for (int a : {2200, X1 + 1, X1}) { Scen s; s.name = "early/av-on-shorter-rival-branch-at-" + std::to_string(a); s.xchain = "early"; s.x = X1; s.avchain = "rival"; s.a = a; s.headers_to = 2401; s.rival = "rival"; s.rival_headers_to = 2300; s.blocks_to = X1 + 30; add(s); }
    // whole chain delivered through a skipped X
    { Scen s; s.name = "early/full-chain-delivered"; s.xchain = "early"; s.x = X1; s.avchain = "early"; s.a = 2300; s.headers_to = 2401; s.blocks_to = 2401; add(s); }
    // controls: valid script at X under skip and under full verification
    { Scen s; s.name = "early-good/skip-conditions-hold"; s.xchain = "early-good"; s.x = X1; s.bad = false; s.avchain = "early-good"; s.a = 2300; s.headers_to = 2401; s.blocks_to = X1 + 30; add(s); }
    { Scen s; s.name = "early-good/av-unset"; s.xchain = "early-good"; s.x = X1; s.bad = false; s.avchain = "early-good"; s.a = 2300; s.av_unset = true; s.headers_to = 2401; s.blocks_to = X1 + 30; add(s); }
    if (big) {
        { Scen s; s.name = "late/full-chain-delivered"; s.xchain = "late"; s.x = X2; s.avchain = "late"; s.a = 4300; s.headers_to = 4501; s.blocks_to = 4501; add(s); }
        { Scen s; s.name = "late-good/av-unset"; s.xchain = "late-good"; s.x = X2; s.bad = false; s.avchain = "late-good"; s.a = 4000; s.av_unset = true; s.headers_to = 4501; s.blocks_to = X2 + 30; add(s); }
    }
    Stats S;
    for (auto& s : scens) {
        if (!only.empty() && s.name != only) continue;
        if (vx::deadline_reached()) { E.exhaustive = false; break; }
        RunScenario(B, s, S);
    }
    E.evaluations = S.scen;
    E.distinct_nontrivial = S.distinct.size();
    E.set("scenarios", S.scen);
    E.set("bad_script_blocks_connected_under_assumevalid", S.skipped);
    E.set("bad_script_blocks_refused", S.verified_reject);
    E.set("controls_connected", S.controls);
    std::string w;
    for (auto& [k, v] : S.why) w += k + ":" + std::to_string(v) + " ";
    E.set_str("classes", w);
    bool bad = false;
    if (only.empty() && E.exhaustive) {
        for (const char* c : {"skip", "assumevalid-unknown-or-unset", "not-ancestor-of-assumevalid", "not-on-best-header-chain", "best-header-below-min-work", "within-two-weeks-of-best-header", "control(valid script)"})
            if (!S.why.count(c)) { printf("HARNESS-ERROR C57 class %s never exercised\n", c); bad = true; }
        if (!S.skipped || !S.verified_reject) { printf("HARNESS-ERROR C57 lacks skipped or refused outcomes\n"); bad = true; }
    }
    E.rule = "product grid: assumevalid block {deep above X, X itself, child of X, parent of X, 50 below X, unknown hash, unset, header not announced} x best header at X+2016+{-1,0,+1,+2,+250} blocks "
             "(2016 blocks = two weeks of work) x minimum chain work {none, best-header work -1/0/+1} x rival header-only branch {none, longer, equal work announced first/second, shorter}; "
             "quick: all combinations deviating from the all-conditions-hold baseline in <= 2 parameters; thorough: the full product for X at height 102 plus the <= 2 deviations grid for X at height 2150 of a 4,500-block chain; "
             "plus assumevalid on a competing branch at X's height, whole-chain delivery, valid-script controls; fresh node per scenario, headers first, then blocks through ProcessNewBlock; distinct = distinct scenarios";
    E.assume("regtest: 600 s target spacing and proof 2 per block, so two weeks of work = 2016 blocks and chain work = 2(height+1); 0 script-check worker threads");
    int rc = vx::finish();
    if (bad && rc == 0) return 2;
    return rc;
}
