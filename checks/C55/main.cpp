// C55 — Saving and reloading the mempool preserves it.
//
// Real regtest node (kits/chainkit) at height 110, one base per file format (v2 with XOR key, v1 "persist_v1_dat").
// Part 1 (histories): every operation sequence up to a depth over
//     submit A | B (child of A) | C | D (spends A and C) | prioritise A | prioritise an absent txid |
//     mark A / C unbroadcast | advance the clock by an hour
// is applied in a fork of the base; the pool is dumped with the real DumpMempool. For each load time
// {dump time, oldest entry + expiry - 1, oldest entry + expiry, newest entry + expiry} a twin fork (same chain, empty
// pool) submits the unexpired saved transactions in saved order through normal submission, and another fork runs the
// real LoadMempool on the file. Oracle: LoadMempool succeeds; loaded set == set the twin accepted; entry time, fee
// delta and unbroadcast status as saved; saved order (when everything loads); deltas of absent txids restored.
// Part 2 (faults): one dump {A, B, C, delta(A), delta(absent), unbroadcast A}; every truncation length and every
// byte x {^0x01, ^0x80} is loaded into a node that already holds two (three) transactions. Oracle: a truncated file
// reports failure; the pool afterwards equals what a twin of the pre-load node gets by normally submitting exactly
// the transactions that entered (so nothing enters that normal submission rejects, and an existing entry can only
// go the way normal submission removes it, i.e. by replacement); without new entries the pool is unchanged.
#include <vx/vx.h>
#include <kits/chainkit.h>
#include <kits/forkpool.h>

#include <chainparams.h>
#include <core_io.h>
#include <node/mempool_persist.h>
#include <streams.h>
#include <util/strencodings.h>
#include <util/time.h>

#include <sys/wait.h>

namespace {

const int64_t FEE = 10000;
int64_t g_t0 = 0;
int64_t g_expiry = 0;
fs::path g_scratch;

// ---------------------------------------------------------------------------------------- run a function in a fork
// returns the string the child produced, or "DIED <status>" if it did not exit normally
std::string InChild(const std::function<std::string()>& fn)
{
    int pfd[2];
    if (pipe(pfd) != 0) return "DIED pipe";
    fflush(stdout);
    pid_t p = fork();
    if (p < 0) return "DIED fork";
    if (p == 0) {
        close(pfd[0]);
        std::string s;
        try { s = fn(); } catch (const std::exception& e) { s = std::string("DIED exception ") + e.what(); }
        size_t off = 0;
        while (off < s.size()) { ssize_t w = write(pfd[1], s.data() + off, s.size() - off); if (w <= 0) break; off += (size_t)w; }
        _exit(0);
    }
    close(pfd[1]);
    std::string out;
    char buf[1 << 14];
    for (;;) { ssize_t n = read(pfd[0], buf, sizeof buf); if (n > 0) out.append(buf, (size_t)n); else if (n == 0 || errno != EINTR) break; }
    close(pfd[0]);
    int st = 0;
    while (waitpid(p, &st, 0) < 0 && errno == EINTR) {}
    if (!WIFEXITED(st) || WEXITSTATUS(st) != 0) return "DIED status " + std::to_string(st);
    return out;
}

// ---------------------------------------------------------------------------------------- observed pool state
struct Entry { CTransactionRef tx; int64_t time{0}; int64_t delta{0}; bool unbroadcast{false}; };
struct PoolState {
    bool ok{true};                          // return value of the call under test (Load / Dump)
    std::vector<Entry> entries;             // infoAll() order
    std::map<std::string, int64_t> deltas;  // every prioritised txid -> delta
    std::set<std::string> unbroadcast;
    std::set<std::string> ids() const { std::set<std::string> s; for (auto& e : entries) s.insert(e.tx->GetHash().ToString()); return s; }
};
std::string TxHex(const CTransaction& tx) { DataStream ds; ds << TX_WITH_WITNESS(tx); return HexStr(ds); }
CTransactionRef TxFromHex(const std::string& h)
{
    CMutableTransaction m;
    if (!DecodeHexTx(m, h)) throw std::runtime_error("tx hex");
    return MakeTransactionRef(m);
}
PoolState Observe(ck::Node& n, bool ok)
{
    PoolState s;
    s.ok = ok;
    auto unb = n.pool().GetUnbroadcastTxs();
    for (auto& i : n.pool().infoAll()) s.entries.push_back({i.tx, count_seconds(i.m_time), i.nFeeDelta, unb.count(i.tx->GetHash()) > 0});
    for (auto& d : n.pool().GetPrioritisedTransactions()) s.deltas[d.txid.ToString()] = d.delta;
    for (auto& u : unb) s.unbroadcast.insert(u.ToString());
    return s;
}
std::string Ser(const PoolState& s)
{
    std::string o = std::string("OK ") + (s.ok ? "1" : "0") + "\n";
    for (auto& e : s.entries) o += "T " + TxHex(*e.tx) + " " + std::to_string(e.time) + " " + std::to_string(e.delta) + " " + (e.unbroadcast ? "1" : "0") + "\n";
    for (auto& [k, v] : s.deltas) o += "D " + k + " " + std::to_string(v) + "\n";
    for (auto& u : s.unbroadcast) o += "U " + u + "\n";
    return o + "END\n";
}
bool Parse(const std::string& text, PoolState& s)
{
    std::istringstream is(text);
    std::string line;
    bool end = false;
    while (std::getline(is, line)) {
        std::istringstream ls(line);
        std::string k;
        ls >> k;
        if (k == "OK") { int v; ls >> v; s.ok = v; }
        else if (k == "T") { std::string hex; Entry e; int u; ls >> hex >> e.time >> e.delta >> u; e.unbroadcast = u; e.tx = TxFromHex(hex); s.entries.push_back(e); }
        else if (k == "D") { std::string id; int64_t d; ls >> id >> d; s.deltas[id] = d; }
        else if (k == "U") { std::string id; ls >> id; s.unbroadcast.insert(id); }
        else if (k == "END") end = true;
    }
    return end;
}

// ---------------------------------------------------------------------------------------- the transaction menu
struct Menu {
    std::vector<COutPoint> cb; // mature coinbase outputs (50 BTC each)
    CTransactionRef A, B, C, D, E1, E2;
    Txid X;                    // a txid that is in no pool
};
Menu g_menu;

void BuildMenu(ck::Node& n, ck::RefLedger& L, const std::vector<uint256>& hashes)
{
    for (int i = 0; i < 8; i++) g_menu.cb.emplace_back(L.blocks.at(hashes[i]).block.vtx[0]->GetHash(), 0);
    const CAmount c = 50 * COIN;
    g_menu.A = ck::SpendTx({g_menu.cb[0]}, {20 * COIN, c - 20 * COIN - FEE});
    g_menu.B = ck::SpendTx({COutPoint(g_menu.A->GetHash(), 0)}, {20 * COIN - FEE});
    g_menu.C = ck::SpendTx({g_menu.cb[1]}, {25 * COIN, c - 25 * COIN - 2 * FEE});
    g_menu.D = ck::SpendTx({COutPoint(g_menu.A->GetHash(), 1), COutPoint(g_menu.C->GetHash(), 0)}, {c - 20 * COIN - FEE + 25 * COIN - 3 * FEE});
    g_menu.E1 = ck::SpendTx({g_menu.cb[2]}, {c - 4 * FEE});
    g_menu.E2 = ck::SpendTx({g_menu.cb[3]}, {10 * COIN, c - 10 * COIN - FEE});
    g_menu.X = Txid::FromUint256(uint256{0x55});
    (void)n;
}

enum Op { OP_A, OP_B, OP_C, OP_D, OP_PA, OP_PX, OP_UA, OP_UC, OP_T, N_OPS };
const char* OP_NAME[N_OPS] = {"A", "B", "C", "D", "prioA", "prioX", "unbA", "unbC", "+1h"};

// syntactically valid histories (each submit / prioritise / mark at most once, dependencies respected, no trailing clock step)
void Histories(int depth, std::vector<std::vector<int>>& out)
{
    std::vector<int> cur;
    out.push_back({}); // the empty pool
    std::function<void()> rec = [&]() {
        if (!cur.empty() && cur.back() != OP_T) out.push_back(cur);
        if ((int)cur.size() == depth) return;
        auto has = [&](int op) { return std::find(cur.begin(), cur.end(), op) != cur.end(); };
        for (int op = 0; op < N_OPS; op++) {
            if (op != OP_T && has(op)) continue;
            if (op == OP_T && std::count(cur.begin(), cur.end(), (int)OP_T) >= 2) continue;
            if (op == OP_B && !has(OP_A)) continue;
            if (op == OP_D && !(has(OP_A) && has(OP_C))) continue;
            if (op == OP_UA && !has(OP_A)) continue;
            if (op == OP_UC && !has(OP_C)) continue;
            cur.push_back(op);
            rec();
            cur.pop_back();
        }
    };
    rec();
}
std::string HistStr(const std::vector<int>& h)
{
    std::string s;
    for (size_t i = 0; i < h.size(); i++) s += (i ? " " : "") + std::string(OP_NAME[h[i]]);
    return s;
}

// applies a history to the node (in a forked child); returns "" or an error
std::string Apply(ck::Node& n, const std::vector<int>& h)
{
    int64_t now = g_t0;
    SetMockTime(now);
    for (int op : h) {
        CTransactionRef tx;
        switch (op) {
        case OP_A: tx = g_menu.A; break;
        case OP_B: tx = g_menu.B; break;
        case OP_C: tx = g_menu.C; break;
        case OP_D: tx = g_menu.D; break;
        case OP_PA: n.pool().PrioritiseTransaction(g_menu.A->GetHash(), 5000); break;
        case OP_PX: n.pool().PrioritiseTransaction(g_menu.X, -700); break;
        case OP_UA: n.pool().AddUnbroadcastTx(g_menu.A->GetHash()); break;
        case OP_UC: n.pool().AddUnbroadcastTx(g_menu.C->GetHash()); break;
        case OP_T: now += 3600; SetMockTime(now); break;
        }
        if (tx) {
            auto r = n.SubmitTx(tx);
            if (r.m_result_type != MempoolAcceptResult::ResultType::VALID) return "menu transaction rejected: " + r.m_state.ToString();
        }
    }
    return "";
}

bool LoadFile(ck::Node& n, const fs::path& f)
{
    return node::LoadMempool(n.pool(), f, n.cs(), {});
}

// ---------------------------------------------------------------------------------------- part 1: one history
void HistoryJob(ck::Node& n, const std::string& fmt, const std::vector<int>& h, uint64_t job, fp::Out& o)
{
    const std::string tag = "format=" + fmt + " history=[" + HistStr(h) + "]";
    auto V = [&](const std::string& key, const std::string& what) { o.violation("C55 " + key + " | " + tag, what, "scenario: " + tag); };
    const fs::path file = g_scratch / fs::u8path("h" + std::to_string(job) + "-" + std::to_string(getpid()) + ".dat");
    // source: apply, observe, dump
    std::string src = InChild([&] {
        std::string err = Apply(n, h);
        if (!err.empty()) return "ERR " + err;
        bool ok = node::DumpMempool(n.pool(), file);
        return Ser(Observe(n, ok));
    });
    PoolState saved;
    if (src.rfind("ERR", 0) == 0 || src.rfind("DIED", 0) == 0 || !Parse(src, saved)) { V("source-failed", src.substr(0, 200)); return; }
    if (!saved.ok) { V("dump-failed", "DumpMempool returned false"); return; }
    const std::set<std::string> saved_ids = saved.ids();
    int64_t tmin = INT64_MAX, tmax = g_t0, dump_time = g_t0 + 3600 * std::count(h.begin(), h.end(), (int)OP_T);
    for (auto& e : saved.entries) { tmin = std::min(tmin, e.time); tmax = std::max(tmax, e.time); }
    std::set<int64_t> nows;
    if (saved.entries.empty() || h.size() <= 2) nows.insert(dump_time);
    if (!saved.entries.empty()) { nows.insert(tmin + g_expiry - 1); nows.insert(tmin + g_expiry); nows.insert(tmax + g_expiry); }
    for (int64_t now : nows) {
        const std::string vtag = " load_time=dump" + std::string(now >= dump_time ? "+" : "") + std::to_string(now - dump_time);
        // twin: normal submission of the unexpired saved transactions, in saved order
        std::string tw = InChild([&] {
            SetMockTime(now);
            std::string acc;
            for (auto& e : saved.entries) {
                if (!(e.time > now - g_expiry)) continue; // expired at load time
                auto r = n.SubmitTx(e.tx);
                if (r.m_result_type == MempoolAcceptResult::ResultType::VALID) acc += e.tx->GetHash().ToString() + "\n";
            }
            return acc + "END\n";
        });
        if (tw.rfind("DIED", 0) == 0 || tw.find("END\n") == std::string::npos) { V("twin-failed" + vtag, tw.substr(0, 200)); continue; }
        std::set<std::string> expect;
        { std::istringstream is(tw); std::string l; while (std::getline(is, l)) if (l != "END" && !l.empty()) expect.insert(l); }
        std::string ld = InChild([&] {
            SetMockTime(now);
            bool ok = LoadFile(n, file);
            return Ser(Observe(n, ok));
        });
        PoolState got;
        if (ld.rfind("DIED", 0) == 0 || !Parse(ld, got)) { V("load-process-died" + vtag, ld.substr(0, 200)); continue; }
        o.count("loads");
        if (!got.ok) V("load-reported-failure" + vtag, "LoadMempool returned false for a well-formed file");
        const std::set<std::string> got_ids = got.ids();
        if (got_ids != expect) {
            std::string d;
            for (auto& x : expect) if (!got_ids.count(x)) d += " missing:" + x.substr(0, 12);
            for (auto& x : got_ids) if (!expect.count(x)) d += " extra:" + x.substr(0, 12);
            V("loaded-set-differs" + vtag, "loaded " + std::to_string(got_ids.size()) + " transactions, normal submission accepts " + std::to_string(expect.size()) + ":" + d);
        }
        std::map<std::string, const Entry*> sv;
        for (auto& e : saved.entries) sv[e.tx->GetHash().ToString()] = &e;
        for (auto& e : got.entries) {
            const std::string id = e.tx->GetHash().ToString();
            auto it = sv.find(id);
            if (it == sv.end()) continue; // reported above as extra
            if (e.tx->GetWitnessHash() != it->second->tx->GetWitnessHash()) V("witness-differs" + vtag, id);
            if (e.time != it->second->time) V("entry-time-differs" + vtag, id.substr(0, 12) + ": saved " + std::to_string(it->second->time) + " loaded " + std::to_string(e.time));
            if (e.delta != it->second->delta) V("fee-delta-differs" + vtag, id.substr(0, 12) + ": saved " + std::to_string(it->second->delta) + " loaded " + std::to_string(e.delta));
            if (e.unbroadcast != it->second->unbroadcast) V("unbroadcast-differs" + vtag, id.substr(0, 12) + ": saved " + std::to_string(it->second->unbroadcast) + " loaded " + std::to_string(e.unbroadcast));
        }
        for (auto& u : got.unbroadcast) if (!got_ids.count(u)) V("unbroadcast-of-absent-tx" + vtag, u);
        if (got_ids == saved_ids) {
            for (size_t i = 0; i < got.entries.size(); i++)
                if (got.entries[i].tx->GetHash() != saved.entries[i].tx->GetHash()) { V("order-differs" + vtag, "position " + std::to_string(i)); break; }
            o.count("loads_complete");
        } else o.count(got_ids.empty() ? "loads_all_expired" : "loads_partial");
        // prioritisation of transactions that were not in the saved pool
        for (auto& [id, d] : saved.deltas) {
            if (saved_ids.count(id)) continue;
            auto it = got.deltas.find(id);
            if (it == got.deltas.end() || it->second != d) V("absent-delta-not-restored" + vtag, id.substr(0, 12) + ": saved " + std::to_string(d) + " loaded " + (it == got.deltas.end() ? "none" : std::to_string(it->second)));
            o.count("absent_deltas_checked");
        }
        o.distinct("nontrivial", tag + vtag);
    }
    std::error_code ec;
    fs::remove(file, ec);
    o.count("histories");
    if (job % 97 == 0) o.sample(tag + ": " + std::to_string(saved.entries.size()) + " entries, " + std::to_string(saved.deltas.size()) + " deltas, " + std::to_string(saved.unbroadcast.size()) + " unbroadcast, " + std::to_string(nows.size()) + " load times");
}

// ---------------------------------------------------------------------------------------- part 2: one mutated file
struct Mut { int kind; size_t pos; unsigned char x; }; // kind 0: truncate to pos bytes; 1: byte pos ^= x
std::string MutStr(const Mut& m) { return m.kind == 0 ? "truncate_to=" + std::to_string(m.pos) : "flip byte " + std::to_string(m.pos) + " ^0x" + (m.x == 1 ? "01" : "80"); }

void FaultJob(ck::Node& n, const std::string& cfg, const std::vector<unsigned char>& dump, const Mut& m, uint64_t job, fp::Out& o)
{
    const std::string tag = cfg + " " + MutStr(m);
    auto V = [&](const std::string& key, const std::string& what) { o.violation("C55 " + key + " | " + tag, what, "scenario: " + tag); };
    std::vector<unsigned char> bytes = dump;
    if (m.kind == 0) bytes.resize(m.pos); else bytes[m.pos] ^= m.x;
    const fs::path file = g_scratch / fs::u8path("f" + std::to_string(job) + "-" + std::to_string(getpid()) + ".dat");
    { std::ofstream f(fs::PathToString(file), std::ios::binary); f.write((const char*)bytes.data(), bytes.size()); }
    const PoolState before = Observe(n, true);
    std::string ld = InChild([&] {
        bool ok = LoadFile(n, file);
        return Ser(Observe(n, ok));
    });
    std::error_code ec;
    fs::remove(file, ec);
    PoolState got;
    if (ld.rfind("DIED", 0) == 0 || !Parse(ld, got)) { V("load-process-died", "the process died or aborted while loading the file: " + ld.substr(0, 100)); return; }
    o.count(m.kind == 0 ? "truncations" : "flips");
    if (m.kind == 0 && got.ok) V("truncated-file-reported-success", "LoadMempool returned true for a file cut to " + std::to_string(m.pos) + " of " + std::to_string(dump.size()) + " bytes");
    o.count(got.ok ? "load_returned_true" : "load_returned_false");
    const std::set<std::string> b_ids = before.ids(), g_ids = got.ids();
    std::vector<const Entry*> entered;
    for (auto& e : got.entries) if (!b_ids.count(e.tx->GetHash().ToString())) entered.push_back(&e);
    std::set<std::string> expect = b_ids;
    if (!entered.empty()) {
        // twin of the pre-load node: normal submission of exactly the transactions that entered, in pool order
        std::string tw = InChild([&] {
            for (const Entry* e : entered) n.SubmitTx(e->tx);
            std::string s;
            for (auto& id : Observe(n, true).ids()) s += id + "\n";
            return s + "END\n";
        });
        if (tw.rfind("DIED", 0) == 0 || tw.find("END\n") == std::string::npos) { V("twin-failed", tw.substr(0, 100)); return; }
        expect.clear();
        std::istringstream is(tw);
        std::string l;
        while (std::getline(is, l)) if (l != "END" && !l.empty()) expect.insert(l);
        o.count("loads_with_new_entries");
        bool original = true;
        for (const Entry* e : entered) {
            const uint256 w = e->tx->GetWitnessHash().ToUint256();
            if (w != g_menu.A->GetWitnessHash().ToUint256() && w != g_menu.B->GetWitnessHash().ToUint256() && w != g_menu.C->GetWitnessHash().ToUint256()) original = false;
        }
        if (!original) { o.count("loads_with_altered_tx_entering"); o.distinct("nontrivial", tag); }
    }
    if (g_ids != expect) {
        std::string d;
        for (auto& x : expect) if (!g_ids.count(x)) d += " missing:" + x.substr(0, 12) + (b_ids.count(x) ? "(was in the pool before)" : "");
        for (auto& x : g_ids) if (!expect.count(x)) d += " extra:" + x.substr(0, 12);
        V(entered.empty() ? "pool-changed-without-new-entries" : "pool-differs-from-normal-submission", "after loading:" + d);
    }
    bool lost = false;
    for (auto& x : b_ids) if (!g_ids.count(x)) lost = true;
    if (lost) o.count("existing_entry_replaced_like_normal_submission");
    if (m.kind == 0 || !entered.empty() || !got.ok) o.distinct("nontrivial", tag);
}

} // namespace

int main(int argc, char** argv)
{
    vx::init(argc, argv, "C55", "fault_enumeration", 150, 1500);
    g_scratch = fs::PathFromString(vx::scratch_dir()) / fs::u8path("c55-" + std::to_string(getpid()));
    fs::create_directories(g_scratch);
    auto& E = vx::ev();
    const bool big = vx::thorough();
    if (!vx::ctx().replay.empty()) {
        std::ifstream f(vx::ctx().replay);
        std::string line;
        while (std::getline(f, line)) if (line.rfind("scenario: ", 0) == 0) printf("replay: scenario '%s' (re-run the tier; scenarios are enumerated deterministically)\n", line.substr(10).c_str());
    }
    std::map<std::string, uint64_t> counts;
    std::unordered_set<uint64_t> nontrivial;
    std::vector<std::string> samples;
    bool cut = false;
    std::string sizes;

    for (const std::string fmt : {"v1", "v2"}) {
        if (cut) break;
        ck::NodeOpts o;
        o.min_validation_cache = true;
        o.mempool_tweak = [&](CTxMemPool::Options& mo) { mo.persist_v1_dat = (fmt == "v1"); };
        ck::Node node(o);
        ck::RefLedger L;
        L.AddGenesis(Params().GenesisBlock());
        SetMockTime(Params().GenesisBlock().nTime + 600 * 100000);
        const std::vector<uint256> hashes = ck::MineEmpty(node, L, 110);
        g_t0 = Params().GenesisBlock().nTime + 600 * 100000 + 1000;
        g_expiry = count_seconds(node.pool().m_opts.expiry);
        BuildMenu(node, L, hashes);
        if (ck::ThreadCount() != 1) { printf("HARNESS-ERROR C55 process is not single-threaded before fork\n"); return 2; }
        auto merge = [&](fp::Pool& pool) {
            for (auto& [k, v] : pool.counts) counts[k] += v;
            for (uint64_t h : pool.distinct["nontrivial"]) nontrivial.insert(h);
            for (auto& s : pool.samples) if (samples.size() < 10) samples.push_back(s);
            if (!pool.complete) cut = true;
        };
        // ---- part 1
        {
            std::vector<std::vector<int>> hist;
            // v2 (the default format) gets the deep enumeration, v1 a shallow one plus three fixed longer histories
            const int depth = fmt == "v2" ? (big ? 4 : 2) : (big ? 2 : 1);
            Histories(depth, hist);
            if (fmt == "v1") { hist.push_back({OP_A, OP_T, OP_B}); hist.push_back({OP_A, OP_C, OP_D}); hist.push_back({OP_PA, OP_A, OP_UA}); }
            if (depth < 3) { hist.push_back({OP_A, OP_T, OP_C}); hist.push_back({OP_C, OP_T, OP_A, OP_UA, OP_B}); } // entries of different age: partial loads
            fp::Pool pool;
            pool.workers = std::min<unsigned>(vx::ncpu(), 12);
            pool.run(hist.size(), [&](uint64_t j, fp::Out& out) { HistoryJob(node, fmt, hist[j], j, out); }, [&](uint64_t j) { return "format=" + fmt + " history=[" + HistStr(hist[j]) + "]"; });
            merge(pool);
            printf("format %s: %zu histories, %.1fs\n", fmt.c_str(), hist.size(), vx::elapsed());
        }
        if (cut) break;
        // ---- part 2: the dump to be damaged
        std::vector<unsigned char> dump;
        {
            const fs::path file = g_scratch / fs::u8path("fault-src.dat");
            std::string r = InChild([&] {
                std::string err = Apply(node, {OP_A, OP_T, OP_B, OP_C, OP_PA, OP_PX, OP_UA});
                if (!err.empty()) return "ERR " + err;
                return std::string(node::DumpMempool(node.pool(), file) ? "OK" : "ERR dump");
            });
            if (r != "OK") { printf("HARNESS-ERROR C55 cannot produce the fault-injection dump: %s\n", r.c_str()); return 2; }
            std::ifstream f(fs::PathToString(file), std::ios::binary);
            dump.assign(std::istreambuf_iterator<char>(f), std::istreambuf_iterator<char>());
            sizes += fmt + ":" + std::to_string(dump.size()) + "B ";
        }
        SetMockTime(g_t0 + 7200);
        // target pools: {E1,E2} (disjoint from the dump) and then {E1,E2,C} (C is also in the dump)
        for (int target = 0; target < 2 && !cut; target++) {
            for (const CTransactionRef& tx : target == 0 ? std::vector<CTransactionRef>{g_menu.E1, g_menu.E2} : std::vector<CTransactionRef>{g_menu.C}) {
                auto r = node.SubmitTx(tx);
                if (r.m_result_type != MempoolAcceptResult::ResultType::VALID) { printf("HARNESS-ERROR C55 target transaction rejected\n"); return 2; }
            }
            const std::string cfg = "format=" + fmt + " pool_before=" + (target == 0 ? "{E1,E2}" : "{E1,E2,C}");
            std::vector<Mut> muts;
            // grid per configuration: truncation step / flip step / which flips
            //   thorough: v1 {E1,E2}: everything;  v2 {E1,E2}: every 2nd length, ^0x80 of every 2nd byte;  v1 {E1,E2,C}: every 8th length, ^0x01 of every 2nd byte
            //   quick:    v1 {E1,E2}: lengths 0..24, every 16th, last 12; ^0x01 of every 8th byte;  v2 {E1,E2}: every 32nd length, ^0x80 of every 16th byte;  v1 {E1,E2,C}: ^0x01 of every 16th byte
            if (fmt == "v2" && target == 1) continue;
            const bool main_cfg = fmt == "v1" && target == 0;
            size_t tstep, fstep;
            unsigned char fx[2] = {0, 0};
            if (big) {
                if (main_cfg) { tstep = 1; fstep = 1; fx[0] = 0x01; fx[1] = 0x80; }
                else if (fmt == "v2") { tstep = 2; fstep = 2; fx[0] = 0x80; }
                else { tstep = 8; fstep = 2; fx[0] = 0x01; }
            } else {
                if (main_cfg) { tstep = 16; fstep = 8; fx[0] = 0x01; }
                else if (fmt == "v2") { tstep = 32; fstep = 16; fx[0] = 0x80; }
                else { tstep = 0; fstep = 16; fx[0] = 0x01; }
            }
            for (size_t len = 0; len < dump.size(); len++)
                if (tstep && (len % tstep == 0 || (main_cfg && (len <= 24 || len + 12 >= dump.size())))) muts.push_back({0, len, 0});
            for (size_t i = 0; i < dump.size(); i++)
                for (unsigned char x : fx)
                    if (x && i % fstep == 0) muts.push_back({1, i, x});
            fp::Pool pool;
            pool.workers = std::min<unsigned>(vx::ncpu(), 12);
            pool.run(muts.size(), [&](uint64_t j, fp::Out& out) { FaultJob(node, cfg, dump, muts[j], j, out); }, [&](uint64_t j) { return cfg + " " + MutStr(muts[j]); });
            merge(pool);
            printf("%s: %zu damaged files, %.1fs\n", cfg.c_str(), muts.size(), vx::elapsed());
        }
    }
    std::error_code ec;
    fs::remove_all(g_scratch, ec);

    if (cut) E.exhaustive = false;
    E.evaluations = counts["loads"] + counts["truncations"] + counts["flips"];
    E.distinct_nontrivial = nontrivial.size();
    for (auto& [k, v] : counts) E.set(k, v);
    E.set_str("dump_sizes", sizes);
    for (auto& s : samples) E.sample(s);
    E.sample("fault dump = {A, B(child of A), C, prioritised A +5000, prioritised absent txid -700, A unbroadcast}");
    E.rule = std::string("part 1: every valid operation sequence of length <=") + (big ? "4 (v2 format; v1: <=2 plus 5 fixed longer ones)" : "2 (v2 format; v1: <=1 plus 5 fixed longer ones; v2 plus 2)") + " over {submit A, B(child of A), C, D(spends A and C), prioritise A, prioritise absent txid, mark A/C unbroadcast, +1h} x load time {oldest+expiry-1, oldest+expiry, newest+expiry (+ dump time for short histories)}: DumpMempool in one fork, LoadMempool in another, normal submission of the unexpired saved transactions in a twin; "
             "part 2: one 3-transaction dump per format damaged and loaded into a node holding {E1,E2} / {E1,E2,C}: " + (big ? "v1 {E1,E2}: every truncation length and every byte x {^0x01,^0x80}; v2 {E1,E2}: every 2nd length and ^0x80 of every 2nd byte; v1 {E1,E2,C}: every 8th length and ^0x01 of every 2nd byte" : "v1 {E1,E2}: truncation to 0..24, every 16th length and the last 12, ^0x01 of every 8th byte; v2 {E1,E2}: every 32nd length, ^0x80 of every 16th byte; v1 {E1,E2,C}: ^0x01 of every 16th byte") +
             "; pool afterwards compared with normal submission of exactly the entered transactions in a twin. distinct_nontrivial = distinct (history, load time) pairs + truncations + damaged files that failed to load or let a transaction in";
    E.assume("both nodes share the chain (forks of one process at height 110); transactions are anyone-can-spend P2WSH(OP_TRUE) spends, so a bit flip can yield a different valid transaction - the twin decides whether normal submission accepts it; the clock is mock time");
    if (!cut && vx::rep().violations == 0) {
        const char* miss = nullptr;
        for (const char* k : {"loads_complete", "loads_partial", "loads_all_expired", "absent_deltas_checked", "truncations", "flips", "load_returned_true", "load_returned_false", "loads_with_new_entries", "loads_with_altered_tx_entering"})
            if (!counts[k]) miss = k;
        if (miss) { printf("HARNESS-ERROR property=C55 class never occurred: %s\n", miss); vx::finish(); return 2; }
    }
    return vx::finish();
}
