LINK := full
KITS := chainkit
