// C62 — The wallet never hands out the same new address twice (across clean restarts and crashes).
//
// VX-CRASH on a real SQLite descriptor wallet (-keypool=2, so top-ups are dense):
//  * histories over the alphabet { R_t = GetNewDestination(t), C_t = GetNewChangeDestination(t),
//    V_t = reserve a change address of type t and give it back unused (what a failed CreateTransaction does),
//    X = clean close + LoadExisting } for the 4 output types, explored breadth-first to a depth bound; histories
//    reaching a wallet the implementation cannot tell apart (same DB records, same per-descriptor
//    next_index/range_end/max_cached_index, same set of addresses already handed out) are merged;
//  * every history runs in a recorder process (libc-level op log of SQLite's writes/syncs/unlinks, address
//    hand-outs as marks); the complete log (clean close) and — for histories up to the crash depth — every crash
//    state whose crash point lies in the last operation (every earlier crash point is the last-operation crash point
//    of a shorter history) is materialised on tmpfs;
//  * each state is reloaded by the real LoadExisting in a fresh process, which then requests 3 receiving and 3
//    change addresses of every output type;
//  * oracle: the addresses handed out before the crash point and all addresses handed out after the reload are
//    pairwise distinct.
#include <kits/forkpool.h>
#include <kits/walletcrash.h>
#include <kits/walletkit.h>

#include <key_io.h>
#include <wallet/scriptpubkeyman.h>

#include <sys/wait.h>

namespace sfs = std::filesystem;
using namespace wallet;

static std::string g_scratch, g_base;
static wk::Env* g_env; // process-wide set-up (params, ECC, args, mock time), created in the root and inherited by every child

// ------------------------------------------------------------------------------------------------ alphabet
static const int N_OPS = 13;
static std::string OpName(int op)
{
    if (op == 12) return "X";
    return std::string(1, "RCV"[op / 4]) + std::to_string(op % 4);
}
static int OpFromName(const std::string& s)
{
    for (int i = 0; i < N_OPS; i++) if (OpName(i) == s) return i;
    return -1;
}
using History = std::vector<int>;
static std::string HistStr(const History& h)
{
    std::string s;
    for (size_t i = 0; i < h.size(); i++) { if (i) s += ' '; s += OpName(h[i]); }
    return s;
}

// ------------------------------------------------------------------------------------------------ recorder (own process)
static std::string WalletKey(CWallet& w)
{
    std::string s;
    for (auto& [k, v] : wk::DbRecords(w)) {
        if (wk::RecordType(k) == "bestblock" || wk::RecordType(k) == "bestblock_nomerkle") continue;
        s += k + "=" + v + "\n";
    }
    LOCK(w.cs_wallet);
    for (const auto& [id, man] : w.m_spk_managers) {
        auto* d = dynamic_cast<DescriptorScriptPubKeyMan*>(man.get());
        if (!d) continue;
        LOCK(d->cs_desc_man);
        s += id.ToString() + " " + std::to_string(d->m_wallet_descriptor.next_index) + " " + std::to_string(d->m_wallet_descriptor.range_end) + " " + std::to_string(d->m_max_cached_index) + "\n";
    }
    return s;
}

static int RunRecorder(const History& h, const std::string& dir, const std::string& logfile, const std::string& infofile)
{
    sfs::create_directories(dir);
    sfs::copy_file(wk::DbFile(g_base), wk::DbFile(dir));
    wk::Env& env = *g_env;
    vxc_start(dir.c_str());
    std::string err;
    std::shared_ptr<CWallet> w = wk::Load(env, dir, err);
    if (!w) { fprintf(stderr, "recorder: %s\n", err.c_str()); return 2; }
    vxc_mark("BEGIN");
    std::set<std::string> returned;
    for (size_t i = 0; i < h.size(); i++) {
        int op = h[i];
        vxc_mark(("OP " + std::to_string(i) + " " + OpName(op)).c_str());
        if (op == 12) {
            wk::Close(w);
            w = wk::Load(env, dir, err);
            if (!w) { fprintf(stderr, "recorder: reload: %s\n", err.c_str()); return 2; }
        } else {
            OutputType t = OUTPUT_TYPES[op % 4];
            if (op / 4 == 0) {
                auto d = w->GetNewDestination(t, "");
                if (!d) { fprintf(stderr, "recorder: GetNewDestination failed\n"); return 2; }
                std::string a = EncodeDestination(*d);
                vxc_mark(("RET " + a).c_str());
                returned.insert(a);
            } else if (op / 4 == 1) {
                auto d = w->GetNewChangeDestination(t);
                if (!d) { fprintf(stderr, "recorder: GetNewChangeDestination failed\n"); return 2; }
                std::string a = EncodeDestination(*d);
                vxc_mark(("RET " + a).c_str());
                returned.insert(a);
            } else {
                LOCK(w->cs_wallet);
                ReserveDestination rd(w.get(), t);
                auto d = rd.GetReservedDestination(true);
                if (!d) { fprintf(stderr, "recorder: GetReservedDestination failed\n"); return 2; }
                vxc_mark(("RSV " + EncodeDestination(*d)).c_str());
                rd.ReturnDestination();
            }
        }
        vxc_mark(("DONE " + std::to_string(i)).c_str());
    }
    vxc_mark("END-OPS");
    std::string key = WalletKey(*w);
    for (auto& a : returned) key += "returned " + a + "\n";
    wk::Close(w);
    vxc_mark("CLOSED");
    vxc_stop();
    if (vxc_dump(logfile.c_str()) != 0) return 2;
    char b[32];
    snprintf(b, sizeof b, "%016llx", (unsigned long long)vx::fnv1a(key));
    return wc::WriteFile(infofile, b) ? 0 : 2;
}

// ------------------------------------------------------------------------------------------------ recovery (own process)
// "OK\taddr\taddr..." (24 addresses: per type 3 receiving then 3 change) or "ERR\t..."
static std::string RunRecovery(const std::string& dir)
{
    wk::Env& env = *g_env;
    std::string err;
    std::shared_ptr<CWallet> w = wk::Load(env, dir, err);
    if (!w) return "ERR\t" + err;
    std::string res = "OK";
    for (OutputType t : OUTPUT_TYPES) {
        for (int i = 0; i < 3; i++) {
            auto d = w->GetNewDestination(t, "");
            if (!d) return "ERR\tGetNewDestination failed after reload: " + util::ErrorString(d).original;
            res += "\t" + EncodeDestination(*d);
        }
        for (int i = 0; i < 3; i++) {
            auto d = w->GetNewChangeDestination(t);
            if (!d) return "ERR\tGetNewChangeDestination failed after reload: " + util::ErrorString(d).original;
            res += "\t" + EncodeDestination(*d);
        }
    }
    wk::Close(w);
    return res;
}

// ------------------------------------------------------------------------------------------------ per-history data in the root
struct HistRun {
    History h;
    std::string dir, logfile, infofile;
    vxc::Log log;
    std::string key;
    std::vector<std::pair<size_t, std::string>> rets; // (op-log index of the RET mark, address)
    size_t last_op_mark{0};                           // op-log index of the last "OP" mark
    bool ok{false};
};
struct RecJob {
    size_t hist;
    vxc::State st;
    uint64_t content;
    bool clean;  // the complete log (clean close)
};

static History ParseHist(const std::string& text)
{
    History h;
    std::istringstream is(text);
    std::string t;
    while (is >> t) { int op = OpFromName(t); if (op >= 0) h.push_back(op); }
    return h;
}

// request text of the recorder server: "<history>|<dir>|<logfile>|<infofile>"
static int RecorderRequest(const char* text)
{
    std::vector<std::string> f;
    std::string s(text);
    for (size_t p = 0;;) { size_t t = s.find('|', p); f.push_back(s.substr(p, t == std::string::npos ? std::string::npos : t - p)); if (t == std::string::npos) break; p = t + 1; }
    if (f.size() != 4) return 2;
    return RunRecorder(ParseHist(f[0]), f[1], f[2], f[3]);
}

int main(int argc, char** argv)
{
    vx::init(argc, argv, "C62", "fault_enumeration", 150, 1500);
    auto& E = vx::ev();
    const bool big = vx::thorough();
    {
        char b[64];
        snprintf(b, sizeof b, "/C62_%07d", (int)getpid());
        g_scratch = vx::scratch_dir() + b;
    }
    sfs::remove_all(g_scratch);
    sfs::create_directories(g_scratch);
    g_base = g_scratch + "/base";
    struct Cleanup { ~Cleanup() { std::error_code ec; sfs::remove_all(g_scratch, ec); } } cleanup;

    wk::Env env_root;
    g_env = &env_root;
    // recorder server: forked now, before the root allocates anything that depends on the run, so that every recorder
    // process starts from the same heap image (the op log of a history must not depend on who ran before)
    wc::ForkServer recorder;
    recorder.max_parallel = vx::ncpu();
    recorder.start(RecorderRequest);

    // bounds
    const int max_depth = big ? 3 : 2;          // histories (clean restarts everywhere)
    const int crash_depth = 2;                  // histories whose last operation is crash-enumerated (quick: 4 chosen histories of that depth)
    const int torn_depth = big ? 1 : 0;         // ... additionally with torn last writes
    // quick: crash points only in the last operation of these histories (an address was acknowledged by the first operation and the
    // second one rewrites the same descriptor record: again an address, a clean restart's top-ups, a reserve+return)
    const std::set<std::string> quick_crash{"R0 R0", "C3 C3", "R3 X", "C0 V0"};
    // thorough: every single operation; every pair where an address was acknowledged by the first operation and the second
    // one rewrites the same descriptor record (the same request again, a clean restart, reserve+return on the change descriptor)
    auto thorough_crash = [&](const History& h) {
        if (h.size() == 1) return true;
        if (h.size() != 2 || h[0] >= 8) return false;
        return h[1] == h[0] || h[1] == 12 || (h[0] / 4 == 1 && h[1] == 8 + h[0] % 4);
    };
    History replay_hist;
    if (!vx::ctx().replay.empty()) {
        std::ifstream f(vx::ctx().replay);
        std::string line;
        while (std::getline(f, line)) if (line.rfind("history:", 0) == 0) replay_hist = ParseHist(line.substr(8));
        if (replay_hist.empty()) { printf("HARNESS-ERROR property=C62 replay file has no 'history:' line\n"); return 2; }
        printf("replaying history: %s (all crash states of its last operation, torn writes included)\n", HistStr(replay_hist).c_str());
    }

    // (0) base wallet: created by the production path in its own process, closed cleanly
    {
        bool died = false;
        std::string r = wc::ForkCall([&] {
            std::string err;
            CExtKey mk = wk::FixedMasterKey(0);
            std::shared_ptr<CWallet> w = wk::Create(*g_env, g_base, &mk, 0, err);
            if (!w) return "ERR " + err;
            wk::Close(w);
            return std::string("OK");
        }, &died);
        if (died || r != "OK") { printf("HARNESS-ERROR property=C62 cannot create the base wallet (%s)\n", r.c_str()); return 2; }
    }
    vxc::Tree initial;
    initial.files["wallet.dat"] = wc::ReadFile(wk::DbFile(g_base));

    fp::Pool pool;   // workers materialise and judge; every reload runs in its own child of a worker (wc::ForkCall):
                     // no process that opens a wallet has ever opened one before
    std::set<std::string> seen_keys;
    std::vector<History> frontier{History{}};
    uint64_t n_hist = 0, n_states_enum = 0, n_selfchecked = 0, n_crash_hist = 0;
    bool cut_short = false;
    int completed_depth = 0, completed_crash_depth = 0;
    bool torn_done = false;
    uint64_t ops_logged = 0;

    // recorder determinism gate: the same history recorded twice must give the same op log
    {
        std::string d = g_scratch + "/det";
        sfs::create_directories(d);
        std::vector<std::string> reqs;
        for (int i = 0; i < 2; i++) reqs.push_back("X R0|" + d + "/w" + std::to_string(i) + "|" + d + "/log" + std::to_string(i) + "|" + d + "/key" + std::to_string(i));
        std::vector<int> st = recorder.run(reqs);
        if (st[0] != 0 || st[1] != 0) { printf("HARNESS-ERROR property=C62 recorder failed (status %d, %d)\n", st[0], st[1]); return 2; }
        vxc::Log a, b;
        a.load(d + "/log0", d + "/w0");
        b.load(d + "/log1", d + "/w1");
        // SQLite draws a random nonce per rollback journal (header + page checksums): journal bytes are compared by shape only
        auto same_op = [](const vxc::Op& x, const vxc::Op& y) {
            if (x.kind != y.kind || x.path != y.path || x.off != y.off || x.len != y.len || x.data.size() != y.data.size()) return false;
            return x.path.find("-journal") != std::string::npos || x.data == y.data;
        };
        bool same = a.ops.size() == b.ops.size();
        for (size_t i = 0; same && i < a.ops.size(); i++) same = same_op(a.ops[i], b.ops[i]);
        if (!same) { printf("HARNESS-ERROR property=C62 the recorder is not deterministic: two runs of history {X R0} logged different operations (%zu vs %zu ops)\n", a.ops.size(), b.ops.size()); return 2; }
        sfs::remove_all(d);
    }

    // levels 1..max_depth: breadth-first exploration; level max_depth+1 (thorough): the torn-write variants of the crash
    // states of every single operation (done last: they are the least informative states)
    for (int depth = 1; depth <= max_depth + 1 && !cut_short; depth++) {
        const bool torn_pass = depth == max_depth + 1;
        std::vector<History> todo;
        if (!replay_hist.empty()) { if (depth > 1) break; todo.push_back(replay_hist); }
        else if (torn_pass) { if (!torn_depth) break; for (int op = 0; op < N_OPS; op++) todo.push_back(History{op}); }
        else for (auto& h : frontier) for (int op = 0; op < N_OPS; op++) { History n = h; n.push_back(op); todo.push_back(n); }
        std::vector<History> next_frontier;
        const size_t BATCH = 52;
        for (size_t b0 = 0; b0 < todo.size() && !cut_short; b0 += BATCH) {
            size_t nb = std::min(BATCH, todo.size() - b0);
            std::vector<HistRun> runs(nb);
            std::vector<std::string> reqs;
            for (size_t i = 0; i < nb; i++) {
                runs[i].h = todo[b0 + i];
                char nm[64];
                snprintf(nm, sizeof nm, "/h%d_%05zu", depth, b0 + i);
                std::string d = g_scratch + nm;
                runs[i].dir = d + "/w";
                runs[i].logfile = d + "/oplog.bin";
                runs[i].infofile = d + "/key";
                sfs::create_directories(d);
                reqs.push_back(HistStr(runs[i].h) + "|" + runs[i].dir + "|" + runs[i].logfile + "|" + runs[i].infofile);
            }
            // phase 1: record
            std::vector<int> st = recorder.run(reqs);
            for (size_t i = 0; i < nb; i++) {
                if (st[i] == -2) { cut_short = true; break; }
                if (st[i] != 0) { printf("HARNESS-ERROR property=C62 recording history {%s} failed (status %d)\n", HistStr(runs[i].h).c_str(), st[i]); return 2; }
            }
            if (cut_short) break;
            if (getenv("VX_TRACE")) printf("[trace] depth %d batch %zu: recorded at %.1fs\n", depth, b0, vx::elapsed());
            // root: load logs, self-check, in-session distinctness, enumerate states
            std::vector<std::vector<RecJob>> per_hist(nb);
            for (size_t i = 0; i < nb; i++) {
                HistRun& r = runs[i];
                if (!r.log.load(r.logfile, r.dir)) { printf("HARNESS-ERROR property=C62 cannot load op log of history %s\n", HistStr(r.h).c_str()); return 2; }
                r.key = wc::ReadFile(r.infofile);
                std::string sc = wc::SelfCheck(r.log, initial, r.dir);
                if (!sc.empty()) { printf("HARNESS-ERROR property=C62 recorder incomplete for history %s: %s\n", HistStr(r.h).c_str(), sc.c_str()); return 2; }
                n_selfchecked++;
                ops_logged += r.log.ops.size();
                std::set<std::string> in_session;
                for (size_t k = 0; k < r.log.ops.size(); k++) {
                    const vxc::Op& o = r.log.ops[k];
                    if (o.kind != vxc::MARK) continue;
                    if (o.path.rfind("RET ", 0) == 0) {
                        std::string a = o.path.substr(4);
                        r.rets.push_back({k, a});
                        if (!in_session.insert(a).second)
                            vx::violation("C62-duplicate-without-crash:" + OpName(r.h.back()), "address " + a + " was handed out twice in history {" + HistStr(r.h) + "} (clean restarts only)", "history: " + HistStr(r.h));
                    }
                    if (o.path.rfind("OP ", 0) == 0) r.last_op_mark = k;
                }
                n_hist += !torn_pass;
                bool crash = !replay_hist.empty() || torn_pass || (big ? thorough_crash(r.h) : quick_crash.count(HistStr(r.h)) > 0);
                bool torn = !replay_hist.empty() || torn_pass;
                vxc::State all;
                all.j = r.log.ops.size(); all.k = r.log.ops.size(); all.mode = "clean";
                if (!torn_pass) per_hist[i].push_back({i, all, 0, true});
                if (crash) {
                    n_crash_hist += !torn_pass;
                    size_t from = wc::StableFrom(r.log, r.last_op_mark);
                    size_t en = 0;
                    // order: power-loss states losing the most work first, interleaved with kill states from the latest crash point backwards
                    std::vector<wc::PickedState> pl, kl;
                    for (auto& ps : wc::DistinctStates(r.log, from, initial, true, true, torn, &en)) {
                        if (torn_pass && ps.st.torn_index < 0) continue; // already reloaded at level 1
                        (ps.st.mode == "kill" ? kl : pl).push_back(ps);
                    }
                    std::stable_sort(pl.begin(), pl.end(), [](const wc::PickedState& a, const wc::PickedState& b) { return a.st.k - a.st.j > b.st.k - b.st.j; });
                    std::stable_sort(kl.begin(), kl.end(), [](const wc::PickedState& a, const wc::PickedState& b) { return a.st.k > b.st.k; });
                    for (size_t x = 0; x < std::max(pl.size(), kl.size()); x++) {
                        if (x < pl.size()) per_hist[i].push_back({i, pl[x].st, pl[x].content, false});
                        if (x < kl.size()) per_hist[i].push_back({i, kl[x].st, kl[x].content, false});
                    }
                    n_states_enum += en;
                }
            }
            // job order: round-robin over the histories, so that a run cut short by the deadline has looked at every operation
            std::vector<RecJob> jobs;
            for (size_t pos = 0;; pos++) {
                bool any = false;
                for (size_t i = 0; i < nb; i++) if (pos < per_hist[i].size()) { jobs.push_back(per_hist[i][pos]); any = true; }
                if (!any) break;
            }
            if (getenv("VX_TRACE")) printf("[trace] depth %d batch %zu: %zu reload jobs at %.1fs\n", depth, b0, jobs.size(), vx::elapsed());
            // phase 2: reload + judge
            pool.workers = 0;
            pool.run(jobs.size(), [&](uint64_t j, fp::Out& o) {
                const RecJob& rj = jobs[j];
                const HistRun& r = runs[rj.hist];
                std::string dir = g_scratch + "/rec_" + std::to_string(getpid());
                std::string where = "history: " + HistStr(r.h) + "\nstate: " + rj.st.describe();
                vxc::Materialise(r.log, rj.st, &initial).write_to(dir);
                bool died = false;
                std::string res = wc::ForkCall([&] { return RunRecovery(dir); }, &died);
                std::error_code ec;
                sfs::remove_all(dir, ec);
                o.count("recoveries");
                o.count("recoveries_" + rj.st.mode);
                if (rj.st.torn_index >= 0) o.count("recoveries_torn");
                if (died) {
                    o.violation("C62-reload-process-died:" + rj.st.mode, "reloading {" + rj.st.describe() + "} of history {" + HistStr(r.h) + "} killed the process (" + res + ")", where);
                    return;
                }
                if (res.rfind("OK\t", 0) != 0) {
                    o.count("unloadable");
                    o.sample("UNLOADABLE {" + HistStr(r.h) + "} {" + rj.st.describe() + "}: " + res);
                    return;
                }
                std::vector<std::string> post;
                for (size_t p = 3; p < res.size();) { size_t t = res.find('\t', p); post.push_back(res.substr(p, t == std::string::npos ? std::string::npos : t - p)); if (t == std::string::npos) break; p = t + 1; }
                if (post.size() != 24) { o.count("unloadable"); return; }
                std::set<std::string> acked;
                std::string inflight; // address the interrupted operation handed out later in the recorded run
                for (auto& [k, a] : r.rets) {
                    if (k < rj.st.k) acked.insert(a);
                    else if (inflight.empty()) inflight = a;
                }
                std::string kind = rj.clean ? "clean-restart" : "crash-" + rj.st.mode;
                std::set<std::string> ps;
                for (auto& a : post) {
                    if (!ps.insert(a).second)
                        o.violation("C62-duplicate-after-reload:" + kind, "after reloading {" + rj.st.describe() + "} of history {" + HistStr(r.h) + "} the wallet handed out " + a + " twice", where);
                    if (acked.count(a))
                        o.violation("C62-reissued:" + kind + ":" + OpName(r.h.back()), "address " + a + " had been handed out before the " + (rj.clean ? std::string("clean restart") : "crash point {" + rj.st.describe() + "}") + " of history {" + HistStr(r.h) + "} and was handed out again after the reload", where);
                }
                if (!rj.clean && !inflight.empty() && rj.st.k > r.last_op_mark) o.count(ps.count(inflight) ? "inflight_reissued" : "inflight_consumed");
                if (!acked.empty()) o.distinct("disk", rj.clean ? vx::fnv1a(r.key + "clean") : rj.content);
                if (j % 97 == 0) o.sample("{" + HistStr(r.h) + "} " + kind + " {" + rj.st.describe() + "}: " + std::to_string(acked.size()) + " acknowledged, 24 fresh addresses, first " + post[0]);
            }, [&](uint64_t j) { return "history: " + HistStr(runs[jobs[j].hist].h) + "\nstate: " + jobs[j].st.describe(); });
            if (!pool.complete) cut_short = true;
            if (getenv("VX_TRACE")) printf("[trace] depth %d batch %zu: reloaded at %.1fs\n", depth, b0, vx::elapsed());
            for (size_t i = 0; i < nb; i++) {
                std::error_code ec;
                sfs::remove_all(sfs::path(runs[i].dir).parent_path(), ec);
                if (!cut_short && !torn_pass && seen_keys.insert(runs[i].key).second) next_frontier.push_back(runs[i].h);
            }
        }
        if (!cut_short && !torn_pass) { completed_depth = depth; if (depth <= crash_depth && big) completed_crash_depth = depth; }
        if (!cut_short && torn_pass) torn_done = true;
        if (!torn_pass) frontier = std::move(next_frontier);
    }
    recorder.stop();

    E.evaluations += pool.counts["recoveries"];
    E.distinct_nontrivial += pool.distinct_size("disk");
    for (auto& s : pool.samples) E.sample(s);
    E.set("histories_run", n_hist);
    E.set("histories_crash_enumerated", n_crash_hist);
    E.set("distinct_wallet_states", (uint64_t)seen_keys.size());
    E.set("completed_history_depth", (uint64_t)completed_depth);
    E.set("completed_crash_depth", (uint64_t)completed_crash_depth);
    E.set("torn_write_pass_completed", torn_done ? "true" : "false");
    E.set("ops_logged", ops_logged);
    E.set("recorder_runs_verified", n_selfchecked);
    E.set("crash_states_enumerated", n_states_enum);
    E.set("recoveries_clean", pool.counts["recoveries_clean"]);
    E.set("recoveries_kill", pool.counts["recoveries_kill"]);
    E.set("recoveries_powerloss", pool.counts["recoveries_powerloss"]);
    E.set("recoveries_torn_write", pool.counts["recoveries_torn"]);
    E.set("inflight_address_reissued", pool.counts["inflight_reissued"]);
    E.set("inflight_address_consumed", pool.counts["inflight_consumed"]);
    E.set("unloadable_states", pool.counts["unloadable"]);
    E.exhaustive = !cut_short;
    E.rule = "histories over {R_t GetNewDestination, C_t GetNewChangeDestination, V_t reserve+return a change address, X clean restart} x 4 output types, breadth-first to depth " +
             std::to_string(max_depth) + ", merged when the DB records, every descriptor manager's (next_index, range_end, max_cached_index) and the set of handed-out addresses coincide; "
             "per history the complete op log (clean close) and, " + (big ? std::string("for every single operation and every pair {a b} with a an address request and b the same request, X, or V on the same change descriptor") : std::string("for the histories {R0 R0} {C3 C3} {R3 X} {C0 V0}")) +
             ", every crash state with crash point in the last operation (kill: every op-log prefix" +
             (torn_depth ? std::string(", and in a last pass the torn last writes (1/half/n-1 bytes) of every single operation") : std::string()) +
             "; power loss: every (cut, crash point) with the synced ops surviving), deduplicated by materialised bytes, each reloaded in a fresh process that requests 3 receiving + 3 change addresses of each type. "
             "evaluations = reloads judged; distinct_nontrivial = distinct disk states reloaded that had at least one address acknowledged before the crash point / restart";
    E.assume("a crash point inside an earlier operation of a history is covered as the last-operation crash point of the shorter history (the recorder is deterministic: fixed keys, mock time, fixed PRNG stream, canonical process image; checked by recording one history twice)");
    E.assume("durability model of vx/crash.h: a write is durable once its file was fsync'ed afterwards; create/unlink once the directory (or file) was synced; no reordering beyond loss of the unsynced suffix");
    E.assume("V_t models a failed CreateTransaction: the reserved address is given back and is not counted as handed out");
    if (vx::ctx().replay.empty() && vx::rep().violations == 0) {
        if (pool.counts["unloadable"]) { printf("HARNESS-ERROR property=C62 %llu crash states could not be reloaded: distinctness cannot be judged there (see samples; wallet loadability is C43)\n", (unsigned long long)pool.counts["unloadable"]); vx::finish(); return 2; }
        if (!cut_short && (pool.counts["inflight_reissued"] == 0 || pool.counts["inflight_consumed"] == 0)) {
            printf("HARNESS-ERROR property=C62 vacuous: crash points never straddled the persistence of next_index (reissued=%llu consumed=%llu)\n", (unsigned long long)pool.counts["inflight_reissued"], (unsigned long long)pool.counts["inflight_consumed"]);
            vx::finish();
            return 2;
        }
    }
    return vx::finish();
}
