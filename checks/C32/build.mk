LINK := full
