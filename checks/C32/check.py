#!/usr/bin/env python3
"""C32 consumer. The C++ producer decides delivery / fragmentation independence / tampering itself ("V" lines);
this script recomputes the wire transcripts ("W" lines) of honest sessions with the vendored BIP324 reference
(test_framework/v2_p2p.py, crypto/bip324_cipher.py, crypto/ellswift.py, crypto/hkdf.py) and, for v1, from the
protocol documentation (magic | type[12] | size | sha256d(payload)[:4] | payload)."""
import sys, os, subprocess, multiprocessing, hashlib, functools
sys.path.insert(0, '/verif')
from vx.vxpy import Run, ROOT
from test_framework.v2_p2p import EncryptedP2PState, MSGTYPE_TO_SHORTID
from test_framework.crypto.ellswift import ellswift_ecdh_xonly, xswiftec
from test_framework.crypto.secp256k1 import GE, FE, G
from test_framework.messages import MAGIC_BYTES

NET = 'regtest'
KEYS = {}


def unhex(s):
    return b'' if s in ('-', '') else bytes.fromhex(s)


def parse_msgs(spec):
    out = []
    if spec == '-': return out
    for tok in spec.split(','):
        if not tok: continue
        t, p = tok.split(':')
        out.append((unhex(t), unhex(p)))
    return out


@functools.lru_cache(maxsize=None)
def ecdh(priv, ell_theirs, ell_ours, initiating):
    return EncryptedP2PState.v2_ecdh(priv, ell_theirs, ell_ours, initiating)


@functools.lru_cache(maxsize=None)
def pub_x(priv):
    return (int.from_bytes(priv, 'big') * G).x


def ellswift_decode_x(ell):
    u = FE(int.from_bytes(ell[:32], 'big'))
    t = FE(int.from_bytes(ell[32:], 'big'))
    return xswiftec(u, t)


def v1_wire(msgs):
    out = b''
    for t, p in msgs:
        out += MAGIC_BYTES[NET] + t + b'\x00' * (12 - len(t)) + len(p).to_bytes(4, 'little') + hashlib.sha256(hashlib.sha256(p).digest()).digest()[:4] + p
    return out


def v2_contents(t, p):
    sid = MSGTYPE_TO_SHORTID.get(t)
    if sid is not None:
        return bytes([sid]) + p
    return b'\x00' + t + b'\x00' * (12 - len(t)) + p


def v2_side(initiating, priv, ell_ours, ell_theirs, garbage, msgs):
    """Expected wire bytes of one side. BIP324 does not define an encoding for the empty message type (Bitcoin Core
    happens to use an unassigned short id); the comparison therefore stops before the first such message."""
    st = EncryptedP2PState(initiating=initiating, net=NET)
    st.initialize_v2_transport(ecdh(priv, ell_theirs, ell_ours, initiating))
    out = ell_ours + garbage + st.peer['send_garbage_terminator']
    out += st.v2_enc_packet(b'', aad=garbage)
    complete = True
    for t, p in msgs:
        if t == b'':
            complete = False
            break
        out += st.v2_enc_packet(v2_contents(t, p))
    return out, st.peer['session_id'], complete


def differs(got, want, complete):
    return got != want if complete else got[:len(want)] != want


def verify(line):
    f = line.split('\t')
    try:
        name, mode, ga, gb, ab, ba, wab, wba, sid = f[1], f[2], unhex(f[3]), unhex(f[4]), parse_msgs(f[5]), parse_msgs(f[6]), unhex(f[7]), unhex(f[8]), f[9]
        if mode == 'v1v1' or mode == 'v1v2':
            if wab != v1_wire(ab): return (f'v1-wire-{mode}', f'{name}: A->B v1 wire bytes differ from the protocol encoding')
            if wba != v1_wire(ba): return (f'v1-wire-{mode}', f'{name}: B->A v1 wire bytes differ from the protocol encoding')
            return None
        privA, privB = KEYS[0], KEYS[1]
        if len(wab) < 64 or len(wba) < 64: return ('v2-wire-short', f'{name}: transcript shorter than a public key')
        ellA, ellB = wab[:64], wba[:64]
        if ellswift_decode_x(ellA) != pub_x(privA) or ellswift_decode_x(ellB) != pub_x(privB):
            return ('v2-ellswift-pubkey', f'{name}: the ElligatorSwift public key on the wire does not decode to the x coordinate of the private key')
        wantA, sidA, compA = v2_side(True, privA, ellA, ellB, ga, ab)
        wantB, sidB, compB = v2_side(False, privB, ellB, ellA, gb, ba)
        if sidA != sidB: return ('HARNESS', 'reference session ids differ')
        if differs(wab, wantA, compA):
            pos = next((i for i in range(min(len(wab), len(wantA))) if wab[i] != wantA[i]), min(len(wab), len(wantA)))
            return ('v2-wire-initiator', f'{name}: initiator wire bytes differ from the BIP324 reference at offset {pos} (len {len(wab)} vs {len(wantA)})')
        if differs(wba, wantB, compB):
            pos = next((i for i in range(min(len(wba), len(wantB))) if wba[i] != wantB[i]), min(len(wba), len(wantB)))
            return ('v2-wire-responder', f'{name}: responder wire bytes differ from the BIP324 reference at offset {pos} (len {len(wba)} vs {len(wantB)})')
        if sid != sidA.hex(): return ('v2-session-id', f'{name}: session id {sid} differs from the reference {sidA.hex()}')
        return None
    except Exception as e:
        return ('HARNESS', f'{type(e).__name__}: {e} in line {line[:120]}')


def init_worker(keys):
    KEYS.update(keys)


def main():
    run = Run('C32', 'exploration')
    ncpu = int(os.environ.get('VERIF_JOBS', '0') or 0) or os.cpu_count() or 4
    p = subprocess.run([run.harness, '--tier', run.tier], stdout=subprocess.PIPE, text=True, env=dict(os.environ, VERIF_DEADLINE_S=str(0.6 * run.deadline)))
    cases, stats, end, incomplete, keys = [], {}, None, False, {}
    for line in p.stdout.splitlines():
        if not line: continue
        tag = line.split('\t', 1)[0]
        if tag == 'V':
            _, key, what = line.split('\t', 2)
            run.violation(key, what, what)
        elif tag == 'S':
            _, name, n = line.split('\t'); stats[name] = int(n)
        elif tag == 'K':
            _, side, priv, pub = line.split('\t'); keys[int(side)] = bytes.fromhex(priv)
        elif tag == 'M':
            if 'INCOMPLETE' in line: incomplete = True
            else: print('HARNESS-ERROR property=C32', line); return 2
        elif tag == 'END': end = int(line.split('\t')[1])
        elif tag == 'W': cases.append(line)
    if p.returncode != 0 or end != len(cases) or len(keys) != 2:
        print(f'HARNESS-ERROR property=C32 producer rc={p.returncode} END={end} received={len(cases)}')
        return 2
    cases.sort(key=lambda l: -len(l))
    n_v2 = sum(1 for c in cases if c.split('\t')[2] == 'v2v2')
    with multiprocessing.Pool(ncpu, initializer=init_worker, initargs=(keys,)) as pool:
        for res in pool.imap_unordered(verify, cases, chunksize=4):
            if run.deadline_reached():  # never a violation: report what was completed
                incomplete = True
                pool.terminate()
                break
            if res is None: continue
            key, what = res
            if key == 'HARNESS':
                print('HARNESS-ERROR property=C32', what); return 2
            run.violation(key, what, what)
    run.evaluations = len(cases) + sum(stats.get(k, 0) for k in ('explore_executions', 'sequence_runs', 'large_scenario_runs', 'peer_cases', 'v2_tamper_runs', 'v1_tamper_runs'))
    run.distinct = stats.get('explore_states', 0) + stats.get('sequences', 0) + stats.get('v2_tamper_runs', 0) // 3 + stats.get('v1_tamper_runs', 0) // 3 + stats.get('peer_cases', 0)
    run.extra['wire_transcripts_checked'] = len(cases)
    run.extra['wire_transcripts_v2'] = n_v2
    run.extra['cpp_side'] = stats
    problems = [s for s in ('explore_executions', 'explore_states', 'explore_pruned', 'sequence_runs', 'peer_cases', 'peer_decoys', 'v2_tamper_runs', 'v2_tamper_runs_with_deliveries', 'v1_tamper_runs', 'large_scenario_runs') if stats.get(s, 0) == 0]
    if n_v2 == 0 or n_v2 == len(cases): problems.append('wire transcripts of both protocol versions expected')
    if problems and not run.violations and not incomplete:
        print('HARNESS-ERROR property=C32 vacuous:', problems); return 2
    for c in (cases[-1], cases[len(cases) // 2]):
        run.sample(c[:240])
    run.assumptions.append('fixed private keys / ellswift entropy / garbage contents, so wire bytes are reproducible; other key material is not enumerated')
    run.assumptions.append('exhaustive cut positions are explored for small sessions (payload <= 4 bytes, garbage <= 3 bytes); large payloads, 4095-byte garbage and the rekey run use uniform chunk sizes only')
    rule = (f'A: for each small session every environment schedule = (direction to deliver next) x (all available bytes | cut after c bytes for every c) with at most {stats.get("explore_cut_bound")} cuts, '
            'pruned on canonical transport state; B: every message sequence up to length 2 (thorough 3) over {ping,verack,zzlongtype12,""} x payload {0,1,255,256} per mode x chunk {all,1,3} x first mover, plus 65536-byte payloads, payloads of 3999988/3999989/4000000 bytes with short-id and long-form (12-char, 6-char, sendaddrv2) message types, '
            'garbage {0,1,4095}^2, 230(460)-message rekey runs; C: scripted BIP324 peer with decoys {none,0,1,100,(0,0),(7,0,300)} before the version packet and before messages, garbage {0,1,4095}, decoys of 4000001/4000002/4000013 contents bytes, over-long garbage; '
            'D: every single bit of both directions of a v2 session transcript x chunk {all,1,5}, every checksum/payload bit of a v1 session x chunk {all,1,7}. '
            'evaluations = executions/runs + transcripts recomputed by the Python reference; distinct = canonical states + sequences + tamper positions + peer cases')
    return run.finish(rule=rule, exhaustive=not incomplete)


if __name__ == '__main__':
    sys.exit(main())
