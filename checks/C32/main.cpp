// C32 — Peer transports deliver exactly the messages sent, or detect tampering.
// Drives real V1Transport / V2Transport objects wired back to back (and, for decoys, against a scripted BIP324 peer
// built on the real BIP324Cipher). Layers:
//  A. fragmentation exploration (vx::Explorer): small sessions (v1<->v1, v2<->v2 incl. handshake, v1 client -> v2
//     responder fallback); at every step the environment picks the direction that delivers next and either "all
//     available bytes" or a cut after c bytes for EVERY c < available (a cut is a deviation, bound k) => every
//     fragmentation with <= k cut points in every cross-direction interleaving of the chunks; canonical-state pruning.
//  B. message-sequence enumeration: every sequence of <= 2 (thorough 3) messages over types x payload sizes per mode,
//     uniform chunkings {all, 1 byte, 3 bytes}; 65536-byte payloads, payloads at the 4,000,000-byte limit with short-id
//     and long-form message types, garbage lengths {0,1,4095}, 230-message runs
//     across the 224-packet rekey.
//  C. scripted peer: decoy packets (before the version packet and before each message), garbage, over-long garbage.
//  D. tampering: every single bit of both wire transcripts of a v2 session; every bit of checksum+payload for v1.
// Oracle: received (type,payload) sequence == sent; wire bytes independent of fragmentation; session ids equal;
// tampered v2 stream delivers only messages whose packets end before the altered byte; v1 message with altered
// payload/checksum is never delivered un-rejected. Wire transcripts are printed ("W" lines) and recomputed by
// check.py with the vendored v2_p2p.py / bip324_cipher.py / ellswift.py.
#include <vx/vx.h>

#include <bip324.h>
#include <chainparams.h>
#include <key.h>
#include <net.h>
#include <protocol.h>
#include <pubkey.h>
#include <test/util/setup_common.h>
#include <util/chaintype.h>

using Bytes = std::vector<uint8_t>;

// ---------------------------------------------------------------- sink
struct Sink {
    std::mutex mu;
    std::vector<std::string> lines;
    uint64_t emitted = 0;
    std::map<std::string, uint64_t> stats;
    std::set<std::string> vkeys;
    void line(std::string s) { std::lock_guard<std::mutex> l(mu); lines.push_back(std::move(s)); }
    void stat(const std::string& k, uint64_t n) { std::lock_guard<std::mutex> l(mu); stats[k] += n; }
    void viol(const std::string& key, const std::string& what)
    {
        std::lock_guard<std::mutex> l(mu);
        if (!vkeys.insert(key).second || vkeys.size() > 40) return;
        printf("V\t%s\t%s\n", key.c_str(), what.c_str());
        fflush(stdout);
    }
    void flush()
    {
        std::lock_guard<std::mutex> l(mu);
        std::sort(lines.begin(), lines.end());
        for (auto& s : lines) { fputs(s.c_str(), stdout); fputc('\n', stdout); }
        emitted += lines.size();
        lines.clear();
        fflush(stdout);
    }
    void finish()
    {
        flush();
        for (auto& kv : stats) printf("S\t%s\t%" PRIu64 "\n", kv.first.c_str(), kv.second);
        printf("END\t%" PRIu64 "\n", emitted);
        fflush(stdout);
    }
};
static Sink S;
static std::atomic<bool> g_incomplete{false};
static bool out_of_time() { if (vx::deadline_reached()) { g_incomplete = true; return true; } return false; }
static std::string u(uint64_t v) { return std::to_string(v); }
static std::string hx(const Bytes& b) { return b.empty() ? "-" : vx::hex(b); }

static Bytes pat(size_t n, uint8_t seed)
{
    Bytes b(n);
    uint32_t x = 0xC0FFEEu + seed * 2654435761u;
    for (size_t i = 0; i < n; i++) { x = x * 1664525u + 1013904223u; b[i] = (uint8_t)(x >> 24); }
    return b;
}

struct Msg { std::string type; Bytes payload; };
struct Got { std::string type; Bytes payload; bool reject; };
enum Mode { V1V1 = 0, V2V2 = 1, V1V2 = 2 };
static const char* MODE_NAME[] = {"v1v1", "v2v2", "v1v2"};
struct Scenario {
    std::string name;
    Mode mode;
    std::vector<Msg> q[2]; // q[0]: A -> B, q[1]: B -> A
    size_t garbage[2] = {0, 0};
};

static CKey* g_key[2];
static Bytes g_ent[2];
static Bytes garbage_bytes(int side, size_t n) { return pat(n, side ? 6 : 5); }

static bool type_valid(const std::string& t)
{
    if (t.size() > 12) return false;
    for (unsigned char c : t) if (c < ' ' || c > 0x7E) return false;
    return true;
}

static std::unique_ptr<Transport> make_transport(const Scenario& sc, int side)
{
    if (sc.mode == V1V1 || (sc.mode == V1V2 && side == 0)) return std::make_unique<V1Transport>(side);
    return std::make_unique<V2Transport>(side, /*initiating=*/side == 0, *g_key[side], MakeByteSpan(g_ent[side]), garbage_bytes(side, sc.garbage[side]));
}

struct Session {
    const Scenario& sc;
    std::unique_ptr<Transport> t[2];
    size_t nset[2] = {0, 0};
    std::vector<Got> got[2]; // got[r]: messages received BY side r
    Bytes wire[2];           // wire[s]: bytes sent BY side s
    std::vector<std::pair<size_t, size_t>> pkt[2]; // (start offset, length) in wire[s] of each message sent by s
    bool dead = false;
    std::string fail;
    // coalesce mode: the sender hands everything it has to the network at once (so consecutive packets/messages
    // travel together); fragmentation is applied on the receiver side of the in-flight buffer.
    bool coalesce = false;
    Bytes inflight[2];

    explicit Session(const Scenario& s, bool coalesce_ = false) : sc(s), coalesce(coalesce_) { t[0] = make_transport(s, 0); t[1] = make_transport(s, 1); }

    size_t avail_direct(int s)
    {
        auto [sp, more, type] = t[s]->GetBytesToSend(nset[s] < sc.q[s].size());
        auto [sp2, more2, type2] = t[s]->GetBytesToSend(nset[s] < sc.q[s].size());
        if (sp.size() != sp2.size() || sp.data() != sp2.data() || more != more2) fail = "GetBytesToSend is not repeatable";
        return sp.size();
    }
    size_t avail(int s)
    {
        if (!coalesce) return avail_direct(s);
        for (;;) {
            pump();
            auto [sp, more, type] = t[s]->GetBytesToSend(nset[s] < sc.q[s].size());
            if (sp.empty()) break;
            inflight[s].insert(inflight[s].end(), sp.begin(), sp.end());
            wire[s].insert(wire[s].end(), sp.begin(), sp.end());
            t[s]->MarkBytesSent(sp.size());
        }
        return inflight[s].size();
    }
    void pump()
    {
        for (int s = 0; s < 2; s++) {
            if (nset[s] >= sc.q[s].size()) continue;
            CSerializedNetMsg m;
            m.m_type = sc.q[s][nset[s]].type;
            m.data = sc.q[s][nset[s]].payload;
            if (t[s]->SetMessageToSend(m)) {
                nset[s]++;
                pkt[s].emplace_back(wire[s].size(), avail_direct(s));
            } else if (m.m_type != sc.q[s][nset[s]].type || m.data != sc.q[s][nset[s]].payload) {
                fail = "SetMessageToSend returned false but modified the message";
            }
        }
    }
    // side s sends n bytes, the other side receives them
    void deliver(int s, size_t n)
    {
        const int r = 1 - s;
        if (coalesce) {
            if (n > inflight[s].size()) n = inflight[s].size();
            Bytes chunk(inflight[s].begin(), inflight[s].begin() + n);
            inflight[s].erase(inflight[s].begin(), inflight[s].begin() + n);
            feed(r, chunk);
            return;
        }
        auto [sp, more, type] = t[s]->GetBytesToSend(nset[s] < sc.q[s].size());
        if (n > sp.size()) n = sp.size();
        Bytes chunk(sp.begin(), sp.begin() + n);
        t[s]->MarkBytesSent(n);
        wire[s].insert(wire[s].end(), chunk.begin(), chunk.end());
        feed(r, chunk);
    }
    void feed(int r, const Bytes& chunk)
    {
        std::span<const uint8_t> in(chunk);
        while (!in.empty()) {
            size_t before = in.size();
            if (!t[r]->ReceivedBytes(in)) { dead = true; return; }
            bool drained = false;
            while (t[r]->ReceivedMessageComplete()) {
                bool reject = false;
                CNetMessage m = t[r]->GetReceivedMessage(NodeClock::time_point{}, reject);
                got[r].push_back({m.m_type, Bytes(UCharCast(m.m_recv.data()), UCharCast(m.m_recv.data()) + m.m_recv.size()), reject});
                drained = true;
            }
            if (in.size() == before && !drained) { fail = "ReceivedBytes consumed nothing and no message became available"; dead = true; return; }
        }
    }
    uint64_t key() const
    {
        std::string k = u(wire[0].size()) + "," + u(wire[1].size()) + "," + u(nset[0]) + "," + u(nset[1]) + "," + u(got[0].size()) + "," + u(got[1].size()) + (dead ? "D" : "") + "," + u(inflight[0].size()) + "," + u(inflight[1].size());
        for (int s = 0; s < 2; s++)
            if (auto* v2 = dynamic_cast<V2Transport*>(t[s].get())) {
                k += ";" + u((int)v2->m_recv_state) + "," + u((int)v2->m_send_state) + "," + u(v2->m_recv_buffer.size()) + "," + u(v2->m_send_buffer.size()) + "," + u(v2->m_send_pos);
            } else if (auto* v1 = dynamic_cast<V1Transport*>(t[s].get())) {
                k += ";" + u(v1->in_data) + "," + u(v1->nHdrPos) + "," + u(v1->nDataPos) + "," + u(v1->m_sending_header) + "," + u(v1->m_bytes_sent);
            }
        return vx::fnv1a(k);
    }
    // honest-run oracle at quiescence
    std::string check_final() const
    {
        if (!fail.empty()) return fail;
        if (dead) return "transport reported an error (ReceivedBytes returned false) on an honest stream";
        for (int s = 0; s < 2; s++) {
            const auto& sent = sc.q[s];
            const auto& rec = got[1 - s];
            if (nset[s] != sent.size()) return "side " + u(s) + " could only hand over " + u(nset[s]) + " of " + u(sent.size()) + " messages";
            if (rec.size() != sent.size()) return "side " + u(1 - s) + " received " + u(rec.size()) + " messages, " + u(sent.size()) + " were sent";
            for (size_t i = 0; i < sent.size(); i++) {
                if (!type_valid(sent[i].type)) {
                    if (!rec[i].reject) return "message " + u(i) + " with an invalid type was delivered without reject flag";
                    continue;
                }
                if (rec[i].reject) return "message " + u(i) + " (" + sent[i].type + ", " + u(sent[i].payload.size()) + " bytes) was rejected";
                if (rec[i].type != sent[i].type) return "message " + u(i) + " type '" + rec[i].type + "' != sent '" + sent[i].type + "'";
                if (rec[i].payload != sent[i].payload) return "message " + u(i) + " (" + sent[i].type + ") payload differs (" + u(rec[i].payload.size()) + " vs " + u(sent[i].payload.size()) + " bytes)";
            }
        }
        auto ia = t[0]->GetInfo(), ib = t[1]->GetInfo();
        if (sc.mode == V2V2) {
            if (ia.transport_type != TransportProtocolType::V2 || ib.transport_type != TransportProtocolType::V2) return "v2 session does not report V2 on both sides";
            if (!ia.session_id || !ib.session_id || *ia.session_id != *ib.session_id) return "session ids differ / missing";
        } else {
            if (ia.transport_type != TransportProtocolType::V1 || ib.transport_type != TransportProtocolType::V1) return "v1 session does not report V1 on both sides";
            if (ia.session_id || ib.session_id) return "v1 session reports a session id";
        }
        return "";
    }
};

static std::string msgs_spec(const std::vector<Msg>& v)
{
    std::string o;
    for (auto& m : v) o += vx::hex(Bytes(m.type.begin(), m.type.end())) + ":" + (m.payload.empty() ? "" : vx::hex(m.payload)) + ",";
    return o.empty() ? "-" : o;
}

// Straight run: alternate directions, `chunk` bytes at a time (0 = everything available).
static std::unique_ptr<Session> run_uniform(const Scenario& sc, size_t chunk, int first, bool coalesce = false)
{
    auto s = std::make_unique<Session>(sc, coalesce);
    int turn = first;
    for (uint64_t guard = 0; guard < 100000000; guard++) {
        s->pump();
        size_t a[2] = {s->avail(0), s->avail(1)};
        if (!a[0] && !a[1]) break;
        int d = a[turn] ? turn : 1 - turn;
        s->deliver(d, chunk ? chunk : a[d]);
        if (s->dead) break;
        turn = 1 - d;
    }
    return s;
}

static void emit_wire(const Scenario& sc, const Session& s)
{
    std::string sid = "-";
    if (sc.mode == V2V2) { auto i = s.t[0]->GetInfo(); if (i.session_id) sid = vx::hex(i.session_id->begin(), 32); }
    S.line(std::string("W\t") + sc.name + "\t" + MODE_NAME[sc.mode] + "\t" + hx(garbage_bytes(0, sc.garbage[0])) + "\t" + hx(garbage_bytes(1, sc.garbage[1])) + "\t" +
           msgs_spec(sc.q[0]) + "\t" + msgs_spec(sc.q[1]) + "\t" + hx(s.wire[0]) + "\t" + hx(s.wire[1]) + "\t" + sid);
}

// ---------------------------------------------------------------- A. fragmentation exploration
static void explore_scenario(const Scenario& sc, int max_dev, int coalesce)
{
    auto ref = run_uniform(sc, 0, 0);
    std::string e = ref->check_final();
    if (!e.empty()) { S.viol("honest-" + sc.name, "unfragmented run: " + e); return; }
    if (!coalesce) emit_wire(sc, *ref);
  {
    vx::Explorer ex;
    ex.max_dev = max_dev;
    uint64_t complete = 0, steps = 0;
    std::set<uint64_t> states;
    ex.explore([&](vx::Explorer& x) {
        Session s(sc, coalesce != 0);
        for (;;) {
            s.pump();
            size_t a[2] = {s.avail(0), s.avail(1)};
            if (!a[0] && !a[1]) break;
            uint64_t k = s.key();
            states.insert(k);
            if (!x.visit(k, 0)) { if (out_of_time()) x.stop = true; return; } // (visit() only prunes once the replayed prefix is consumed)
            int d = (a[0] && a[1]) ? x.choose(2, false, "dir") : (a[0] ? 0 : 1);
            int c = x.choose((int)a[d], true, "cut"); // 0 = all available, c = cut after c bytes (every position)
            s.deliver(d, c ? (size_t)c : a[d]);
            steps++;
            if (s.dead) break;
        }
        complete++;
        if (out_of_time()) x.stop = true; // stop after this (complete) execution; never inside a replayed prefix
        std::string err = s.check_final();
        if (err.empty() && (s.wire[0] != ref->wire[0] || s.wire[1] != ref->wire[1])) err = "wire bytes depend on the fragmentation";
        if (!err.empty()) S.viol(std::string("fragmentation-") + (coalesce ? "coalesced-" : "") + sc.name, err + " :: choices " + x.trace_str());
    });
    S.stat("explore_executions", ex.executions);
    S.stat("explore_complete_runs", complete);
    S.stat("explore_pruned", ex.pruned);
    S.stat("explore_states", states.size());
    S.stat("explore_deliveries", steps);
  }
}

// ---------------------------------------------------------------- C. scripted BIP324 peer (decoys, garbage)
static Bytes v2_contents(const Msg& m)
{
    // BIP324 application layer: short id byte, or 0x00 + 12-byte zero padded type, then payload
    static const std::map<std::string, uint8_t> SHORT = {{"addr", 1}, {"block", 2}, {"inv", 14}, {"ping", 18}, {"pong", 19}, {"tx", 21}, {"addrv2", 28}};
    Bytes c;
    auto it = SHORT.find(m.type);
    if (it != SHORT.end()) c.push_back(it->second);
    else { c.assign(13, 0); std::copy(m.type.begin(), m.type.end(), c.begin() + 1); }
    c.insert(c.end(), m.payload.begin(), m.payload.end());
    return c;
}
struct PeerCase {
    bool t_initiator;
    size_t peer_garbage, t_garbage;
    std::vector<size_t> decoys_before_version;
    std::vector<std::pair<std::vector<size_t>, Msg>> to_t; // decoy lengths, then the message
    std::vector<Msg> from_t;
    size_t chunk; // 0 = all
    std::string name;
    bool expect_abort{false}; // the stream contains a packet above the contents-length limit
};
static void run_peer_case(const PeerCase& pc)
{
    const int ts = pc.t_initiator ? 0 : 1, ps = 1 - ts;
    V2Transport T(ts, pc.t_initiator, *g_key[ts], MakeByteSpan(g_ent[ts]), garbage_bytes(ts, pc.t_garbage));
    BIP324Cipher P(*g_key[ps], MakeByteSpan(g_ent[ps]));
    Bytes from_t;
    std::vector<Got> got;
    bool dead = false;
    std::string err;
    size_t nset = 0;
    auto drain = [&] {
        for (;;) {
            if (nset < pc.from_t.size()) {
                CSerializedNetMsg m; m.m_type = pc.from_t[nset].type; m.data = pc.from_t[nset].payload;
                if (T.SetMessageToSend(m)) nset++;
            }
            auto [sp, more, type] = T.GetBytesToSend(false);
            if (sp.empty()) break;
            from_t.insert(from_t.end(), sp.begin(), sp.end());
            T.MarkBytesSent(sp.size());
        }
    };
    auto feed = [&](const Bytes& data) {
        size_t pos = 0;
        while (pos < data.size() && !dead) {
            size_t n = pc.chunk ? std::min(pc.chunk, data.size() - pos) : data.size() - pos;
            std::span<const uint8_t> in(data.data() + pos, n);
            pos += n;
            while (!in.empty()) {
                size_t before = in.size();
                if (!T.ReceivedBytes(in)) { dead = true; return; }
                bool drained = false;
                while (T.ReceivedMessageComplete()) {
                    bool rej = false;
                    CNetMessage m = T.GetReceivedMessage(NodeClock::time_point{}, rej);
                    got.push_back({m.m_type, Bytes(UCharCast(m.m_recv.data()), UCharCast(m.m_recv.data()) + m.m_recv.size()), rej});
                    drained = true;
                }
                if (in.size() == before && !drained) { err = "no progress"; dead = true; return; }
            }
            drain();
        }
    };
    auto packet = [&](const Bytes& contents, const Bytes& aad, bool ignore) {
        Bytes out(contents.size() + BIP324Cipher::EXPANSION);
        P.Encrypt(MakeByteSpan(contents), MakeByteSpan(aad), ignore, MakeWritableByteSpan(out));
        return out;
    };
    const Bytes pg = garbage_bytes(ps, pc.peer_garbage);
    Bytes hello(UCharCast(P.GetOurPubKey().data()), UCharCast(P.GetOurPubKey().data()) + 64);
    hello.insert(hello.end(), pg.begin(), pg.end());
    drain();
    feed(hello);
    drain();
    if (dead || from_t.size() < 64) { S.viol("peer-handshake-" + pc.name, "transport failed or did not send its key (" + u(from_t.size()) + " bytes) " + err); return; }
    P.Initialize(EllSwiftPubKey(MakeByteSpan(from_t).first(64)), /*initiator=*/!pc.t_initiator);
    Bytes stream(UCharCast(P.GetSendGarbageTerminator().data()), UCharCast(P.GetSendGarbageTerminator().data()) + 16);
    bool aad_used = false;
    auto add = [&](const Bytes& contents, bool ignore) {
        Bytes p = packet(contents, aad_used ? Bytes{} : pg, ignore);
        aad_used = true;
        stream.insert(stream.end(), p.begin(), p.end());
    };
    for (size_t L : pc.decoys_before_version) add(pat(L, 33), true);
    add({}, false); // version packet
    size_t n_expected = 0;
    for (auto& [decoys, m] : pc.to_t) {
        for (size_t L : decoys) add(pat(L, 34), true);
        add(v2_contents(m), false);
        n_expected++;
    }
    feed(stream);
    drain();
    S.stat("peer_cases", 1);
    S.stat("peer_decoys", pc.decoys_before_version.size() + [&] { size_t n = 0; for (auto& x : pc.to_t) n += x.first.size(); return n; }());
    if (pc.expect_abort) {
        if (!dead || !got.empty()) S.viol("peer-oversize-decoy-accepted-" + pc.name, "a packet whose contents exceed 1 + 12 + 4,000,000 bytes was not refused (delivered " + u(got.size()) + " messages)");
        return;
    }
    if (dead) { S.viol("peer-decoy-" + pc.name, "transport aborted on a valid stream with decoys/garbage " + err); return; }
    if (got.size() != n_expected) { S.viol("peer-decoy-count-" + pc.name, "received " + u(got.size()) + " messages, peer sent " + u(n_expected) + " (decoys must be ignored)"); return; }
    for (size_t i = 0; i < got.size(); i++)
        if (got[i].reject || got[i].type != pc.to_t[i].second.type || got[i].payload != pc.to_t[i].second.payload) { S.viol("peer-decoy-msg-" + pc.name, "message " + u(i) + " differs"); return; }
    // what the transport sent: key | garbage | terminator | version packet(aad = garbage) | packets
    const Bytes tg = garbage_bytes(ts, pc.t_garbage);
    size_t pos = 64;
    auto bad = [&](const std::string& w) { S.viol("peer-sendside-" + pc.name, w); };
    if (from_t.size() < pos + tg.size() + 16) return bad("stream too short");
    if (!std::equal(tg.begin(), tg.end(), from_t.begin() + pos)) return bad("garbage bytes differ from the ones given to the constructor");
    pos += tg.size();
    if (!std::equal(from_t.begin() + pos, from_t.begin() + pos + 16, UCharCast(P.GetReceiveGarbageTerminator().data()))) return bad("garbage terminator differs");
    pos += 16;
    bool first = true, version_seen = false;
    size_t nmsg = 0;
    while (pos < from_t.size()) {
        if (from_t.size() - pos < 3) return bad("dangling bytes");
        uint32_t len = P.DecryptLength(MakeByteSpan(from_t).subspan(pos, 3));
        if (from_t.size() - pos < len + BIP324Cipher::EXPANSION) return bad("truncated packet");
        Bytes contents(len);
        bool ignore = false;
        if (!P.Decrypt(MakeByteSpan(from_t).subspan(pos + 3, len + BIP324Cipher::EXPANSION - 3), MakeByteSpan(first ? tg : Bytes{}), ignore, MakeWritableByteSpan(contents))) return bad("packet does not authenticate (aad = garbage on the first packet)");
        first = false;
        pos += len + BIP324Cipher::EXPANSION;
        if (ignore) continue;
        if (!version_seen) { version_seen = true; if (!contents.empty()) return bad("version packet not empty"); continue; }
        if (nmsg >= pc.from_t.size() || contents != v2_contents(pc.from_t[nmsg])) return bad("application packet " + u(nmsg) + " contents differ from BIP324 encoding");
        nmsg++;
    }
    if (!version_seen || nmsg != pc.from_t.size()) return bad("sent " + u(nmsg) + " of " + u(pc.from_t.size()) + " messages");
}

// over-long garbage without terminator must abort by 4095+16 bytes
static void run_overlong_garbage(bool t_initiator, size_t chunk)
{
    const int ts = t_initiator ? 0 : 1, ps = 1 - ts;
    V2Transport T(ts, t_initiator, *g_key[ts], MakeByteSpan(g_ent[ts]), {});
    BIP324Cipher P(*g_key[ps], MakeByteSpan(g_ent[ps]));
    Bytes data(UCharCast(P.GetOurPubKey().data()), UCharCast(P.GetOurPubKey().data()) + 64);
    Bytes junk = pat(4095 + 16 + 50, 44);
    data.insert(data.end(), junk.begin(), junk.end());
    size_t pos = 0, consumed_at_fail = 0;
    bool failed = false;
    while (pos < data.size()) {
        size_t n = chunk ? std::min(chunk, data.size() - pos) : data.size() - pos;
        std::span<const uint8_t> in(data.data() + pos, n);
        if (!T.ReceivedBytes(in)) { failed = true; consumed_at_fail = pos + n - in.size(); break; }
        if (!in.empty()) break;
        pos += n;
    }
    S.stat("peer_cases", 1);
    if (!failed) S.viol("overlong-garbage-accepted", "4111+ bytes without garbage terminator did not abort the connection");
    else if (consumed_at_fail > 64 + 4095 + 16) S.viol("overlong-garbage-late", "abort only after " + u(consumed_at_fail) + " bytes");
}

// ---------------------------------------------------------------- D. tampering
static void tamper_v2(bool big)
{
    Scenario sc;
    sc.name = "tamper-v2";
    sc.mode = V2V2;
    sc.garbage[0] = 5; sc.garbage[1] = 3;
    sc.q[0] = {{"ping", pat(8, 1)}, {"verack", {}}, {"tx", pat(big ? 61 : 20, 2)}};
    sc.q[1] = {{"pong", pat(8, 3)}, {"zzlongtype12", pat(2, 4)}};
    auto ref = run_uniform(sc, 0, 0);
    std::string e = ref->check_final();
    if (!e.empty()) { S.viol("honest-tamper-v2", e); return; }
    emit_wire(sc, *ref);
    std::atomic<uint64_t> n{0}, nonempty{0};
    for (int s = 0; s < 2; s++) { // s = sender whose stream is altered; receiver = fresh transport of the other side
        const Bytes& w = ref->wire[s];
        const auto& sent = sc.q[s];
        vx::par_for(w.size() * 8, 64, [&](uint64_t lo, uint64_t hi, unsigned) {
            for (uint64_t bit = lo; bit < hi; bit++)
                for (size_t chunk : {size_t(0), size_t(1), size_t(5)}) {
                    if (out_of_time()) continue;
                    Bytes tw = w;
                    tw[bit / 8] ^= 1 << (bit % 8);
                    auto R = make_transport(sc, 1 - s);
                    std::vector<Got> got;
                    size_t pos = 0;
                    bool stop = false;
                    while (pos < tw.size() && !stop) {
                        size_t len = chunk ? std::min(chunk, tw.size() - pos) : tw.size() - pos;
                        std::span<const uint8_t> in(tw.data() + pos, len);
                        pos += len;
                        while (!in.empty()) {
                            size_t before = in.size();
                            if (!R->ReceivedBytes(in)) { stop = true; break; }
                            bool drained = false;
                            while (R->ReceivedMessageComplete()) {
                                bool rej = false;
                                CNetMessage m = R->GetReceivedMessage(NodeClock::time_point{}, rej);
                                got.push_back({m.m_type, Bytes(UCharCast(m.m_recv.data()), UCharCast(m.m_recv.data()) + m.m_recv.size()), rej});
                                drained = true;
                            }
                            if (in.size() == before && !drained) { stop = true; break; }
                        }
                    }
                    // messages whose packet ends at or before the altered byte may be delivered, nothing else
                    size_t limit = 0;
                    for (auto& [start, len] : ref->pkt[s]) if (start + len <= bit / 8) limit++;
                    n++;
                    if (!got.empty()) nonempty++;
                    std::string where = std::string(s ? "responder->initiator" : "initiator->responder") + " stream, bit " + u(bit) + " (byte " + u(bit / 8) + " of " + u(w.size()) + "), chunk " + u(chunk);
                    if (got.size() > limit) { S.viol("v2-tamper-delivers-after-alteration-" + std::string(s ? "r2i" : "i2r"), u(got.size()) + " messages delivered but only " + u(limit) + " packets precede the altered byte: " + where); continue; }
                    for (size_t i = 0; i < got.size(); i++)
                        if (got[i].reject || got[i].type != sent[i].type || got[i].payload != sent[i].payload) { S.viol("v2-tamper-delivers-different-message-" + std::string(s ? "r2i" : "i2r"), "message " + u(i) + " differs from what was sent: " + where); break; }
                }
        });
    }
    S.stat("v2_tamper_runs", n);
    S.stat("v2_tamper_runs_with_deliveries", nonempty);
}

static void tamper_v1(bool big)
{
    Scenario sc;
    sc.name = "tamper-v1";
    sc.mode = V1V1;
    sc.q[0] = {{"ping", pat(8, 1)}, {"tx", pat(big ? 300 : 60, 2)}, {"verack", {}}, {"inv", pat(37, 9)}};
    auto ref = run_uniform(sc, 0, 0);
    std::string e = ref->check_final();
    if (!e.empty()) { S.viol("honest-tamper-v1", e); return; }
    emit_wire(sc, *ref);
    const Bytes& w = ref->wire[0];
    // positions: per message header = 24 bytes (magic 4, type 12, size 4, checksum 4) then payload
    std::vector<std::pair<size_t, size_t>> targets; // (bit, message index) for checksum and payload bits
    size_t off = 0;
    for (size_t i = 0; i < sc.q[0].size(); i++) {
        size_t plen = sc.q[0][i].payload.size();
        for (size_t b = (off + 20) * 8; b < (off + 24 + plen) * 8; b++) targets.emplace_back(b, i);
        off += 24 + plen;
    }
    if (off != w.size()) { S.viol("harness-v1-layout", "unexpected v1 wire size"); return; }
    std::atomic<uint64_t> n{0};
    vx::par_for(targets.size(), 64, [&](uint64_t lo, uint64_t hi, unsigned) {
        for (uint64_t k = lo; k < hi; k++)
            for (size_t chunk : {size_t(0), size_t(1), size_t(7)}) {
                auto [bit, mi] = targets[k];
                Bytes tw = w;
                tw[bit / 8] ^= 1 << (bit % 8);
                auto R = make_transport(sc, 1);
                std::vector<Got> got;
                size_t pos = 0;
                bool stop = false;
                while (pos < tw.size() && !stop) {
                    size_t len = chunk ? std::min(chunk, tw.size() - pos) : tw.size() - pos;
                    std::span<const uint8_t> in(tw.data() + pos, len);
                    pos += len;
                    while (!in.empty() && !stop) {
                        if (!R->ReceivedBytes(in)) { stop = true; break; }
                        while (R->ReceivedMessageComplete()) {
                            bool rej = false;
                            CNetMessage m = R->GetReceivedMessage(NodeClock::time_point{}, rej);
                            got.push_back({m.m_type, Bytes(UCharCast(m.m_recv.data()), UCharCast(m.m_recv.data()) + m.m_recv.size()), rej});
                        }
                    }
                }
                n++;
                std::string where = "bit " + u(bit) + " (message " + u(mi) + ", chunk " + u(chunk) + ")";
                if (stop || got.size() != sc.q[0].size()) { S.viol("v1-tamper-framing", "payload/checksum alteration broke the framing: " + where); continue; }
                for (size_t i = 0; i < got.size(); i++) {
                    if (i == mi) { if (!got[i].reject) S.viol("v1-delivers-checksum-mismatch", "message with altered payload/checksum delivered without reject: " + where); }
                    else if (got[i].reject || got[i].type != sc.q[0][i].type || got[i].payload != sc.q[0][i].payload) S.viol("v1-tamper-collateral", "untouched message " + u(i) + " affected: " + where);
                }
            }
    });
    S.stat("v1_tamper_runs", n);
}

// ----------------------------------------------------------------
static int run_all(bool big)
{
    BasicTestingSetup setup{ChainType::REGTEST};
    for (int s = 0; s < 2; s++) {
        g_key[s] = new CKey;
        Bytes k = pat(32, 90 + s);
        g_key[s]->Set(k.begin(), k.end(), true);
        g_ent[s] = pat(32, 95 + s);
        if (!g_key[s]->IsValid()) { printf("M\tbad key\n"); return 2; }
        CPubKey pk = g_key[s]->GetPubKey();
        printf("K\t%d\t%s\t%s\n", s, vx::hex(k).c_str(), vx::hex(Bytes(pk.begin(), pk.end())).c_str());
    }

    // ---- A. exploration scenarios
    {
        std::vector<Scenario> scs;
        auto mk = [&](const std::string& name, Mode m, std::vector<Msg> ab, std::vector<Msg> ba, size_t ga, size_t gb) {
            Scenario s; s.name = name; s.mode = m; s.q[0] = std::move(ab); s.q[1] = std::move(ba); s.garbage[0] = ga; s.garbage[1] = gb; scs.push_back(std::move(s));
        };
        mk("x-v1-a", V1V1, {{"ping", pat(2, 1)}, {"verack", {}}, {"zzlongtype12", pat(1, 2)}}, {{"", {}}, {"ping", pat(1, 3)}}, 0, 0);
        mk("x-v1-b", V1V1, {{"bad\x01", pat(1, 1)}, {"tx", pat(3, 2)}}, {{"inv", pat(2, 3)}}, 0, 0);
        mk("x-v2-a", V2V2, {{"ping", pat(2, 1)}, {"verack", {}}}, {{"zzlongtype12", pat(1, 3)}}, 0, 0);
        mk("x-v2-b", V2V2, {{"", {}}}, {{"ping", {}}, {"bad\x01", pat(1, 4)}, {"tx", pat(2, 5)}}, 1, 2);
        mk("x-v2-c", V2V2, {}, {}, 3, 0);
        mk("x-v1v2-a", V1V2, {{"version", pat(4, 1)}, {"ping", pat(1, 2)}}, {{"verack", {}}, {"pong", pat(2, 3)}}, 0, 2);
        if (big) {
            mk("x-v2-d", V2V2, {{"feature", pat(2, 1)}, {"addrv2", pat(1, 2)}, {"ping", {}}}, {{"verack", {}}, {"tx", pat(3, 3)}}, 0, 1);
            mk("x-v1v2-b", V1V2, {{"version", {}}, {"", pat(2, 1)}}, {{"ping", pat(1, 1)}}, 0, 0);
        }
        const int k = big ? 3 : 2;
        S.stat("explore_cut_bound", k);
        S.stat("explore_scenarios", scs.size());
        vx::par_for(scs.size() * 2, 1, [&](uint64_t lo, uint64_t hi, unsigned) { for (uint64_t i = lo; i < hi; i++) explore_scenario(scs[i / 2], k, i % 2); });
        S.flush();
    }
    // ---- B. message sequences x uniform chunkings
    {
        const std::vector<std::string> types = {"ping", "verack", "zzlongtype12", ""};
        const std::vector<size_t> sizes = {0, 1, 255, 256};
        std::vector<Msg> alpha;
        for (auto& t : types) for (size_t z : sizes) alpha.push_back({t, pat(z, (uint8_t)(z + t.size()))});
        const int maxlen = big ? 3 : 2;
        std::vector<std::vector<Msg>> seqs = {{}};
        for (size_t begin = 0, len = 0; len < (size_t)maxlen; len++) {
            size_t end = seqs.size();
            for (size_t i = begin; i < end; i++) for (auto& m : alpha) { auto v = seqs[i]; v.push_back(m); seqs.push_back(v); }
            begin = end;
        }
        std::atomic<uint64_t> nruns{0}, nmsgs{0};
        vx::par_for(seqs.size(), 4, [&](uint64_t lo, uint64_t hi, unsigned) {
            for (uint64_t i = lo; i < hi; i++)
                for (Mode m : {V1V1, V2V2}) {
                    if (out_of_time()) continue;
                    Scenario sc;
                    sc.name = std::string("seq-") + MODE_NAME[m] + "-" + u(i);
                    sc.mode = m;
                    sc.q[0] = seqs[i];
                    sc.q[1] = seqs[(i * 7 + 3) % seqs.size()]; // other direction: a different sequence of the same set
                    sc.garbage[0] = i % 3; sc.garbage[1] = (i / 3) % 2;
                    std::unique_ptr<Session> first;
                    for (size_t chunk : {size_t(0), size_t(1), size_t(3)})
                        for (int start = 0; start < 4; start++) {
                            auto s = run_uniform(sc, chunk, start & 1, start >= 2);
                            std::string e = s->check_final();
                            if (e.empty() && first && (s->wire[0] != first->wire[0] || s->wire[1] != first->wire[1])) e = "wire bytes depend on the fragmentation";
                            if (!e.empty()) S.viol(std::string("sequence-") + MODE_NAME[m] + "-len" + u(seqs[i].size()), e + " :: A->B " + msgs_spec(sc.q[0]).substr(0, 80) + " chunk " + u(chunk) + " first " + u(start));
                            nruns++;
                            nmsgs += sc.q[0].size() + sc.q[1].size();
                            if (!first) first = std::move(s);
                        }
                    if (seqs[i].size() <= 1 || (i % (big ? 16 : 8)) == 0) emit_wire(sc, *first);
                }
        });
        S.stat("sequence_runs", nruns);
        S.stat("sequence_messages", nmsgs);
        S.stat("sequences", seqs.size());
        S.flush();
        // large payloads, large garbage, rekey crossing
        std::vector<std::pair<Scenario, std::vector<size_t>>> bigs;
        auto mk = [&](const std::string& name, Mode m, std::vector<Msg> ab, std::vector<Msg> ba, size_t ga, size_t gb, std::vector<size_t> chunks) {
            Scenario s; s.name = name; s.mode = m; s.q[0] = std::move(ab); s.q[1] = std::move(ba); s.garbage[0] = ga; s.garbage[1] = gb; bigs.emplace_back(std::move(s), std::move(chunks));
        };
        for (Mode m : {V1V1, V2V2}) {
            mk(std::string("big-payload-") + MODE_NAME[m], m, {{"block", pat(65536, 1)}, {"ping", pat(8, 2)}}, {{"zzlongtype12", pat(65536, 3)}}, 0, 0, {0, 1, 4093});
            std::vector<Msg> many;
            for (int i = 0; i < (big ? 460 : 230); i++) many.push_back({i % 3 ? "ping" : "verack", pat(i % 5, (uint8_t)i)});
            mk(std::string("rekey-") + MODE_NAME[m], m, many, std::vector<Msg>(many.begin(), many.begin() + 226), 0, 0, {0, 7});
        }
        for (size_t ga : {size_t(0), size_t(1), size_t(4095)})
            for (size_t gb : {size_t(0), size_t(1), size_t(4095)})
                mk("garbage-" + u(ga) + "-" + u(gb), V2V2, {{"ping", pat(8, 1)}}, {{"pong", pat(8, 2)}}, ga, gb, {0, 1, 64});
        // Payload-size limit (MAX_PROTOCOL_MESSAGE_LENGTH = 4,000,000): messages at and just below the limit must be
        // delivered whatever the encoding of the message type is (short id: 1 byte; long form: 1 + 12 bytes of contents).
        for (const char* type : {"block", "zzlongtype12", "xunknw", "sendaddrv2"})
            for (size_t size : {size_t(3999988), size_t(3999989), size_t(4000000)}) {
                if (!big && std::string(type) == "block" && size != 4000000) continue;
                mk(std::string("limit-v2-") + type + "-" + u(size), V2V2, {{type, pat(size, 7)}, {"ping", pat(8, 1)}}, {{"verack", {}}}, 0, 1, big ? std::vector<size_t>{65536, 0} : std::vector<size_t>{65536});
                if (size == 4000000) mk(std::string("limit-v1-") + type + "-" + u(size), V1V1, {{type, pat(size, 7)}, {"ping", pat(8, 1)}}, {{"verack", {}}}, 0, 0, {big ? size_t(65536) : size_t(0)});
            }
        std::atomic<uint64_t> nb{0};
        vx::par_for(bigs.size(), 1, [&](uint64_t lo, uint64_t hi, unsigned) {
            for (uint64_t i = lo; i < hi; i++) {
                auto& [sc, chunks] = bigs[i];
                std::unique_ptr<Session> first;
                for (size_t ci = 0; ci < 2 * chunks.size(); ci++) {
                    const size_t chunk = chunks[ci / 2];
                    auto s = run_uniform(sc, chunk, chunk % 2, ci & 1);
                    std::string e = s->check_final();
                    if (e.empty() && first && (s->wire[0] != first->wire[0] || s->wire[1] != first->wire[1])) e = "wire bytes depend on the fragmentation";
                    if (!e.empty()) S.viol("scenario-" + sc.name, e + " (chunk " + u(chunk) + ")");
                    nb++;
                    if (!first) first = std::move(s);
                }
                if (sc.q[0].empty() || sc.q[0][0].payload.size() < 1000000) emit_wire(sc, *first);
            }
        });
        S.stat("large_scenario_runs", nb);
        S.flush();
    }
    // ---- C. scripted peer with decoys
    {
        std::vector<PeerCase> pcs;
        const std::vector<std::vector<size_t>> dv = {{}, {0}, {1}, {100}, {0, 0}, {7, 0, 300}};
        for (bool ti : {false, true})
            for (size_t pg : {size_t(0), size_t(1), size_t(4095)})
                for (auto& before : dv)
                    for (size_t chunk : {size_t(0), size_t(1), size_t(3)}) {
                        if (pg == 4095 && chunk == 3) continue;
                        PeerCase pc;
                        pc.t_initiator = ti; pc.peer_garbage = pg; pc.t_garbage = pg ? 2 : 0; pc.decoys_before_version = before; pc.chunk = chunk;
                        // a decoy (or several) at each position of the message sequence
                        pc.to_t.push_back({before, {"ping", pat(8, 1)}});
                        pc.to_t.push_back({{}, {"verack", {}}});
                        pc.to_t.push_back({{5}, {"zzlongtype12", pat(3, 2)}});
                        pc.to_t.push_back({{0, 1}, {"tx", pat(40, 3)}});
                        pc.from_t = {{"pong", pat(8, 4)}, {"sendheaders", {}}, {"addrv2", pat(5, 5)}};
                        pc.name = std::string(ti ? "init" : "resp") + "-g" + u(pg) + "-d" + u(before.size()) + "-c" + u(chunk);
                        pcs.push_back(pc);
                    }
        // decoys at the contents-length limit (1 type byte + 12 bytes long-form type + 4,000,000 payload bytes): the
        // decoys up to the largest legal size are ignored (what happens above the limit is not part of the property)
        for (bool ti : {false, true})
            for (size_t len : {size_t(4000001), size_t(4000002), size_t(4000013)}) {
                if (!big && ti && (len == 4000001 || len == 4000002)) continue;
                PeerCase pc;
                pc.t_initiator = ti; pc.peer_garbage = 1; pc.t_garbage = 0; pc.chunk = 0;
                if (ti) pc.decoys_before_version = {len};
                pc.to_t.push_back({ti ? std::vector<size_t>{} : std::vector<size_t>{len}, {"ping", pat(8, 1)}});
                pc.to_t.push_back({{}, {"verack", {}}});
                pc.from_t = {{"pong", pat(8, 4)}};
                pc.name = std::string(ti ? "init" : "resp") + "-decoy" + u(len);
                pcs.push_back(pc);
            }
        vx::par_for(pcs.size(), 2, [&](uint64_t lo, uint64_t hi, unsigned) { for (uint64_t i = lo; i < hi; i++) run_peer_case(pcs[i]); });
        for (bool ti : {false, true}) for (size_t chunk : {size_t(0), size_t(1), size_t(100)}) run_overlong_garbage(ti, chunk);
        S.flush();
    }
    // ---- D. tampering
    tamper_v2(big);
    tamper_v1(big);
    if (g_incomplete) printf("M\tINCOMPLETE\n");
    S.finish();
    for (int s = 0; s < 2; s++) { delete g_key[s]; g_key[s] = nullptr; }
    return 0;
}

int main(int argc, char** argv)
{
    vx::init(argc, argv, "C32", "exploration");
    return run_all(vx::thorough());
}
