#!/usr/bin/env python3
"""C48 checker. The C++ producer prints what the real serializers/parsers do; this file holds the references:
vendored test_framework/messages.py for well-formed objects, a strict BIP144 decoder (below) for arbitrary bytes,
stdlib binascii/base64 + strict RFC 4648 decoders, a few lines of base58, and regex grammars for ParseMoney/ToIntegral."""
import sys, re, base64, binascii, hashlib, io
sys.path.insert(0, '/verif')
from vx.vxpy import Run

run = Run('C48', 'exploration')
from test_framework.messages import (CTransaction, CTxIn, CTxOut, COutPoint, CTxInWitness, CBlock, CBlockHeader, CInv, CAddress,
                                     msg_inv, msg_headers, msg_addrv2, P2PHeaderAndShortIDs, PrefilledTransaction,
                                     BlockTransactionsRequest, BlockTransactions, hash256, ser_compact_size, from_hex, tx_from_hex)

MAX_SIZE = 0x02000000
MAX_MONEY = 21000000 * 100000000


def unhex(s):
    return b'' if s == '-' else bytes.fromhex(s)


def sha256d(b):
    return hashlib.sha256(hashlib.sha256(b).digest()).digest()


# ---------------------------------------------------------------------------------------------- transactions
def build_tx(d):
    ver, lock, vins, vouts = d.split('|')
    tx = CTransaction()
    tx.version = int(ver)
    tx.nLockTime = int(lock)
    if vins:
        for x in vins.split(';'):
            h, n, sig, seq, wit = x.split(':')
            tx.vin.append(CTxIn(COutPoint(int(h, 16), int(n)), unhex(sig), int(seq)))
            w = CTxInWitness()
            w.scriptWitness.stack = [] if wit == '-' else [b'' if i == 'e' else bytes.fromhex(i) for i in wit.split(',')]
            tx.wit.vtxinwit.append(w)
    if vouts:
        for x in vouts.split(';'):
            v, spk = x.split(':')
            tx.vout.append(CTxOut(int(v), unhex(spk)))
    return tx


class Bad(Exception):
    pass


class Rd:
    def __init__(self, b):
        self.b, self.p = b, 0

    def take(self, n):
        if self.p + n > len(self.b):
            raise Bad('eof')
        r = self.b[self.p:self.p + n]
        self.p += n
        return r

    def u(self, n):
        return int.from_bytes(self.take(n), 'little')

    def cs(self, range_check=True):
        c = self.u(1)
        if c < 253:
            v = c
        elif c == 253:
            v = self.u(2)
            if v < 253: raise Bad('non-canonical')
        elif c == 254:
            v = self.u(4)
            if v < 0x10000: raise Bad('non-canonical')
        else:
            v = self.u(8)
            if v < 0x100000000: raise Bad('non-canonical')
        if range_check and v > MAX_SIZE:
            raise Bad('size too large')
        return v

    def var_bytes(self):
        return self.take(self.cs())


def strict_decode_tx(b, allow_witness):
    """BIP144 decoding as strict as the node: returns (descriptor, bytes left) or raises Bad."""
    r = Rd(b)
    ver = r.u(4)

    def read_ins():
        return [(r.take(32), r.u(4), r.var_bytes(), r.u(4)) for _ in range(r.cs())]

    def read_outs():
        return [(int.from_bytes(r.take(8), 'little', signed=True), r.var_bytes()) for _ in range(r.cs())]
    vin = read_ins()
    vout = []
    flags = 0
    if not vin and allow_witness:
        flags = r.u(1)
        if flags != 0:
            vin = read_ins()
            vout = read_outs()
    else:
        vout = read_outs()
    wit = [[] for _ in vin]
    if (flags & 1) and allow_witness:
        flags ^= 1
        for i in range(len(vin)):
            wit[i] = [r.var_bytes() for _ in range(r.cs())]
        if all(len(w) == 0 for w in wit):
            raise Bad('superfluous witness record')
    if flags:
        raise Bad('unknown optional data')
    lock = r.u(4)
    d = f'{ver}|{lock}|' + ';'.join(
        f'{h[::-1].hex()}:{n}:{sig.hex() or "-"}:{seq}:' + ('-' if not w else ','.join(i.hex() or 'e' for i in w)) for (h, n, sig, seq), w in zip(vin, wit)
    ) + '|' + ';'.join(f'{v}:{spk.hex() or "-"}' for v, spk in vout)
    return d, len(b) - r.p


# ---------------------------------------------------------------------------------------------- codecs
B58 = '123456789ABCDEFGHJKLMNPQRSTUVWXYZabcdefghijkmnopqrstuvwxyz'
WS = ' \t\n\v\f\r'


def b58enc(b):
    n = int.from_bytes(b, 'big')
    s = ''
    while n:
        n, r = divmod(n, 58)
        s = B58[r] + s
    return '1' * (len(b) - len(b.lstrip(b'\0'))) + s


def b58dec(s, maxlen):
    if '\0' in s:
        return None
    s = s.strip(WS)
    if any(c not in B58 for c in s):
        return None
    zeros = len(s) - len(s.lstrip('1'))
    n = 0
    for c in s:
        n = n * 58 + B58.index(c)
    body = n.to_bytes((n.bit_length() + 7) // 8, 'big')
    out = b'\0' * zeros + body
    return out if len(out) <= maxlen else None


def b58chk_dec(s, maxlen):
    d = b58dec(s, maxlen + 4 if maxlen <= 0x7ffffffb else maxlen)
    if d is None or len(d) < 4:
        return None
    if sha256d(d[:-4])[:4] != d[-4:]:
        return None
    return d[:-4]


def strict_rfc4648(s, alphabet, bits, group, fold_case=False):
    """Canonical RFC 4648 decoding: full groups, '=' padding only at the end and only in the amounts that exist, zero trailing bits."""
    if len(s) % group:
        return None
    data = s.rstrip('=')
    npad = len(s) - len(data)
    if '=' in data:
        return None
    if fold_case:
        data = data.lower()
    if any(c not in alphabet for c in data):
        return None
    nbits = len(data) * bits
    if npad >= group:
        return None
    # padded length must be the canonical one for this amount of data
    if nbits % 8 >= bits:          # a whole symbol of leftover: impossible in a canonical encoding
        return None
    if npad != (-len(data)) % group:
        return None
    n = 0
    for c in data:
        n = (n << bits) | alphabet.index(c)
    extra = nbits % 8
    if n & ((1 << extra) - 1):
        return None
    return (n >> extra).to_bytes(nbits // 8, 'big')


B64 = 'ABCDEFGHIJKLMNOPQRSTUVWXYZabcdefghijklmnopqrstuvwxyz0123456789+/'
B32 = 'abcdefghijklmnopqrstuvwxyz234567'
HEXPAIRS = re.compile(r'^(?:[ \t\n\v\f\r]*[0-9a-fA-F]{2})*[ \t\n\v\f\r]*$')
MONEY = re.compile(r'^([0-9]{0,10})(?:\.([0-9]{0,8}))?$')


def ref_parse_money(s):
    if '\0' in s:
        return None
    s = s.strip(WS)
    if not s:
        return None
    m = MONEY.match(s)
    if not m:
        return None
    whole = int(m.group(1) or '0')
    frac = (m.group(2) or '').ljust(8, '0')
    v = whole * 100000000 + int(frac or '0')
    return v if 0 <= v <= MAX_MONEY else None


def ref_format_money(n):
    a = abs(n)
    q, r = divmod(a, 100000000)
    frac = f'{r:08d}'
    while len(frac) > 2 and frac.endswith('0'):
        frac = frac[:-1]
    return ('-' if n < 0 else '') + f'{q}.{frac}'


INT_TYPES = [(-2**31, 2**31 - 1), (0, 2**32 - 1), (-2**63, 2**63 - 1), (0, 2**64 - 1), (0, 255), (0, 65535), (-128, 127)]


def ref_to_integral(s, lo, hi):
    if not re.fullmatch(r'-?[0-9]+' if lo < 0 else r'[0-9]+', s):
        return 'x'
    v = int(s)
    return str(v) if lo <= v <= hi else 'x'


# ---------------------------------------------------------------------------------------------- main loop
counts = {}
gates = dict(tx_witness=0, tx_nowitness=0, dec_tx_ok=0, dec_tx_throw=0, dec_superfluous=0, cs_noncanonical=0, cs_toolarge=0, dec_accept=0, dec_reject=0, pm_accept=0, pm_reject=0, ti_accept=0, ti_reject=0, b58c_badsum=0)
begin = end = False
nlines = expected_lines = 0


def expect(cond, key, what, line):
    run.evaluations += 1
    if not cond:
        run.violation(key, what, line[:4000])


def hdr_from_desc(d):
    v, prev, root, t, bits, nonce = d.split(':')
    h = CBlockHeader()
    h.nVersion, h.hashPrevBlock, h.hashMerkleRoot, h.nTime, h.nBits, h.nNonce = int(v), int(prev, 16), int(root, 16), int(t), int(bits), int(nonce)
    return h


p = run.spawn()
for raw in p.stdout:
    line = raw.rstrip('\n')
    f = line.split('\t')
    tag = f[0]
    if tag == 'BEGIN':
        begin = True
        continue
    if tag == 'END':
        end = True
        expected_lines = int(f[1])
        continue
    if line.startswith('HARNESS-ERROR'):
        print(line)
        sys.exit(2)
    nlines += 1
    counts[tag if tag not in ('DEC', 'MSG') else tag + ':' + f[1]] = counts.get(tag if tag not in ('DEC', 'MSG') else tag + ':' + f[1], 0) + 1
    if tag == 'TX':
        _, d, hw, hnw, txid, wtxid, rt, mut_same, haswit, total = f
        tx = build_tx(d)
        w, nw = tx.serialize_with_witness(), tx.serialize_without_witness()
        expect(hw == w.hex(), 'tx-bytes-witness', f'TX_WITH_WITNESS serialisation differs from messages.py for {d}', line)
        expect(hnw == nw.hex(), 'tx-bytes-nowitness', f'TX_NO_WITNESS serialisation differs from messages.py for {d}', line)
        expect(txid == sha256d(nw)[::-1].hex(), 'txid', f'txid is not sha256d of the no-witness serialisation for {d}', line)
        expect(wtxid == sha256d(w)[::-1].hex(), 'wtxid', f'wtxid is not sha256d of the BIP144 serialisation for {d}', line)
        expect(mut_same == '1', 'tx-mutable-bytes', f'CMutableTransaction and CTransaction serialise differently for {d}', line)
        expect(int(total) == len(w), 'tx-total-size', f'ComputeTotalSize != length of witness serialisation for {d}', line)
        has_w = any(x.scriptWitness.stack for x in tx.wit.vtxinwit)
        expect(haswit == str(int(has_w)), 'tx-haswitness', f'HasWitness() wrong for {d}', line)
        gates['tx_witness' if has_w else 'tx_nowitness'] += 1
        if rt != '-1':
            expect(rt == '7', 'tx-roundtrip', f'deserialise(serialise(tx)) is not the identity (flags {rt}) for {d}', line)
            # and the reference decoder reads the node's bytes back to the same object
            try:
                dd, left = strict_decode_tx(bytes.fromhex(hw), True)
            except Bad as e:
                dd, left = 'bad:' + str(e), -1
            expect(dd == d and left == 0, 'tx-reference-decode', f'strict BIP144 decoder does not read the node\'s encoding back: {dd} vs {d}', line)
            t2 = CTransaction()
            t2.deserialize(io.BytesIO(bytes.fromhex(hw)))
            expect(t2.serialize_with_witness().hex() == hw, 'tx-python-roundtrip', f'messages.py round trip of the node\'s bytes differs for {d}', line)
        run.distinct.add(('tx', hw))
    elif tag == 'DEC' and f[1] in ('tx', 'txnw'):
        data = unhex(f[2])
        try:
            want = ('ok',) + strict_decode_tx(data, f[1] == 'tx')
        except Bad as e:
            want = ('throw', str(e))
        if want[0] == 'throw':
            gates['dec_tx_throw'] += 1
            if 'superfluous' in want[1]:
                gates['dec_superfluous'] += 1
            expect(f[3] == 'throw', 'tx-decode-accepts', f'node decodes bytes the strict BIP144 reference rejects ({want[1]}): {f[2]} -> {f[3:]}', line)
        else:
            gates['dec_tx_ok'] += 1
            expect(f[3] == 'ok' and f[5] == want[1] and int(f[4]) == want[2], 'tx-decode', f'node decodes {f[2]} as {f[3:]}, reference {want}', line)
        run.distinct.add(('dec', f[1], f[2]))
    elif tag == 'HDR':
        _, d, hx, hsh, rt = f
        h = hdr_from_desc(d)
        expect(h.serialize().hex() == hx, 'header-bytes', f'header serialisation differs from messages.py for {d}', line)
        expect(sha256d(bytes.fromhex(hx))[::-1].hex() == hsh and len(hx) == 160, 'header-hash', f'block hash is not sha256d of the 80 header bytes for {d}', line)
        expect(rt == '1', 'header-roundtrip', f'header round trip failed for {d}', line)
        run.distinct.add(('hdr', hx))
    elif tag == 'BLK':
        _, bw, bn, hsh, ntx, ids, ok = f
        b = CBlock()
        b.deserialize(io.BytesIO(bytes.fromhex(bw)))
        expect(b.serialize(with_witness=True).hex() == bw, 'block-bytes', 'block serialisation (with witness) differs from messages.py round trip', line)
        expect(b.serialize(with_witness=False).hex() == bn, 'block-bytes-nowitness', 'block serialisation (no witness) differs from messages.py', line)
        expect(len(b.vtx) == int(ntx) and ok == '1', 'block-roundtrip', 'block round trip / tx count wrong', line)
        expect(sha256d(bytes.fromhex(bw)[:80])[::-1].hex() == hsh, 'block-hash', 'block hash is not sha256d of the header', line)
        want_ids = ''.join(t.txid_hex + ',' + t.wtxid_hex + ';' for t in b.vtx) or '-'
        expect(ids == want_ids, 'block-txids', 'txids/wtxids of the block transactions differ from the reference', line)
        run.distinct.add(('blk', bw))
    elif tag == 'MSG':
        kind, d, hx, rt = f[1], f[2], f[3], f[4]
        want = None
        if kind == 'inv':
            m = msg_inv([CInv(int(x.split(':')[0]), int(x.split(':')[1], 16)) for x in d.split(';') if x and x != '-'])
            want = m.serialize()
        elif kind == 'headers':
            m = msg_headers([hdr_from_desc(x) for x in d.split(';') if x and x != '-'])
            want = m.serialize()
        elif kind in ('addr', 'addrv2'):
            items = [x.split(':', 5) for x in d.split(';') if x and x != '-']
            want = ser_compact_size(len(items))
            for tm, sv, netid, ahex, port, ipstr in items:
                a = CAddress()
                a.time, a.nServices, a.net, a.ip, a.port = int(tm), int(sv), int(netid), ipstr, int(port)
                ab = bytes.fromhex(ahex)
                if kind == 'addrv2':
                    enc = a.serialize_v2()
                    # and from first principles (BIP155)
                    mine = int(tm).to_bytes(4, 'little') + ser_compact_size(int(sv)) + bytes([int(netid)]) + ser_compact_size(len(ab)) + ab + int(port).to_bytes(2, 'big')
                    expect(enc == mine, 'addrv2-reference-self', 'messages.py and the BIP155 transcription disagree (reference problem)', line)
                    want += mine
                else:
                    v1 = {1: bytes(10) + b'\xff\xff' + ab, 2: ab}.get(int(netid), bytes(16))
                    want += int(tm).to_bytes(4, 'little') + int(sv).to_bytes(8, 'little') + v1 + int(port).to_bytes(2, 'big')
        elif kind == 'cmpctblock':
            hd, nonce, sids, cbhex, wtxids = d.split('|')
            m = P2PHeaderAndShortIDs()
            m.header = hdr_from_desc(hd)
            m.nonce = int(nonce)
            m.shortids = [int(x) for x in sids.split(',') if x]
            m.shortids_length = len(m.shortids)
            m.prefilled_txn = [PrefilledTransaction(0, tx_from_hex(cbhex))]
            m.prefilled_txn_length = 1
            want = m.serialize(with_witness=True)
            # short ids per BIP152: SipHash-2-4 keyed by sha256(header || nonce)
            from test_framework.crypto.siphash import siphash256
            key = hashlib.sha256(m.header.serialize() + int(nonce).to_bytes(8, 'little')).digest()
            k0, k1 = int.from_bytes(key[0:8], 'little'), int.from_bytes(key[8:16], 'little')
            mine = [siphash256(k0, k1, int(w, 16)) & 0xffffffffffff for w in wtxids.split(',') if w]
            expect(mine == m.shortids, 'cmpctblock-shortids', 'short ids differ from BIP152 (siphash of wtxid keyed by sha256(header||nonce))', line)
        elif kind == 'blocktxn':
            bh, txs = d.split('|')
            m = BlockTransactions(int(bh, 16), [tx_from_hex(x) for x in txs.split(',') if x])
            want = m.serialize(with_witness=True)
        elif kind == 'getblocktxn':
            bh, idx = d.split('|')
            m = BlockTransactionsRequest(int(bh, 16))
            m.from_absolute([int(x) for x in idx.split(',') if x])
            want = m.serialize()
        expect(want is not None and want.hex() == hx, 'msg-' + kind, f'{kind} payload differs from the reference encoding: {d[:200]}', line)
        expect(rt == '1', 'msg-roundtrip-' + kind, f'{kind} payload does not round trip', line)
        run.distinct.add(('msg', kind, hx))
    elif tag == 'CSW':
        v = int(f[1])
        want = ser_compact_size(v)
        expect(f[2] == want.hex() and int(f[3]) == len(want), 'compactsize-write', f'WriteCompactSize({v}) = {f[2]}', line)
    elif tag == 'CSR':
        data = unhex(f[1])
        rc = f[2] == '1'
        try:
            r = Rd(data)
            v = r.cs(range_check=rc)
            want = ('ok', str(v), str(len(data) - r.p))
        except Bad as e:
            want = ('throw',)
            if 'canonical' in str(e): gates['cs_noncanonical'] += 1
            if 'large' in str(e): gates['cs_toolarge'] += 1
        expect(tuple(f[3:]) == want, 'compactsize-read', f'ReadCompactSize({f[1]}, range_check={rc}) = {f[3:]}, reference {want}', line)
        run.distinct.add(('cs', f[1], rc))
    elif tag == 'ENC':
        b = unhex(f[1])
        hx, b58, b58c, b64, b32, b32n, rt = [('' if x == '-' else x) for x in f[2:8]] + [f[8]]
        expect(hx == binascii.hexlify(b).decode(), 'hex-encode', f'HexStr({f[1]}) = {hx}', line)
        expect(b58 == b58enc(b), 'base58-encode', f'EncodeBase58({f[1]}) = {b58}', line)
        expect(b58c == b58enc(b + sha256d(b)[:4]), 'base58check-encode', f'EncodeBase58Check({f[1]}) = {b58c}', line)
        expect(b64 == base64.b64encode(b).decode(), 'base64-encode', f'EncodeBase64({f[1]}) = {b64}', line)
        expect(b32 == base64.b32encode(b).decode().lower(), 'base32-encode', f'EncodeBase32({f[1]}) = {b32}', line)
        expect(b32n == base64.b32encode(b).decode().lower().rstrip('='), 'base32-encode-nopad', f'EncodeBase32({f[1]}, pad=false) = {b32n}', line)
        expect(rt == '31', 'codec-roundtrip', f'decode(encode({f[1]})) is not the identity (flags {rt})', line)
        run.distinct.add(('enc', f[1]))
    elif tag == 'DEC':
        codec = f[1]
        s = unhex(f[2]).decode('latin-1')
        got = unhex(f[4]) if f[3] == '1' else None
        if codec == 'hex':
            want = None
            if HEXPAIRS.match(s):
                want = bytes.fromhex(re.sub(r'[ \t\n\v\f\r]', '', s))
            expect(got == want, 'hex-decode', f'TryParseHex({s!r}) = {got}, reference {want}', line)
            is_hex = bool(re.fullmatch(r'(?:[0-9a-fA-F]{2})+', s))
            expect(f[5] == str(int(is_hex)), 'ishex', f'IsHex({s!r}) = {f[5]}', line)
            expect(unhex(f[6]) == (want or b''), 'parsehex', f'ParseHex({s!r}) = {f[6]}', line)
        elif codec == 'b64':
            want = strict_rfc4648(s, B64, 6, 4)
            if want is not None:
                # stdlib agrees on everything the strict reference accepts
                assert base64.b64decode(s, validate=True) == want
            expect(got == want, 'base64-decode', f'DecodeBase64({s!r}) = {got}, strict RFC 4648 reference {want}', line)
        elif codec == 'b32':
            want = strict_rfc4648(s, B32, 5, 8, fold_case=True)
            if want is not None:
                assert base64.b32decode(s, casefold=True) == want
            expect(got == want, 'base32-decode', f'DecodeBase32({s!r}) = {got}, strict RFC 4648 reference {want}', line)
        elif codec == 'b58':
            want = b58dec(s, int(f[5]))
            expect(got == want, 'base58-decode', f'DecodeBase58({s!r}, max {f[5]}) = {got}, reference {want}', line)
        elif codec == 'b58c':
            want = b58chk_dec(s, int(f[5]))
            if want is None and b58dec(s, 1000) is not None:
                gates['b58c_badsum'] += 1
            expect(got == want, 'base58check-decode', f'DecodeBase58Check({s!r}, max {f[5]}) = {got}, reference {want}', line)
        gates['dec_accept' if want is not None else 'dec_reject'] += 1
        if want:
            run.distinct.add(('dec', codec, s))
    elif tag == 'PM':
        s = unhex(f[1]).decode('latin-1')
        want = ref_parse_money(s)
        got = int(f[3]) if f[2] == '1' else None
        gates['pm_accept' if want is not None else 'pm_reject'] += 1
        expect(got == want, 'parsemoney', f'ParseMoney({s!r}) = {got}, grammar reference {want}', line)
        if want is not None:
            run.distinct.add(('pm', s))
    elif tag == 'FM':
        n = int(f[1])
        expect(f[2] == ref_format_money(n), 'formatmoney', f'FormatMoney({n}) = {f[2]!r}, reference {ref_format_money(n)!r}', line)
        if 0 <= n <= MAX_MONEY:
            expect(f[3] == '1' and int(f[4]) == n, 'money-roundtrip', f'ParseMoney(FormatMoney({n})) = {f[3:]}', line)
        else:
            expect(f[3] == '0', 'money-range', f'ParseMoney accepts the out-of-range / negative amount string {f[2]!r}', line)
    elif tag == 'TI':
        s = unhex(f[1]).decode('latin-1')
        for got, (lo, hi), name in zip(f[2:], INT_TYPES, ('int32', 'uint32', 'int64', 'uint64', 'uint8', 'uint16', 'int8')):
            want = ref_to_integral(s, lo, hi)
            gates['ti_accept' if want != 'x' else 'ti_reject'] += 1
            expect(got == want, 'tointegral-' + name, f'ToIntegral<{name}>({s!r}) = {got}, reference {want}', line)
    else:
        print('HARNESS-ERROR unknown producer line: ' + line[:100])
        sys.exit(2)
rc = p.wait()
if rc != 0 or not begin or not end:
    print(f'HARNESS-ERROR producer failed (rc={rc}, begin={begin}, end={end})')
    sys.exit(2)
if nlines != expected_lines:
    print(f'HARNESS-ERROR producer printed {expected_lines} cases, checker consumed {nlines}')
    sys.exit(2)
missing = [k for k, v in gates.items() if v == 0]
if missing and not run.violations:
    print('HARNESS-ERROR outcome classes never occurred: ' + ', '.join(missing))
    sys.exit(2)
run.extra['case_lines'] = counts
run.extra['outcome_classes'] = gates
run.sample(f"transactions: {counts.get('TX', 0)} objects (|vin|,|vout| 0..2 x script lengths x witness shapes) byte-equal to messages.py, txid/wtxid = sha256d; decode cases {counts.get('DEC:tx', 0) + counts.get('DEC:txnw', 0)} vs strict BIP144 decoder")
run.sample(f"blocks {counts.get('BLK', 0)}, headers {counts.get('HDR', 0)}, message payloads " + ', '.join(f'{k[4:]}={v}' for k, v in counts.items() if k.startswith('MSG:')))
run.sample(f"codecs: {counts.get('ENC', 0)} byte strings encoded 6 ways; decoder cases " + ', '.join(f'{k[4:]}={v}' for k, v in counts.items() if k.startswith('DEC:') and 'tx' not in k))
run.sample(f"money: {counts.get('PM', 0)} strings, {counts.get('FM', 0)} amounts; ToIntegral: {counts.get('TI', 0)} strings x 7 types; CompactSize read cases {counts.get('CSR', 0)}")
run.assumptions.append('vendored test_framework/messages.py is the reference encoder for well-formed objects; malformed input is judged by the strict BIP144 / RFC 4648 / grammar transcriptions in check.py')
sys.exit(run.finish(
    rule='transactions: |vin| 0..2 x |vout| 0..2 x per-input (scriptSig length, witness shape) x per-output (value, script length) x version/locktime edges; every prefix and single-byte substitution of 4 encodings; '
         'blocks: every ordered selection of <= 3 sample txs; P2P payloads inv/headers/addr/addrv2/cmpctblock/blocktxn/getblocktxn over small parameter grids; CompactSize: every width x boundary values x range check; '
         'codecs: all byte strings of length <= 2 (+ patterns to 40) encoded; all strings up to length 3-4 over alphabet+{pad,space,NUL,invalid} decoded; money/int: all strings up to length 6 (7) / 5 over small alphabets. '
         'distinct = distinct inputs with a non-trivial (accepted / encoded) outcome',
    exhaustive=True))
