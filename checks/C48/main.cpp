// C48 — Serialization and text encodings round-trip and match the reference format.
// Producer for checks/C48/check.py: prints, one case per line, what the real serializers / parsers answer for an
// enumerated input space.  The Python side holds the references (vendored messages.py, a strict BIP144 decoder,
// stdlib base64/binascii, a few lines of base58 and of the ParseMoney/ToIntegral grammars).
#include <vx/vx.h>

#include <base58.h>
#include <blockencodings.h>
#include <consensus/amount.h>
#include <netaddress.h>
#include <primitives/block.h>
#include <primitives/transaction.h>
#include <protocol.h>
#include <serialize.h>
#include <streams.h>
#include <util/moneystr.h>
#include <util/strencodings.h>

using Bytes = std::vector<unsigned char>;
static uint64_t g_lines = 0;
static std::string H(const Bytes& b) { return b.empty() ? std::string("-") : vx::hex(b); }
static std::string HS(const std::string& s) { return s.empty() ? std::string("-") : vx::hex(s); }
static void out(const std::string& l) { fputs(l.c_str(), stdout); fputc('\n', stdout); g_lines++; }
template <typename T> static Bytes ser(const T& t) { DataStream s; s << t; return Bytes(UCharCast(s.data()), UCharCast(s.data()) + s.size()); }
static std::string U(uint64_t v) { return std::to_string(v); }
static std::string I(int64_t v) { return std::to_string(v); }

// ------------------------------------------------------------------------------------------------ transactions
static Bytes pat(size_t n, int seed) { Bytes b(n); for (size_t i = 0; i < n; i++) b[i] = (unsigned char)(seed * 31 + i * 7 + 1); return b; }

// descriptor: version|locktime|in;in|out;out   in = prevhash:n:scriptsig:sequence:witness  witness = '-' (empty stack) or items joined by ',' ('e' = empty item)
static std::string desc(const CMutableTransaction& tx)
{
    std::string s = U(tx.version) + "|" + U(tx.nLockTime) + "|";
    for (size_t i = 0; i < tx.vin.size(); i++) {
        const CTxIn& in = tx.vin[i];
        if (i) s += ";";
        s += in.prevout.hash.ToUint256().GetHex() + ":" + U(in.prevout.n) + ":" + H(Bytes(in.scriptSig.begin(), in.scriptSig.end())) + ":" + U(in.nSequence) + ":";
        if (in.scriptWitness.stack.empty()) s += "-";
        for (size_t k = 0; k < in.scriptWitness.stack.size(); k++) { if (k) s += ","; s += in.scriptWitness.stack[k].empty() ? std::string("e") : vx::hex(in.scriptWitness.stack[k]); }
    }
    s += "|";
    for (size_t i = 0; i < tx.vout.size(); i++) {
        if (i) s += ";";
        s += I(tx.vout[i].nValue) + ":" + H(Bytes(tx.vout[i].scriptPubKey.begin(), tx.vout[i].scriptPubKey.end()));
    }
    return s;
}

struct InCfg { int siglen; int wit; };
struct OutCfg { int64_t value; int spklen; };

static CTxIn make_in(int idx, const InCfg& c)
{
    CTxIn in;
    in.prevout = COutPoint(Txid::FromUint256(uint256{(uint8_t)(idx * 16 + c.wit + 1)}), idx == 0 ? 0 : 0xffffffffu);
    Bytes sc = pat(c.siglen, idx + 1);
    in.scriptSig = CScript(sc.begin(), sc.end());
    in.nSequence = idx == 0 ? 0xffffffffu : (c.wit & 1 ? 0 : 0xfffffffeu);
    switch (c.wit) {
    case 0: break;                                                       // empty stack
    case 1: in.scriptWitness.stack.push_back({}); break;                 // one empty item
    case 2: in.scriptWitness.stack.push_back({0x51}); break;             // one 1-byte item
    case 3: in.scriptWitness.stack.push_back(pat(72, 3)); in.scriptWitness.stack.push_back(pat(33, 4)); break;
    case 4: in.scriptWitness.stack.push_back(pat(253, 5)); in.scriptWitness.stack.push_back({}); in.scriptWitness.stack.push_back({0x00}); break;
    }
    return in;
}

// decode `bytes` as a transaction; prints outcome + descriptor of the decoded object
static std::string decode_tx(const Bytes& bytes, bool allow_witness)
{
    CMutableTransaction m;
    DataStream s{bytes};
    try {
        if (allow_witness) s >> TX_WITH_WITNESS(m); else s >> TX_NO_WITNESS(m);
    } catch (const std::ios_base::failure&) {
        return "throw";
    }
    return "ok\t" + U(s.size()) + "\t" + desc(m);
}

static void emit_tx(const CMutableTransaction& mtx)
{
    const CTransaction tx(mtx);
    Bytes w = ser(TX_WITH_WITNESS(tx)), nw = ser(TX_NO_WITNESS(tx));
    Bytes wm = ser(TX_WITH_WITNESS(mtx));
    // round trips through the real deserializer
    int rt = 0;
    if (!mtx.vin.empty() || mtx.vout.empty()) {
        try {
            DataStream s{w};
            CMutableTransaction b;
            s >> TX_WITH_WITNESS(b);
            if (s.empty() && CTransaction(b) == tx && ser(TX_WITH_WITNESS(b)) == w && CTransaction(b).GetWitnessHash() == tx.GetWitnessHash()) rt |= 1;
            DataStream s2{nw};
            CMutableTransaction b2;
            s2 >> TX_NO_WITNESS(b2);
            if (s2.empty() && ser(TX_NO_WITNESS(b2)) == nw && CTransaction(b2).GetHash() == tx.GetHash()) rt |= 2;
            DataStream s3{w};
            const CTransaction viactor(deserialize, TX_WITH_WITNESS, s3);
            if (viactor == tx && viactor.GetWitnessHash() == tx.GetWitnessHash()) rt |= 4;
        } catch (const std::exception&) {}
    } else rt = -1; // no inputs but outputs: the encoding is ambiguous by design (BIP144 marker); compared through DEC lines instead
    out("TX\t" + desc(mtx) + "\t" + vx::hex(w) + "\t" + vx::hex(nw) + "\t" + tx.GetHash().ToString() + "\t" + tx.GetWitnessHash().ToString() + "\t" + I(rt) + "\t" + (wm == w ? "1" : "0") + "\t" + (tx.HasWitness() ? "1" : "0") + "\t" + U(tx.ComputeTotalSize()));
    if (rt == -1) out("DEC\ttx\t" + vx::hex(w) + "\t" + decode_tx(w, true));
}

static std::vector<CMutableTransaction> g_sample_txs; // reused for blocks and messages

static void part_tx(bool big)
{
    std::vector<InCfg> ins;
    for (int sl : big ? std::vector<int>{0, 1, 252, 253} : std::vector<int>{0, 1, 253})
        for (int w = 0; w < (big ? 5 : 4); w++) ins.push_back({sl, w});
    std::vector<OutCfg> outs;
    for (int64_t v : big ? std::vector<int64_t>{0, 1, MAX_MONEY, -1} : std::vector<int64_t>{0, MAX_MONEY, -1})
        for (int sl : big ? std::vector<int>{0, 1, 252, 253} : std::vector<int>{0, 1, 253}) outs.push_back({v, sl});
    struct VL { uint32_t v, l; };
    const VL vls[] = {{1, 0}, {2, 499999999}, {0, 500000000}, {0xffffffffu, 0xffffffffu}};
    std::vector<std::vector<CTxIn>> vins{{}};
    for (size_t a = 0; a < ins.size(); a++) vins.push_back({make_in(0, ins[a])});
    for (size_t a = 0; a < ins.size(); a++) for (size_t b = 0; b < ins.size(); b++) vins.push_back({make_in(0, ins[a]), make_in(1, ins[b])});
    std::vector<std::vector<CTxOut>> vouts{{}};
    auto mo = [](int idx, const OutCfg& c) { Bytes sc = pat(c.spklen, 9 + idx); return CTxOut(c.value, CScript(sc.begin(), sc.end())); };
    for (size_t a = 0; a < outs.size(); a++) vouts.push_back({mo(0, outs[a])});
    for (size_t a = 0; a < outs.size(); a++) for (size_t b = 0; b < outs.size(); b++) vouts.push_back({mo(0, outs[a]), mo(1, outs[b])});
    size_t k = 0;
    for (auto& vi : vins)
        for (auto& vo : vouts) {
            // version/locktime: all four combinations for the small shapes, rotating otherwise
            const bool all = vi.size() <= 1 && vo.size() <= 1;
            for (int c = 0; c < 4; c++) {
                if (!all && (int)(k % 4) != c) continue;
                CMutableTransaction m;
                m.version = vls[c].v;
                m.nLockTime = vls[c].l;
                m.vin = vi;
                m.vout = vo;
                emit_tx(m);
            }
            k++;
        }
}

// decode robustness: every prefix and every single-byte substitution of a few valid encodings + crafted flag cases
static void part_tx_decode()
{
    std::vector<Bytes> bases;
    {
        CMutableTransaction a; // segwit, 1 in 1 out
        a.version = 2;
        a.vin.push_back(make_in(0, {1, 3}));
        a.vout.emplace_back(5000, CScript() << OP_TRUE);
        a.nLockTime = 7;
        bases.push_back(ser(TX_WITH_WITNESS(a)));
        CMutableTransaction b; // legacy 2 in 1 out
        b.version = 1;
        b.vin.push_back(make_in(0, {1, 0}));
        b.vin.push_back(make_in(1, {0, 0}));
        b.vout.emplace_back(1, CScript());
        bases.push_back(ser(TX_WITH_WITNESS(b)));
        CMutableTransaction c; // no inputs, no outputs
        c.version = 1;
        bases.push_back(ser(TX_WITH_WITNESS(c)));
        CMutableTransaction d; // segwit with two inputs, one of them without witness
        d.version = 2;
        d.vin.push_back(make_in(0, {0, 0}));
        d.vin.push_back(make_in(1, {0, 2}));
        d.vout.emplace_back(2, CScript() << OP_RETURN);
        bases.push_back(ser(TX_WITH_WITNESS(d)));
    }
    const unsigned char subs[] = {0x00, 0x01, 0x02, 0x03, 0x7f, 0x80, 0xfc, 0xfd, 0xfe, 0xff};
    for (auto& base : bases) {
        for (size_t n = 0; n <= base.size(); n++) {
            Bytes p(base.begin(), base.begin() + n);
            out("DEC\ttx\t" + H(p) + "\t" + decode_tx(p, true));
            out("DEC\ttxnw\t" + H(p) + "\t" + decode_tx(p, false));
        }
        for (size_t pos = 0; pos < base.size(); pos++)
            for (unsigned char sb : subs) {
                if (base[pos] == sb) continue;
                Bytes p = base;
                p[pos] = sb;
                out("DEC\ttx\t" + H(p) + "\t" + decode_tx(p, true));
            }
        Bytes t = base;
        t.push_back(0xaa);
        out("DEC\ttx\t" + H(t) + "\t" + decode_tx(t, true));
    }
    // crafted: marker/flag combinations around an input-less body
    const char* crafted[] = {
        "01000000" "0000" "00000000",                                  // vin=0, flags=0 -> no outputs
        "01000000" "0001" "00" "00" "00000000",                        // flag 1, no inputs, no outputs: superfluous
        "01000000" "0001" "00" "01" "0100000000000000" "00" "00000000", // flag 1, vin empty inside, 1 output
        "01000000" "0002" "00" "00" "00000000",                        // unknown flag 2
        "01000000" "0003" "00" "00" "00000000",
        "01000000" "0080" "00" "00" "00000000",
        "01000000" "00" "01" "0100000000000000" "00" "00000000",        // no-witness encoding of {no inputs, one output}: parsed as flag 1
    };
    for (const char* c : crafted) { Bytes p = ParseHex(c); out("DEC\ttx\t" + H(p) + "\t" + decode_tx(p, true)); out("DEC\ttxnw\t" + H(p) + "\t" + decode_tx(p, false)); }
}

// ------------------------------------------------------------------------------------------------ blocks, headers, messages
static std::string hdr_desc(const CBlockHeader& h)
{
    return I(h.nVersion) + ":" + h.hashPrevBlock.GetHex() + ":" + h.hashMerkleRoot.GetHex() + ":" + U(h.nTime) + ":" + U(h.nBits) + ":" + U(h.nNonce);
}

static void part_blocks_msgs(bool big)
{
    // six sample transactions: legacy / segwit, 1-2 inputs, 1-2 outputs
    {
        const int shapes[6][4] = {{1, 0, -1, 1}, {1, 3, -1, 1}, {0, 0, 2, 2}, {253, 1, 4, 1}, {1, 2, 3, 2}, {0, 0, 0, 1}}; // siglen0, wit0, wit1 (-1 = single input), nout
        for (int i = 0; i < 6; i++) {
            CMutableTransaction m;
            m.version = i % 2 ? 2 : 1;
            m.nLockTime = i * 1000;
            m.vin.push_back(make_in(0, {shapes[i][0], shapes[i][1]}));
            if (shapes[i][2] >= 0) m.vin.push_back(make_in(1, {1, shapes[i][2]}));
            for (int o = 0; o < shapes[i][3]; o++) { Bytes sc = pat(o ? 25 : 1, 20 + i); m.vout.emplace_back(1000 * (i + 1) + o, CScript(sc.begin(), sc.end())); }
            m.vin[0].prevout.hash = Txid::FromUint256(uint256{(uint8_t)(0xa0 + i)});
            g_sample_txs.push_back(m);
        }
    }
    std::vector<CTransactionRef> txs;
    for (auto& m : g_sample_txs) txs.push_back(MakeTransactionRef(m));
    struct HF { int32_t v; uint32_t t, b, n; };
    const HF hfs[] = {{1, 0, 0, 0}, {0x20000000, 1700000000, 0x1d00ffff, 0xffffffffu}, {-1, 0xffffffffu, 0xffffffffu, 1}, {(int32_t)0x80000000, 1, 0x207fffff, 0x80000000u}};
    std::vector<CBlockHeader> headers;
    int hi = 0;
    for (auto& f : hfs) {
        CBlockHeader h;
        h.nVersion = f.v; h.nTime = f.t; h.nBits = f.b; h.nNonce = f.n;
        h.hashPrevBlock = uint256{(uint8_t)(hi * 3)};
        h.hashMerkleRoot = uint256{(uint8_t)(0xf0 + hi)};
        headers.push_back(h);
        Bytes hb = ser(h);
        CBlockHeader back;
        DataStream s{hb};
        s >> back;
        out("HDR\t" + hdr_desc(h) + "\t" + vx::hex(hb) + "\t" + h.GetHash().ToString() + "\t" + (ser(back) == hb && s.empty() ? "1" : "0"));
        hi++;
    }
    // blocks: every sequence of <= 3 distinct sample txs (ordered subsets) for the second header
    const size_t nt = big ? txs.size() : 4;
    std::vector<std::vector<int>> seqs{{}};
    for (size_t a = 0; a < nt; a++) {
        seqs.push_back({(int)a});
        for (size_t b = 0; b < nt; b++) if (b != a) {
            seqs.push_back({(int)a, (int)b});
            for (size_t c = 0; c < nt; c++) if (c != a && c != b) seqs.push_back({(int)a, (int)b, (int)c});
        }
    }
    std::vector<CBlock> blocks;
    for (auto& sq : seqs) {
        CBlock b{headers[sq.size() % headers.size()]};
        for (int i : sq) b.vtx.push_back(txs[i]);
        Bytes bw = ser(TX_WITH_WITNESS(b)), bn = ser(TX_NO_WITNESS(b));
        CBlock back;
        bool ok = true;
        try { DataStream s{bw}; s >> TX_WITH_WITNESS(back); ok = s.empty() && ser(TX_WITH_WITNESS(back)) == bw && back.GetHash() == b.GetHash() && back.vtx.size() == b.vtx.size(); } catch (const std::exception&) { ok = false; }
        std::string ids;
        for (auto& t : b.vtx) ids += t->GetHash().ToString() + "," + t->GetWitnessHash().ToString() + ";";
        out("BLK\t" + vx::hex(bw) + "\t" + vx::hex(bn) + "\t" + b.GetHash().ToString() + "\t" + U(b.vtx.size()) + "\t" + (ids.empty() ? "-" : ids) + "\t" + (ok ? "1" : "0"));
        if (blocks.size() < 6 && sq.size() >= 1) blocks.push_back(b);
    }
    // inv / getdata payloads: vectors of 0..3 CInv
    {
        const uint32_t types[] = {1, 2, 5, 0x40000001u, 0x40000002u, 0};
        std::vector<CInv> pool;
        int k = 0;
        for (uint32_t t : types) pool.emplace_back(t, uint256{(uint8_t)(++k * 17)});
        for (size_t n = 0; n <= 3; n++)
            for (size_t start = 0; start < pool.size(); start++) {
                std::vector<CInv> v;
                std::string d;
                for (size_t i = 0; i < n; i++) { const CInv& x = pool[(start + i * 2) % pool.size()]; v.push_back(x); d += U(x.type) + ":" + x.hash.GetHex() + ";"; }
                Bytes b = ser(v);
                std::vector<CInv> back;
                DataStream s{b};
                s >> back;
                out("MSG\tinv\t" + (d.empty() ? "-" : d) + "\t" + vx::hex(b) + "\t" + (ser(back) == b && s.empty() ? "1" : "0"));
                if (n == 0) break;
            }
    }
    // headers payload: vector of header + empty tx count
    for (size_t n = 0; n <= headers.size(); n++) {
        std::vector<CBlock> v;
        std::string d;
        for (size_t i = 0; i < n; i++) { v.emplace_back(headers[i]); d += hdr_desc(headers[i]) + ";"; }
        Bytes b = ser(TX_WITH_WITNESS(v));
        out("MSG\theaders\t" + (d.empty() ? "-" : d) + "\t" + vx::hex(b) + "\t1");
    }
    // addr (v1) / addrv2 payloads
    {
        struct AD { uint8_t netid; Bytes addr; };
        std::vector<AD> ads;
        ads.push_back({1, {1, 2, 3, 4}});
        ads.push_back({1, {255, 255, 255, 254}});
        ads.push_back({2, ParseHex("20010470123400000000000000000001")});
        ads.push_back({2, ParseHex("fe800000000000000211223344556677")});
        ads.push_back({4, pat(32, 1)});
        ads.push_back({5, pat(32, 2)});
        { Bytes c = pat(16, 3); c[0] = 0xfc; ads.push_back({6, c}); }
        const uint64_t services[] = {0, 1, 0x409, 252, 253, 0xffffffffffffffffULL};
        const uint32_t times[] = {0, 100000000, 1700000000, 0xffffffffu};
        const uint16_t ports[] = {0, 8333, 65535};
        std::vector<CAddress> all;
        std::vector<std::string> alld;
        int k = 0;
        for (auto& a : ads)
            for (int r = 0; r < 3; r++) {
                Bytes enc{a.netid, (unsigned char)a.addr.size()};
                enc.insert(enc.end(), a.addr.begin(), a.addr.end());
                DataStream s{enc};
                CNetAddr na;
                s >> CNetAddr::V2(na);
                uint64_t sv = services[k % 6]; // k = 3j + r runs through all six values (the earlier (k + 2r) % 6 only ever hit 0 and 252)
                uint32_t tm = times[(k + r) % 4];
                uint16_t port = ports[(k + r) % 3];
                CAddress ca{CService{na, port}, (ServiceFlags)sv, NodeSeconds{std::chrono::seconds{tm}}};
                all.push_back(ca);
                alld.push_back(U(tm) + ":" + U(sv) + ":" + U(a.netid) + ":" + vx::hex(a.addr) + ":" + U(port) + ":" + na.ToStringAddr());
                k++;
            }
        for (size_t n = 0; n <= 3; n++)
            for (size_t start = 0; start < all.size(); start++) {
                std::vector<CAddress> v;
                std::string d;
                for (size_t i = 0; i < n; i++) { v.push_back(all[(start + i * 5) % all.size()]); d += alld[(start + i * 5) % all.size()] + ";"; }
                Bytes b2 = ser(CAddress::V2_NETWORK(v)), b1 = ser(CAddress::V1_NETWORK(v));
                std::vector<CAddress> back;
                DataStream s{b2};
                bool thrown = false;
                try { s >> CAddress::V2_NETWORK(back); } catch (const std::exception&) { thrown = true; } // own output must decode
                bool same = !thrown && back.size() == v.size() && s.empty();
                for (size_t i = 0; same && i < v.size(); i++) same = back[i] == v[i] && back[i].nServices == v[i].nServices && back[i].nTime == v[i].nTime;
                out("MSG\taddrv2\t" + (d.empty() ? "-" : d) + "\t" + vx::hex(b2) + "\t" + (same ? "1" : "0"));
                out("MSG\taddr\t" + (d.empty() ? "-" : d) + "\t" + vx::hex(b1) + "\t1");
                if (n == 0) break;
            }
    }
    // cmpctblock / getblocktxn / blocktxn
    for (size_t bi = 0; bi < blocks.size(); bi++) {
        const CBlock& b = blocks[bi];
        // cmpctblock needs a coinbase-like first tx only structurally (prefilled index 0)
        const uint64_t nonce = 0x0102030405060708ULL * (bi + 1);
        CBlockHeaderAndShortTxIDs c{b, nonce};
        Bytes cb = ser(c);
        CBlockHeaderAndShortTxIDs back;
        DataStream s{cb};
        s >> back;
        std::string d = hdr_desc(b) + "|" + U(nonce) + "|";
        for (size_t i = 1; i < b.vtx.size(); i++) d += U(c.GetShortID(b.vtx[i]->GetWitnessHash())) + ",";
        d += "|" + vx::hex(ser(TX_WITH_WITNESS(*b.vtx[0]))) + "|";
        for (size_t i = 1; i < b.vtx.size(); i++) d += b.vtx[i]->GetWitnessHash().ToString() + ",";
        out("MSG\tcmpctblock\t" + d + "\t" + vx::hex(cb) + "\t" + (ser(back) == cb && s.empty() ? "1" : "0"));
        BlockTransactions bt;
        bt.blockhash = b.GetHash();
        bt.txn = b.vtx;
        Bytes btb = ser(bt);
        std::string td = b.GetHash().GetHex() + "|";
        for (auto& t : b.vtx) td += vx::hex(ser(TX_WITH_WITNESS(*t))) + ",";
        BlockTransactions btback;
        DataStream s2{btb};
        s2 >> btback;
        out("MSG\tblocktxn\t" + td + "\t" + vx::hex(btb) + "\t" + (ser(btback) == btb && s2.empty() ? "1" : "0"));
    }
    for (unsigned sub = 0; sub < (big ? 1024u : 256u); sub++) {
        BlockTransactionsRequest r;
        r.blockhash = uint256{(uint8_t)sub};
        std::string d = r.blockhash.GetHex() + "|";
        const uint16_t vals[10] = {0, 1, 2, 3, 252, 253, 254, 300, 65534, 65535};
        for (int i = 0; i < 10; i++) if (sub >> i & 1) { r.indexes.push_back(vals[i]); d += U(vals[i]) + ","; }
        Bytes b = ser(r);
        BlockTransactionsRequest back;
        DataStream s{b};
        s >> back;
        out("MSG\tgetblocktxn\t" + d + "\t" + vx::hex(b) + "\t" + (back.indexes == r.indexes && s.empty() ? "1" : "0"));
    }
}

// ------------------------------------------------------------------------------------------------ CompactSize
static void part_compactsize()
{
    const uint64_t vals[] = {0, 1, 252, 253, 254, 255, 256, 0xffff, 0x10000, 0x10001, 0x1ffffff, 0x2000000, 0x2000001, 0xffffffffULL, 0x100000000ULL, 0x100000001ULL, 0x7fffffffffffffffULL, 0xffffffffffffffffULL};
    for (uint64_t v : vals) {
        DataStream w;
        WriteCompactSize(w, v);
        out("CSW\t" + U(v) + "\t" + vx::hex(Bytes(UCharCast(w.data()), UCharCast(w.data()) + w.size())) + "\t" + U(GetSizeOfCompactSize(v)));
        for (int width : {1, 3, 5, 9}) {
            Bytes enc;
            if (width == 1) { if (v >= 253) continue; enc.push_back((unsigned char)v); }
            else if (width == 3) { if (v > 0xffff) continue; enc = {253, (unsigned char)(v & 255), (unsigned char)(v >> 8)}; }
            else if (width == 5) { if (v > 0xffffffffULL) continue; enc = {254}; for (int i = 0; i < 4; i++) enc.push_back(v >> (8 * i) & 255); }
            else { enc = {255}; for (int i = 0; i < 8; i++) enc.push_back(v >> (8 * i) & 255); }
            for (int rc = 0; rc < 2; rc++) {
                DataStream s{enc};
                std::string r;
                try { uint64_t got = ReadCompactSize(s, rc == 1); r = "ok\t" + U(got) + "\t" + U(s.size()); } catch (const std::ios_base::failure&) { r = "throw"; }
                out("CSR\t" + vx::hex(enc) + "\t" + U(rc) + "\t" + r);
            }
            // truncated encodings
            for (size_t n = 0; n < enc.size(); n++) {
                Bytes t(enc.begin(), enc.begin() + n);
                DataStream s{t};
                std::string r;
                try { uint64_t got = ReadCompactSize(s, true); r = "ok\t" + U(got) + "\t" + U(s.size()); } catch (const std::ios_base::failure&) { r = "throw"; }
                out("CSR\t" + H(t) + "\t1\t" + r);
            }
        }
    }
}

// ------------------------------------------------------------------------------------------------ text codecs
static void emit_enc(const Bytes& b)
{
    std::string hx = HexStr(b), b58 = EncodeBase58(b), b58c = EncodeBase58Check(b), b64 = EncodeBase64(b), b32 = EncodeBase32(b), b32n = EncodeBase32(b, false);
    int rt = 0;
    if (ParseHex(hx) == b && (b.empty() || IsHex(hx)) && TryParseHex<uint8_t>(hx) == b) rt |= 1;
    Bytes d;
    if (DecodeBase58(b58, d, (int)b.size()) && d == b && (b.empty() || !DecodeBase58(b58, d, (int)b.size() - 1))) rt |= 2;
    if (DecodeBase58Check(b58c, d, (int)b.size()) && d == b) rt |= 4;
    auto d64 = DecodeBase64(b64);
    if (d64 && *d64 == b) rt |= 8;
    auto d32 = DecodeBase32(b32);
    if (d32 && *d32 == b) rt |= 16;
    out("ENC\t" + H(b) + "\t" + (hx.empty() ? "-" : hx) + "\t" + (b58.empty() ? "-" : b58) + "\t" + b58c + "\t" + (b64.empty() ? "-" : b64) + "\t" + (b32.empty() ? "-" : b32) + "\t" + (b32n.empty() ? "-" : b32n) + "\t" + I(rt));
}

static void for_strings(const std::string& alphabet, size_t maxlen, const std::function<void(const std::string&)>& f)
{
    std::string s;
    std::function<void()> rec = [&] {
        f(s);
        if (s.size() == maxlen) return;
        for (char c : alphabet) { s.push_back(c); rec(); s.pop_back(); }
    };
    rec();
}
static std::string opt(const std::optional<Bytes>& o) { return o ? "1\t" + H(*o) : std::string("0\t-"); }

static void dec_hex(const std::string& s)
{
    auto t = TryParseHex<uint8_t>(s);
    out("DEC\thex\t" + HS(s) + "\t" + opt(t) + "\t" + (IsHex(s) ? "1" : "0") + "\t" + H(ParseHex(s)));
}
static void dec_b64(const std::string& s) { out("DEC\tb64\t" + HS(s) + "\t" + opt(DecodeBase64(s))); }
static void dec_b32(const std::string& s) { out("DEC\tb32\t" + HS(s) + "\t" + opt(DecodeBase32(s))); }
static void dec_b58(const std::string& s, int maxlen)
{
    Bytes d;
    bool ok = DecodeBase58(s, d, maxlen);
    out("DEC\tb58\t" + HS(s) + "\t" + (ok ? "1\t" + H(d) : std::string("0\t-")) + "\t" + I(maxlen));
}
static void dec_b58c(const std::string& s, int maxlen)
{
    Bytes d;
    bool ok = DecodeBase58Check(s, d, maxlen);
    out("DEC\tb58c\t" + HS(s) + "\t" + (ok ? "1\t" + H(d) : std::string("0\t-")) + "\t" + I(maxlen));
}

static void part_codecs(bool big)
{
    // encoders: all byte strings of length <= 2, and lengths 3..40 of two patterns
    emit_enc({});
    for (int a = 0; a < 256; a++) emit_enc({(unsigned char)a});
    for (int a = 0; a < 256; a++) for (int b = 0; b < 256; b++) { if (!big && (a % 3) && (b % 5) && a != b) continue; emit_enc({(unsigned char)a, (unsigned char)b}); }
    for (size_t n = 3; n <= 40; n++) { emit_enc(Bytes(n, 0)); emit_enc(Bytes(n, 0xff)); emit_enc(pat(n, (int)n)); Bytes z = pat(n, 2); z[0] = 0; z[1] = 0; emit_enc(z); }
    // decoders
    const std::string NUL(1, '\0');
    for_strings(std::string("0123456789abcdefABCDEF") + " g=" + NUL, 3, dec_hex);
    for_strings("0aF g\t", 4, [&](const std::string& s) { if (s.size() == 4) dec_hex(s); });
    const std::string b64chars = "ABCDEFGHIJKLMNOPQRSTUVWXYZabcdefghijklmnopqrstuvwxyz0123456789+/";
    for_strings(std::string("ABQgw/+9= -_") + NUL, 4, dec_b64);
    for (char a : b64chars) for (char b : b64chars) dec_b64(std::string{a, b, '=', '='});
    for (char a : b64chars) { dec_b64(std::string{'Q', 'U', a, '='}); dec_b64(std::string{'Q', 'U', 'J', a}); }
    for_strings("Qg= ", 4, [&](const std::string& s) { if (s.size() == 4) { dec_b64("QUJD" + s); dec_b64(s + "QUJD"); } });
    const std::string b32chars = "abcdefghijklmnopqrstuvwxyz234567ABCDEFGHIJKLMNOPQRSTUVWXYZ";
    for_strings(std::string("abq72A= 18") + NUL, 3, dec_b32);
    for (size_t k = 0; k <= 8; k++)
        for_strings("abq7", k, [&](const std::string& s) { if (s.size() == k) { dec_b32(s + std::string(8 - k, '=')); if (k == 8) { dec_b32(s + "ae======"); dec_b32(s + "=") ; } } });
    for (size_t k : {2, 4, 5, 7, 8, 1, 3, 6})
        for (char c : b32chars) dec_b32(std::string(k - 1, 'a') + c + std::string(8 - k, '='));
    dec_b32("aaaaaaa=aaaaaaaa"); dec_b32("========"); dec_b32("a=======");
    const std::string b58chars = "123456789ABCDEFGHJKLMNPQRSTUVWXYZabcdefghijkmnopqrstuvwxyz";
    if (big) for_strings(b58chars + "0OIl " + NUL, 3, [&](const std::string& s) { dec_b58(s, 100); });
    else {
        for_strings(std::string("12zA 0l") + NUL, 4, [&](const std::string& s) { dec_b58(s, 100); });
        for (char a : b58chars) for (char b : b58chars) dec_b58(std::string{a, b}, 100);
    }
    for (const char* s : {" 11", "11 ", " 1 1", "\t2g\n", "2g", "11111111111111111111", "zzzzzzzzzzz"}) for (int ml : {0, 1, 2, 8, 20, 100}) dec_b58(s, ml);
    // base58check: valid strings and every single-character substitution (next alphabet char) of them
    for (int a = -1; a < 256; a += (big ? 1 : 5)) {
        Bytes p;
        if (a >= 0) { p.push_back((unsigned char)a); p.push_back((unsigned char)(a * 7)); }
        if (a % 2 == 0) p.insert(p.end(), 20, (unsigned char)a);
        std::string e = EncodeBase58Check(p);
        dec_b58c(e, 100);
        dec_b58c(e, (int)p.size());
        dec_b58c(e, (int)p.size() - 1);
        for (size_t i = 0; i < e.size(); i++) {
            std::string m = e;
            m[i] = b58chars[(b58chars.find(m[i]) + 1) % 58];
            dec_b58c(m, 100);
        }
        dec_b58c(e.substr(0, e.size() - 1), 100);
        dec_b58c(e + "1", 100);
    }
    dec_b58c("", 100); dec_b58c("1", 100); dec_b58c("1111", 100); dec_b58c("3QJmnh", 100);
}

static void pm(const std::string& s)
{
    auto v = ParseMoney(s);
    out("PM\t" + HS(s) + "\t" + (v ? "1\t" + I(*v) : std::string("0\t0")));
}
template <typename T> static std::string ti(const std::string& s) { auto v = ToIntegral<T>(s); return v ? std::to_string(*v) : std::string("x"); }
static void tint(const std::string& s)
{
    out("TI\t" + HS(s) + "\t" + ti<int32_t>(s) + "\t" + ti<uint32_t>(s) + "\t" + ti<int64_t>(s) + "\t" + ti<uint64_t>(s) + "\t" + ti<uint8_t>(s) + "\t" + ti<uint16_t>(s) + "\t" + ti<int8_t>(s));
}

static void part_money_ints(bool big)
{
    const std::string NUL(1, '\0');
    for_strings("019.+- ", big ? 7 : 6, pm);
    for_strings("0123456789.", 3, pm);
    for (const char* s : {"21000000", "21000000.00000000", "21000000.00000001", "20999999.99999999", "20999999.999999999", "0.12345678", "0.123456789", "1234567890", "12345678901", "0000000001", "00000000001",
                          "\t1\n", "1\t", " 1 ", "1 .0", "1. 0", "1e8", "0x1", ".", "..", "1..", ".1.", "1.0.", "  .5", "5.", "92233720368.54775807", "92233720368.54775808", "184467440737.09551616"})
        pm(s);
    pm(std::string("1") + NUL); pm(NUL + "1"); pm(std::string("1") + NUL + "1");
    // FormatMoney + round trip
    std::vector<int64_t> am;
    for (int64_t n = 0; n <= (big ? 300000 : 30000); n++) am.push_back(n);
    for (int64_t p = 1; p <= 1000000000000000LL; p *= 10) for (int64_t d : {-1, 0, 1}) for (int64_t m : {1, 5, 21}) am.push_back(p * m + d);
    for (int64_t v : {COIN - 1, COIN, COIN + 1, MAX_MONEY - 1, MAX_MONEY, MAX_MONEY + 1, (int64_t)-1, -COIN, -COIN - 1, -MAX_MONEY, (int64_t)INT64_MAX, (int64_t)(INT64_MIN + 1), (int64_t)123456789, (int64_t)100000001, (int64_t)10000000}) am.push_back(v);
    for (int64_t n : am) {
        std::string s = FormatMoney(n);
        auto back = ParseMoney(s);
        out("FM\t" + I(n) + "\t" + s + "\t" + (back ? "1\t" + I(*back) : std::string("0\t0")));
    }
    for_strings("019-+ a", 5, tint);
    for (const char* s : {"2147483647", "2147483648", "-2147483648", "-2147483649", "4294967295", "4294967296", "9223372036854775807", "9223372036854775808", "-9223372036854775808", "-9223372036854775809",
                          "18446744073709551615", "18446744073709551616", "255", "256", "65535", "65536", "127", "128", "-128", "-129", "007", "-0", "+0", "00", "-00", "0x10", "1e3", "1.0", " 1", "1 ", "\t1", "1\n", "--1", "-+1", "+-1", "- 1"})
        tint(s);
    tint(std::string("1") + NUL); tint(NUL);
}

int main(int argc, char** argv)
{
    vx::init(argc, argv, "C48", "exploration");
    const bool big = vx::thorough();
    setvbuf(stdout, nullptr, _IOFBF, 1 << 20);
    printf("BEGIN\t%s\n", vx::ctx().tier.c_str());
    part_tx(big);
    part_tx_decode();
    part_blocks_msgs(big);
    part_compactsize();
    part_codecs(big);
    part_money_ints(big);
    printf("END\t%lu\n", (unsigned long)g_lines);
    fflush(stdout);
    return 0;
}
