LINK := full
