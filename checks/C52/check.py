#!/usr/bin/env python3
"""C52 consumer: see main.cpp for the producer protocol."""
import sys, os, base64, binascii, hmac, hashlib, ipaddress
sys.path.insert(0, '/verif')
sys.path.insert(0, os.path.dirname(os.path.abspath(__file__)))
from vx.vxpy import Run
import ref_http

run = Run('C52', 'exploration')
if run.replay:
    import subprocess
    sys.exit(subprocess.call([run.harness, '--tier', run.tier, '--replay', run.replay]))

# ---- reference for ClientAllowed
ALWAYS = [ipaddress.ip_network('127.0.0.0/8'), ipaddress.ip_network('::1/128')]
def norm_addr(s):
    a = ipaddress.ip_address(s)
    if a.version == 6 and a.ipv4_mapped is not None:
        a = a.ipv4_mapped
    return a
def addr_valid(a):
    if a.version == 4:
        return a not in (ipaddress.ip_address('0.0.0.0'), ipaddress.ip_address('255.255.255.255'))
    return a != ipaddress.ip_address('::') and a not in ipaddress.ip_network('2001:db8::/32')   # unspecified / documentation prefix
def ref_allowed(specs, addr):
    a = norm_addr(addr)
    if not addr_valid(a):
        return False
    nets = list(ALWAYS)
    for s in specs:
        nets.append(ipaddress.ip_network(s, strict=False))
    return any(n.version == a.version and a in n for n in nets)

# ---- reference for the credential check
PLAIN = {'alice': 'secret'}
SALTED = {'bob': ('f3a1c0ffee5a17', 'hunter2'), 'carol': ('00112233445566778899aabbccddeeff', 'a:b')}
def creds_ok(user, pw):
    if user in PLAIN and hmac.compare_digest(PLAIN[user], pw):
        return True
    if user in SALTED:
        salt, good = SALTED[user]
        return hmac.new(salt.encode(), pw.encode(), hashlib.sha256).digest() == hmac.new(salt.encode(), good.encode(), hashlib.sha256).digest()
    return False
def ref_authorized(header_lines):
    val = None
    for h in header_lines:
        k, _, v = h.partition(':')
        if k.lower() == 'authorization':
            val = v.strip(' \t\n\r\f\v')
            break                       # the first field with that name counts
    if val is None or not val.startswith('Basic '):
        return False
    tok = val[6:].strip(' \t\n\r\f\v')
    try:
        raw = base64.b64decode(tok, validate=True)
    except (binascii.Error, ValueError):
        return False
    try:
        up = raw.decode('latin-1')
    except Exception:
        return False
    if ':' not in up:
        return False
    user, _, pw = up.partition(':')
    return creds_ok(user, pw)

p = run.spawn()
counts = {}
samples = []
n_streams = n_allow = n_auth = 0
term_seen = {}
auth_seen = {True: 0, False: 0}
allow_seen = {True: 0, False: 0}
done = False
for line in p.stdout:
    f = line.rstrip('\n').split('\t')
    tag = f[0]
    if tag == 'S':
        idx, name, hexs, obs = f[1], f[2], f[3], f[4]
        stream = bytes.fromhex(hexs)
        want = ref_http.observe(stream)
        n_streams += 1
        if ' | ' in obs or '=> 4' in obs:      # non-trivial: something was dispatched or rejected (not merely waiting for more bytes)
            run.distinct.add(hexs)
        term = obs.rsplit('=> ', 1)[1]
        term_seen[term] = term_seen.get(term, 0) + 1
        if want != obs:
            run.violation('reference-' + name, f'single delivery gives [{obs}] but the reference parser expects [{want}]', f'stream {hexs}\ncuts 1')
        if n_streams % 37 == 1:
            run.sample(f'{name}: {len(stream)} bytes -> {obs[-60:]}')
    elif tag == 'V':
        run.violation(f[1], f[2], f[3].replace('\\n', '\n'))
    elif tag == 'A':
        specs = [] if f[1] == '-' else f[1].split(',')
        got = f[3] == '1'
        want = ref_allowed(specs, f[2])
        n_allow += 1
        allow_seen[want] += 1
        if got != want:
            run.violation(f'clientallowed-{f[1]}-{f[2]}', f'ClientAllowed({f[2]}) with -rpcallowip={specs} is {got}, reference says {want}', f'allow {f[1]} {f[2]}')
    elif tag == 'R':
        name, hexh, method, ran, status, body_ran = f[1], f[2], f[3], int(f[4]), int(f[5]), f[6] == '1'
        headers = [] if hexh == '-' else bytes.fromhex(hexh).decode('latin-1').split('\n')
        ok = ref_authorized(headers)
        should_run = ok and method == 'POST'
        n_auth += 1
        auth_seen[should_run] += 1
        if (ran > 0) != should_run or ran > 1 or body_ran != should_run:
            run.violation('rpcauth-' + name, f'RPC handler ran {ran} time(s) (reply carries result: {body_ran}, status {status}) for {method} with headers {headers}; credentials valid per reference: {ok}', f'auth {name}')
        if not should_run and status == 200:
            run.violation('rpcauth-status-' + name, f'status 200 for a request that must not be served ({method}, headers {headers})', f'auth {name}')
        if method == 'POST' and not ok and status != 401:
            run.violation('rpcauth-401-' + name, f'status {status} instead of 401 for invalid credentials, headers {headers}', f'auth {name}')
    elif tag == 'C':
        if f[1] == 'sample': run.sample(f[2])
        elif f[1] == 'done': done = True
        else: counts[f[1]] = int(f[2])
    elif tag == 'E':
        print('HARNESS-ERROR', f[1:]); sys.exit(2)
rc = p.wait()
if rc != 0 or not done:
    print(f'HARNESS-ERROR property=C52 producer exited rc={rc} done={done}')
    sys.exit(2)
if n_streams != counts.get('streams', -1):
    print(f'HARNESS-ERROR property=C52 producer/consumer stream count mismatch {n_streams} vs {counts.get("streams")}')
    sys.exit(2)
run.evaluations = counts.get('deliveries', 0) + n_streams + n_allow + n_auth
run.extra.update(streams=n_streams, deliveries=counts.get('deliveries', 0), clientallowed_cases=n_allow, rpcauth_cases=n_auth,
                 terminal_outcomes=term_seen, streams_all_cut_positions=counts.get('streams_all_positions', 0),
                 streams_marked_cut_positions=counts.get('streams_marked_positions', 0))
if not run.violations:
    need = ['400', '413', 'closed', 'open-idle', 'open-partial']
    miss = [t for t in need if not term_seen.get(t)]
    if miss or not all(auth_seen.values()) or not all(allow_seen.values()) or counts.get('deliveries', 0) < 1000:
        print(f'HARNESS-ERROR property=C52 vacuous: missing terminal outcomes {miss}, auth {auth_seen}, allow {allow_seen}, deliveries {counts.get("deliveries")}')
        sys.exit(2)
run.assumptions += ['the request dispatcher replies (200, empty body) before the next I/O loop iteration; worker-thread timing is not explored',
                    'I/O loop modelled as: drop the client once m_disconnect is set, else append the read to m_recv_buffer and call MaybeDispatchRequestsFromClient; two schedules: spin until quiescent between reads / reads back-to-back',
                    'streams longer than 8 KiB are cut only at marked structural offsets +-1 and at fixed strides (incl. byte-at-a-time)']
sys.exit(run.finish(rule='streams from a grammar (request lines, header lines, Content-Length and chunked bodies, pipelining/persistence, 8192-byte limits +-1; CRLF and bare-LF framing) x every fragmentation '
                         'with <= k cut points (quick: k=3 for <=64 bytes else 2; thorough: k=4 for <=56 bytes, 3 for <=150, else 2; marked positions only for long streams) + strides 1,2,3,7,1000,4096,8191..8193, x 2 I/O-loop schedules; '
                         'each delivery compared with the single delivery, each single delivery with an independent whole-stream reference parser; ClientAllowed: all <=2-subsets of 13 -rpcallowip specs x 40 addresses vs ipaddress; '
                         'RPC credentials: 33 Authorization variants vs base64/hmac reference; distinct = distinct streams that lead to at least one dispatched request or an error reply',
                    exhaustive=bool(counts.get('exhaustive', 0))))
