// C52 — HTTP requests are parsed the same however the bytes arrive.
// Producer for check.py. Drives the real HTTPServer::MaybeDispatchRequestsFromClient / HTTPRemoteClient::ReadRequest
// on a client object fed through m_recv_buffer (recording socket, no network), for every stream of a grammar and
// every fragmentation with <= k cut points (+ byte-at-a-time), in two I/O-loop schedules. Compares every delivery
// with the single-delivery run here; check.py compares the single-delivery run with an independent whole-stream
// reference parser (ref_http.py), ClientAllowed with Python's ipaddress, and the RPC credential check with hmac.
//
// stdout protocol (tab separated):  S idx name hexstream obs | V key what replay | A specs addr allowed |
//                                   R name hexheader method ran status | C key value | E message
#include <vx/vx.h>

#include <common/args.h>
#include <httpserver.h>
#include <netbase.h>
#include <test/util/net.h>
#include <util/strencodings.h>

#include <thread>

using http_bitcoin::HTTPRemoteClient;
using http_bitcoin::HTTPRequest;
using http_bitcoin::HTTPServer;

void auth_init();                                              // auth.cpp
void run_auth_cases(std::vector<std::string>& out_lines);
void set_multi_arg(const std::string& name_nodash, const std::vector<std::string>& values);

namespace {

struct RecSock : public ZeroSock {
    mutable std::string sent;
    ssize_t Send(const void* d, size_t len, int) const override { sent.append((const char*)d, len); return (ssize_t)len; }
};

std::string hx(const std::string& s) { return s.empty() ? "-" : vx::hex(s); }

// ---------------------------------------------------------------- one delivery of a stream
struct Driver {
    std::vector<std::string> dispatched;
    HTTPServer server;
    Driver() : server([this](std::unique_ptr<HTTPRequest>&& moved_req) {
                   std::unique_ptr<HTTPRequest> req{std::move(moved_req)}; // the dispatcher owns the request (the client's m_req becomes empty)
                   std::string r = "M=" + std::to_string((int)req->m_method) + ";T=" + hx(req->m_target) + ";V=" + std::to_string(req->m_version.major) + "." + std::to_string(req->m_version.minor) + ";H=";
                   bool first = true;
                   for (auto& [k, v] : req->m_headers.m_headers) { r += (first ? "" : ",") + hx(k) + ":" + hx(v); first = false; }
                   r += ";B=" + hx(req->m_body);
                   dispatched.push_back(r);
                   req->WriteReply(HTTP_OK, std::string_view{}); // reply at once so that pipelined requests proceed
               }) {}

    // cuts: strictly increasing positions in (0, len). idle: the I/O loop spins until quiescent between two reads.
    std::string run(const std::string& stream, const size_t* cuts, size_t ncuts, bool idle, std::string* trace = nullptr)
    {
        dispatched.clear();
        auto sock = std::make_unique<RecSock>();
        RecSock* rs = sock.get();
        auto client = std::make_shared<HTTPRemoteClient>(1, CService{}, std::move(sock));
        auto pump = [&]() { // the parsing part of one I/O loop iteration; false when nothing moved
            if (client->m_disconnect) return false; // DisconnectClients() removed the client
            const size_t before = client->m_recv_buffer.size(), nd = dispatched.size();
            server.MaybeDispatchRequestsFromClient(client);
            return client->m_recv_buffer.size() != before || dispatched.size() != nd;
        };
        size_t pos = 0;
        for (size_t i = 0; i <= ncuts; i++) {
            const size_t end = i < ncuts ? cuts[i] : stream.size();
            if (client->m_disconnect) break;
            client->m_recv_buffer.append(stream, pos, end - pos);
            pos = end;
            bool moved = pump();
            if (idle) while (moved) moved = pump();
            if (trace) *trace += "after byte " + std::to_string(end) + ": dispatched=" + std::to_string(dispatched.size()) + " buffered=" + std::to_string(client->m_recv_buffer.size()) + " disconnect=" + std::to_string(client->m_disconnect.load()) + "\n";
        }
        while (pump()) {}
        // replies: every reply has an empty body, so the sent bytes are a sequence of header blocks
        std::string statuses;
        int last = 0;
        for (size_t p = 0; p < rs->sent.size();) {
            size_t e = rs->sent.find("\r\n\r\n", p);
            if (e == std::string::npos) { statuses += "?"; break; }
            int code = (rs->sent.compare(p, 7, "HTTP/1.") == 0 && p + 12 <= rs->sent.size()) ? atoi(rs->sent.c_str() + p + 9) : -1;
            statuses += (statuses.empty() ? "" : ",") + std::to_string(code);
            last = code;
            p = e + 4;
        }
        std::string term;
        if (last != 0 && last != 200) term = std::to_string(last);
        else if (client->m_disconnect) term = "closed";
        else term = (!client->m_recv_buffer.empty() || (client->m_req && client->m_req->GetState() != HTTPRequest::State::Init)) ? "open-partial" : "open-idle";
        std::string obs;
        for (auto& d : dispatched) obs += d + " | ";
        obs += "replies=" + (statuses.empty() ? std::string("-") : statuses) + " => " + term;
        return obs;
    }
};

// ---------------------------------------------------------------- stream grammar
struct Stream { std::string name, bytes; std::vector<size_t> marks; /* interesting offsets for long streams */ };
std::vector<Stream> g_streams;

void add(const std::string& name, const std::string& bytes, std::vector<size_t> marks = {}) { g_streams.push_back({name, bytes, std::move(marks)}); }
std::string lf_only(std::string s) // the same framing with bare LF line ends
{
    std::string o;
    for (size_t i = 0; i < s.size(); i++) { if (s[i] == '\r' && i + 1 < s.size() && s[i + 1] == '\n') continue; o += s[i]; }
    return o;
}
void add2(const std::string& name, const std::string& bytes) { add(name, bytes); std::string l = lf_only(bytes); if (l != bytes) add(name + "[lf]", l); }
std::string req(const std::string& line, const std::vector<std::string>& headers = {}, const std::string& body = "")
{
    std::string s = line + "\r\n";
    for (auto& h : headers) s += h + "\r\n";
    return s + "\r\n" + body;
}
const std::string N{"\r\n"};
const std::string TE{"Transfer-Encoding: chunked"};

void build_streams()
{
    using namespace std::string_literals;
    // A. request lines
    int n = 0;
    for (const std::string& l : {"GET / HTTP/1.1"s, "POST /w HTTP/1.1"s, "HEAD /r?x=1 HTTP/1.0"s, "PUT /a HTTP/1.9"s, "BREW /pot HTTP/1.1"s, "get / HTTP/1.1"s, "GET / HTTP/2.0"s,
                                 "GET / HTTP/1.10"s, "GET / HTTX/1.1"s, "GET  / HTTP/1.1"s, "GET /abcdefghi"s, "G / HTTP/1.1"s, "GET / HTTP/1.1 "s, "GET /\0 HTTP/1.1"s, "GET / HTTP/1.a"s,
                                 "GET / HTTP/1."s, "GET / HTTP/11"s, "GET / HTTP/0.9"s, "GET / http/1.1"s, "GET /\t HTTP/1.1"s, "GET / HTTP/1.1\r"s, " GET / HTTP/1.1"s, "GET / HTTP/+.1"s,
                                 "GET / HTTP/1.1.1"s, "GET http://h/p HTTP/1.1"s, "GET / XHTTP/1.1"s, "GET / HTTP/1.-"s, "GET /\xff\x80 HTTP/1.1"s, "GET /a%20b?c=d&e HTTP/1.1"s})
        add2("line" + std::to_string(n++), req(l));
    add("line-leading-empty", N + req("GET / HTTP/1.1"));
    add("line-only-noeol", "GET / HTTP/1.1");
    add("line-cr-noeol", "GET / HTTP/1.1\r");
    add("empty-stream-1byte", "G");
    // B. header lines
    n = 0;
    for (const std::string& h : {"Host: x"s, "X-Empty:"s, "X-Tab:\tv\t"s, "NoColon"s, "Bad Name: v"s, ": v"s, "X: a\rb"s, "X: a\0b"s, "X:a:b"s, "X:  spaced  value  "s, "X\t: v"s, "X:   "s, "X: v\r"s,
                                 " folded: v"s, " folded"s, "X: \xff\xfe"s, "X\0: v"s, "X: v\v"s, "X\v: v"s})
        add2("hdr" + std::to_string(n++), req("GET / HTTP/1.1", {h}));
    add2("hdr-dup", req("GET / HTTP/1.1", {"A: 1", "a: 2", "A: 1"}));
    add("hdr-mixed-eol", "GET / HTTP/1.1\nA: 1\r\nB: 2\n\r\n");
    add2("hdr-unterminated", "GET / HTTP/1.1\r\nA: 1\r\n");
    add2("hdr-partial-line", "GET / HTTP/1.1\r\nA: 1\r\nB");
    // C. Content-Length bodies
    auto post = [](const std::vector<std::string>& h, const std::string& b) { return req("POST / HTTP/1.1", h, b); };
    add2("cl-0", post({"Content-Length: 0"}, ""));
    add2("cl-5", post({"Content-Length: 5"}, "hello"));
    add2("cl-5-short", post({"Content-Length: 5"}, "hel"));
    add2("cl-5-extra", post({"Content-Length: 5"}, "helloEXTRA\r\n"));
    add2("cl-5-extra-noeol", post({"Content-Length: 5"}, "helloEX"));
    add2("cl-dup-equal", post({"Content-Length: 5", "Content-Length: 5"}, "hello"));
    add2("cl-dup-differ", post({"Content-Length: 5", "Content-Length: 6"}, "hello!"));
    add2("cl-556", post({"Content-Length: 5", "Content-Length: 5", "Content-Length: 6"}, "hello!"));
    add2("cl-565", post({"Content-Length: 5", "Content-Length: 6", "Content-Length: 5"}, "hello!"));
    add2("cl-dup-05-5", post({"Content-Length: 05", "Content-Length: 5"}, "hello"));
    add2("cl-dup-case", post({"Content-Length: 5", "content-length: 5", "CONTENT-LENGTH: 5"}, "hello"));
    n = 0;
    for (const std::string& v : {"abc"s, "-1"s, "+5"s, " 5 "s, "5 5"s, ""s, "0x5"s, "005"s, "5, 5"s, "33554433"s, "18446744073709551616"s, "18446744073709551615"s, "5.0"s, "\t5"s})
        add2("cl-val" + std::to_string(n++), post({"Content-Length: " + v}, "hello"));
    add2("cl-32MiB-wait", post({"Content-Length: 33554432"}, "hello"));
    add2("cl-binary", post({"Content-Length: 8"}, "a\r\n\0\xff\n\rz"s));
    add2("cl-get-body", req("GET / HTTP/1.0", {"Content-Length: 2"}, "ab"));
    // D. chunked bodies
    auto chunked = [&](const std::string& b, std::vector<std::string> h = {}) { h.insert(h.begin(), TE); return req("POST / HTTP/1.1", h, b); };
    n = 0;
    for (const std::string& b : {"5\r\nhello\r\n0\r\n\r\n"s, "3\r\nabc\r\n2\r\nde\r\n0\r\n\r\n"s, "5;x=y\r\nhello\r\n0\r\n\r\n"s, "5 ; x\r\nhello\r\n0;q\r\n\r\n"s, "A\r\n0123456789\r\n0\r\n\r\n"s,
                                 "a\r\n0123456789\r\n0\r\n\r\n"s, "0\r\n\r\n"s, "0\r\nX-T: v\r\n\r\n"s, "1\r\nz\r\n0\r\nX-T: v\r\nY: w\r\n\r\n"s, "0\r\nbad\r\n\r\n"s, "0\r\nbad name: v\r\n\r\n"s, "xyz\r\n"s,
                                 "\r\n"s, " 5 \r\nhello\r\n0\r\n\r\n"s, "0x5\r\nhello\r\n0\r\n\r\n"s, "-5\r\nhello\r\n"s, "5\r\nhelloXX\r\n0\r\n\r\n"s, "5\r\nhello\n0\r\n\r\n"s, "4\r\na\r\nb\r\n0\r\n\r\n"s,
                                 "5\r\nhel"s, "5"s, "5\r\nhello"s, "5\r\nhello\r"s, "5\r\nhello\r\n0\r\n"s, "5\r\nhello\r\n0\r\nX-T: v\r\n"s, "2000001\r\n"s, "2000000\r\nab"s, "10000000000000000\r\n"s,
                                 "ffffffffffffffff\r\n"s, "00\r\n\r\n"s, "5\r\nhello\r\n00000\r\n\r\n"s, "5\r\nhello\r\r\n0\r\n\r\n"s, "5\r\nhello\r\n\r\n0\r\n\r\n"s, "1\r\na\r\n1\r\nb\r\n1\r\nc\r\n0\r\n\r\n"s,
                                 ";x\r\n"s, "5;\r\nhello\r\n0\r\n\r\n"s, "g\r\n"s, "5\r\nhello\r\n0\r\n: v\r\n\r\n"s, "1\r\n\n\r\n0\r\n\r\n"s, "2\r\n\r\n\r\n0\r\n\r\n"s})
        add2("chunk" + std::to_string(n++), chunked(b));
    add2("te-upper", req("POST / HTTP/1.1", {"Transfer-Encoding: Chunked"}, "1\r\na\r\n0\r\n\r\n"));
    add2("te-name-lower", req("POST / HTTP/1.1", {"transfer-encoding: chunked "}, "1\r\na\r\n0\r\n\r\n"));
    add2("te-gzip-chunked", req("POST / HTTP/1.1", {"Transfer-Encoding: gzip, chunked"}, "1\r\na\r\n0\r\n\r\n"));
    add2("te-and-cl", req("POST / HTTP/1.1", {TE, "Content-Length: 3"}, "1\r\na\r\n0\r\n\r\n"));
    add2("cl-and-te", req("POST / HTTP/1.1", {"Content-Length: 3", TE}, "1\r\na\r\n0\r\n\r\n"));
    add2("te-identity-first", req("POST / HTTP/1.1", {"Transfer-Encoding: identity", TE}, "1\r\na\r\n0\r\n\r\n"));
    add2("te-chunked-first", req("POST / HTTP/1.1", {TE, "Transfer-Encoding: identity"}, "1\r\na\r\n0\r\n\r\n"));
    // E. pipelining and connection persistence
    const std::string G11 = req("GET /1 HTTP/1.1"), G10 = req("GET /0 HTTP/1.0");
    add2("pipe-2", G11 + req("GET /2 HTTP/1.1"));
    add2("pipe-3-body", G11 + post({"Content-Length: 2"}, "ab") + req("GET /3 HTTP/1.1"));
    add2("pipe-chunked-get", chunked("1\r\na\r\n0\r\n\r\n") + G11);
    add2("pipe-chunked-trailer-get", chunked("1\r\na\r\n0\r\nT: 1\r\n\r\n") + G11);
    add2("pipe-10-then-get", G10 + G11);
    add2("pipe-close-then-get", req("GET /c HTTP/1.1", {"Connection: close"}) + G11);
    add2("pipe-Close-then-get", req("GET /c HTTP/1.1", {"Connection: Close"}) + G11);
    add2("pipe-10-keepalive", req("GET /k HTTP/1.0", {"Connection: keep-alive"}) + G11);
    add2("pipe-10-KeepAlive", req("GET /k HTTP/1.0", {"Connection: Keep-Alive"}) + G11 + G10 + G11);
    add2("pipe-10-keepalive-list", req("GET /k HTTP/1.0", {"Connection: keep-alive, x"}) + G11);
    add2("pipe-11-close-list", req("GET /k HTTP/1.1", {"Connection: keep-alive, close"}) + G11);
    add2("pipe-conn-dup", req("GET /k HTTP/1.1", {"Connection: keep-alive", "Connection: close"}) + G11);
    add2("pipe-conn-dup2", req("GET /k HTTP/1.0", {"Connection: close", "Connection: keep-alive"}) + G11);
    add2("pipe-get-garbage", G11 + "garbage\r\n\r\n");
    add2("pipe-get-garbage-long", G11 + "garbage garbage garbage\r\n\r\n");
    add2("pipe-bad-then-get", req("GET / HTTP/3.0") + G11);
    add2("pipe-unknown-then-get", req("BREW / HTTP/1.1") + G11);
    add2("pipe-body-nosep", post({"Content-Length: 5"}, "hello") + G11);
    add2("pipe-badhdr-second", G11 + req("GET /2 HTTP/1.1", {"NoColon"}) + G11);
    add2("pipe-413-second", G11 + post({"Content-Length: 99999999"}, "") + G11);
    add2("pipe-partial-second", G11 + "GET /2 HTT");
    add2("pipe-eol-between", G11 + N + G11);
    // F. size limits (long streams; cut points restricted to the marked offsets +-1)
    auto pad = [](size_t nbytes) { return std::string(nbytes, 'a'); };
    for (int d : {-1, 0, 1}) {
        // request line of 8192+d characters (the CR counts, the LF does not)
        std::string line = "GET /" + pad(8192 + d - 15) + " HTTP/1.1\r";
        add("limit-reqline" + std::to_string(d), line + "\n\r\n", {5, line.size() - 1, line.size(), line.size() + 1, 8192, 8193});
        add("limit-reqline-lf" + std::to_string(d), "GET /" + pad(8192 + d - 14) + " HTTP/1.1\n\n", {8192, 8193, 8192 + (size_t)d});
        add("limit-reqline-noeol" + std::to_string(d), "GET /" + pad(8192 + d - 5), {8191, 8192, 8193});
        // header section of 8192+d bytes in total (one long line + the empty line)
        const std::string rl = "GET / HTTP/1.1\r\n";
        std::string hl = "X: " + pad(8192 + d - 3 - 2 - 2) + N;
        add("limit-hdrblock-oneline" + std::to_string(d), rl + hl + N, {rl.size(), rl.size() + 3, rl.size() + hl.size(), rl.size() + 8192, rl.size() + 8191});
        add("limit-hdrblock-oneline-body" + std::to_string(d), "POST / HTTP/1.1\r\n" + std::string("Content-Length: 3\r\n") + "X: " + pad(8192 + d - 19 - 3 - 2 - 2) + N + N + "abc" + G11, {17, 36, 17 + 8192, 17 + 8191});
        // ... many short lines
        std::string many;
        while (many.size() + 12 <= (size_t)(8192 + d - 2 - 12)) many += "Abcdef: 123\n";
        many += "Z: " + pad(8192 + d - 2 - many.size() - 3 - 2) + N;
        add("limit-hdrblock-manylines" + std::to_string(d), rl + many + N, {rl.size() + 12, rl.size() + 24, rl.size() + many.size(), rl.size() + 8192, rl.size() + 8191, rl.size() + 4096});
        // header section + chunked trailer together 8192+d
        std::string hdrs = TE + N + "H: " + pad(4000) + N + N; // complete header section
        std::string body = "1\r\na\r\n0\r\n";
        std::string trailer = "T: " + pad(8192 + d - hdrs.size() - 3 - 2 - 2) + N + N;
        const std::string prl = "POST / HTTP/1.1\r\n";
        add("limit-trailer" + std::to_string(d), prl + hdrs + body + trailer + G11, {prl.size() + hdrs.size(), prl.size() + hdrs.size() + body.size(), prl.size() + hdrs.size() + body.size() + 3, prl.size() + hdrs.size() + body.size() + trailer.size() - 2});
        // chunk-size line with a long extension: 8192+d characters
        std::string cs = "1;" + pad(8192 + d - 3) + "\r";
        add("limit-chunkext" + std::to_string(d), prl + TE + N + N + cs + "\na\r\n0\r\n\r\n", {prl.size() + TE.size() + 4, prl.size() + TE.size() + 4 + 2, prl.size() + TE.size() + 4 + cs.size(), prl.size() + TE.size() + 4 + 8192});
        // unterminated header line of 8192+d characters
        add("limit-hdrline-noeol" + std::to_string(d), rl + "X: " + pad(8192 + d - 3), {rl.size(), rl.size() + 8191, rl.size() + 8192});
    }
    // a header section that stays one byte under the limit although it arrives as many lines, then a body and a second request
    // (separately) a large Content-Length body delivered completely
    add("body-20000", "POST / HTTP/1.1\r\nContent-Length: 20000\r\n\r\n" + std::string(20000, 'b') + G11, {17, 41, 42, 43, 20042, 20043, 20044});
    add("chunk-20000", "POST / HTTP/1.1\r\n" + TE + N + N + "4e20\r\n" + std::string(20000, 'c') + "\r\n0\r\n\r\n" + G11, {17, 45, 47, 51, 52, 20051, 20052, 20053, 20054, 20057});
}

// all k-subsets of positions `pos` (sorted), k = 0..maxk, calling fn(cuts, n)
template <typename F>
void for_subsets(const std::vector<size_t>& pos, int maxk, F&& fn)
{
    size_t cuts[8];
    std::function<void(size_t, int)> rec = [&](size_t start, int k) {
        fn(cuts, (size_t)k);
        if (k == maxk) return;
        for (size_t i = start; i < pos.size(); i++) { cuts[k] = pos[i]; rec(i + 1, k + 1); }
    };
    rec(0, 0);
}

// ---------------------------------------------------------------- ClientAllowed
void run_allow_cases(std::vector<std::string>& out)
{
    const std::vector<std::string> specs = {"1.2.3.4", "1.2.3.0/24", "1.2.3.0/255.255.255.0", "10.0.0.0/8", "1.2.3.4/32", "0.0.0.0/0", "1.2.3.128/25", "1.2.3.4/31", "1.2.0.0/255.255.0.0",
                                            "2001:db9::/32", "2001:db9::1", "::/0", "fd00::/8"};
    const std::vector<std::string> probes = {"1.2.3.4", "1.2.3.5", "1.2.3.6", "1.2.3.3", "1.2.3.0", "1.2.3.255", "1.2.4.0", "1.2.2.255", "1.2.3.127", "1.2.3.128", "1.2.255.255", "1.3.0.0", "1.1.255.255",
                                             "10.0.0.1", "10.255.255.255", "11.0.0.0", "9.255.255.255", "127.0.0.1", "127.255.255.254", "128.0.0.1", "126.255.255.255", "::1", "::2", "2001:db9::1",
                                             "2001:db9::2", "2001:db9:ffff:ffff:ffff:ffff:ffff:ffff", "2001:dba::", "2001:db8:ffff:ffff:ffff:ffff:ffff:ffff", "2001:db8::1", "0.0.0.0", "255.255.255.255", "::", "8.8.8.8", "fd00::1",
                                             "fcff:ffff:ffff:ffff:ffff:ffff:ffff:ffff", "fe00::1", "fe80::1", "::ffff:1.2.3.4", "::ffff:127.0.0.1", "::ffff:9.9.9.9"};
    std::vector<std::vector<std::string>> sets{{}};
    for (size_t i = 0; i < specs.size(); i++) { sets.push_back({specs[i]}); for (size_t j = i + 1; j < specs.size(); j++) sets.push_back({specs[i], specs[j]}); }
    HTTPServer server([](std::unique_ptr<HTTPRequest>&&) {});
    for (auto& set : sets) {
        set_multi_arg("rpcallowip", set);
        if (!server.InitHTTPAllowList()) { out.push_back("E\tInitHTTPAllowList failed"); continue; }
        std::string names;
        for (auto& s : set) names += (names.empty() ? "" : ",") + s;
        for (auto& p : probes) {
            auto a = LookupHost(p, false);
            if (!a) { out.push_back("E\tLookupHost failed for " + p); continue; }
            out.push_back("A\t" + (names.empty() ? std::string("-") : names) + "\t" + p + "\t" + std::to_string(server.ClientAllowed(*a)));
        }
    }
    set_multi_arg("rpcallowip", {});
}

} // namespace

int main(int argc, char** argv)
{
    vx::init(argc, argv, "C52", "exploration");
    const bool big = vx::thorough();
    build_streams();

    if (!vx::ctx().replay.empty()) {
        // replay file: line "stream <hex>", line "cuts <mode> c1 c2 ..."
        std::ifstream f(vx::ctx().replay);
        std::string line, hexs; std::vector<size_t> cuts; int mode = 1;
        while (std::getline(f, line)) {
            if (line.rfind("stream ", 0) == 0) hexs = line.substr(7);
            if (line.rfind("cuts ", 0) == 0) { std::istringstream is(line.substr(5)); is >> mode; size_t c; while (is >> c) cuts.push_back(c); }
        }
        auto bytes = ParseHex(hexs);
        std::string s(bytes.begin(), bytes.end()), tr;
        Driver d;
        printf("single  : %s\n", d.run(s, nullptr, 0, true).c_str());
        printf("replayed: %s\n%s", d.run(s, cuts.data(), cuts.size(), mode == 1, &tr).c_str(), tr.c_str());
        return 0;
    }

    // side parts in their own threads (they only need a little CPU, the auth part sleeps 250 ms per bad password)
    std::vector<std::string> auth_lines, allow_lines;
    auth_init();                  // reads gArgs
    run_allow_cases(allow_lines); // reads/writes gArgs
    std::thread t_auth([&] { run_auth_cases(auth_lines); });

    // ---- fragmentation part
    std::vector<std::string> base(g_streams.size());
    {
        Driver d;
        for (size_t i = 0; i < g_streams.size(); i++) {
            base[i] = d.run(g_streams[i].bytes, nullptr, 0, true);
            std::string again = d.run(g_streams[i].bytes, nullptr, 0, false);
            if (again != base[i]) printf("V\tschedule-single-%s\tsingle delivery differs between I/O loop schedules: %s <> %s\tstream %s\ncuts 0\n", g_streams[i].name.c_str(), base[i].c_str(), again.c_str(), vx::hex(g_streams[i].bytes).c_str());
            printf("S\t%zu\t%s\t%s\t%s\n", i, g_streams[i].name.c_str(), vx::hex(g_streams[i].bytes).c_str(), base[i].c_str());
        }
    }
    // work units: (stream, first cut) so that long enumerations spread over the cores
    struct Unit { size_t stream; };
    std::atomic<uint64_t> deliveries{0}, mismatches{0};
    std::atomic<bool> cut_short{false};
    std::mutex out_mu;
    std::vector<uint64_t> per_stream(g_streams.size());
    std::vector<int> per_stream_k(g_streams.size());
    // work order: the long limit streams first (they are the slowest single units), then by decreasing length
    std::vector<size_t> order(g_streams.size());
    for (size_t i = 0; i < order.size(); i++) order[i] = i;
    std::stable_sort(order.begin(), order.end(), [&](size_t a, size_t b) {
        if (g_streams[a].marks.empty() != g_streams[b].marks.empty()) return !g_streams[a].marks.empty();
        return g_streams[a].bytes.size() > g_streams[b].bytes.size();
    });
    vx::par_for(g_streams.size(), 1, [&](uint64_t lo, uint64_t hi, unsigned) {
        Driver d;
        for (uint64_t oi = lo; oi < hi; oi++) {
            const size_t si = order[oi];
            if (vx::deadline_reached()) { cut_short = true; continue; }
            if (getenv("C52_ONLY_BASE")) continue; // debugging aid: list the single-delivery observations only
            const Stream& st = g_streams[si];
            const size_t L = st.bytes.size();
            std::vector<size_t> pos;
            int maxk;
            if (st.marks.empty()) {
                for (size_t p = 1; p < L; p++) pos.push_back(p);
                if (big) maxk = L <= 56 ? 4 : (L <= 150 ? 3 : 2);
                else maxk = L <= 64 ? 3 : 2;
            } else {
                std::set<size_t> ps;
                for (size_t m : st.marks) for (int dd = -1; dd <= 1; dd++) { size_t p = m + dd; if (p >= 1 && p < L) ps.insert(p); }
                for (size_t p : {(size_t)1, (size_t)2, L - 1, L - 2}) if (p >= 1 && p < L) ps.insert(p);
                pos.assign(ps.begin(), ps.end());
                maxk = big ? 3 : 2;
            }
            uint64_t cnt = 0;
            auto check = [&](const size_t* cuts, size_t n, bool idle) {
                std::string o = d.run(st.bytes, cuts, n, idle);
                cnt++;
                if (o != base[si]) {
                    if (mismatches.fetch_add(1) < 40) {
                        std::string cs;
                        for (size_t i = 0; i < n; i++) cs += " " + std::to_string(cuts[i]);
                        std::lock_guard<std::mutex> l(out_mu);
                        printf("V\tfragmentation-%s\tdelivery with cuts{%s} schedule=%s gives [%s] but single delivery gives [%s]\tstream %s\\ncuts %d%s\n", st.name.c_str(), cs.c_str(), idle ? "idle-between-reads" : "back-to-back",
                               o.c_str(), base[si].c_str(), vx::hex(st.bytes).c_str(), idle ? 1 : 0, cs.c_str());
                    }
                }
            };
            for_subsets(pos, maxk, [&](const size_t* cuts, size_t n) { if (n == 0) return; check(cuts, n, true); check(cuts, n, false); });
            // byte at a time, and fixed strides
            for (size_t stride : {(size_t)1, (size_t)2, (size_t)3, (size_t)7, (size_t)1000, (size_t)4096, (size_t)8191, (size_t)8192, (size_t)8193}) {
                if (stride >= L) continue;
                std::vector<size_t> cuts;
                for (size_t p = stride; p < L; p += stride) cuts.push_back(p);
                check(cuts.data(), cuts.size(), true);
                check(cuts.data(), cuts.size(), false);
            }
            per_stream[si] = cnt;
            per_stream_k[si] = maxk;
            deliveries += cnt;
        }
    });
    t_auth.join();
    for (auto& l : allow_lines) printf("%s\n", l.c_str());
    for (auto& l : auth_lines) printf("%s\n", l.c_str());
    uint64_t short_streams = 0, long_streams = 0;
    for (auto& s : g_streams) (s.marks.empty() ? short_streams : long_streams)++;
    printf("C\tdeliveries\t%llu\n", (unsigned long long)deliveries.load());
    printf("C\tmismatches\t%llu\n", (unsigned long long)mismatches.load());
    printf("C\tstreams\t%zu\n", g_streams.size());
    printf("C\tstreams_all_positions\t%llu\n", (unsigned long long)short_streams);
    printf("C\tstreams_marked_positions\t%llu\n", (unsigned long long)long_streams);
    printf("C\texhaustive\t%d\n", cut_short ? 0 : 1);
    for (size_t i = 0; i < g_streams.size(); i += std::max<size_t>(1, g_streams.size() / 10))
        printf("C\tsample\t%s len=%zu max_cuts=%d deliveries=%llu\n", g_streams[i].name.c_str(), g_streams[i].bytes.size(), per_stream_k[i], (unsigned long long)per_stream[i]);
    printf("C\tdone\t1\n");
    fflush(stdout);
    return 0;
}
