// C52 (part 3): the JSON-RPC HTTP handler executes an RPC only with valid credentials.
// httprpc.cpp is compiled into this translation unit (from /repo's working tree) so that its file-static handler
// HTTPReq_JSONRPC and InitRPCAuthentication can be called directly; requests are produced by the real HTTP parser.
// The externally visible functions of httprpc.cpp get private names here so that this copy can coexist with the
// library's (or a separately compiled) httprpc.o at link time.
#define StartHTTPRPC vx_c52_StartHTTPRPC
#define InterruptHTTPRPC vx_c52_InterruptHTTPRPC
#define StopHTTPRPC vx_c52_StopHTTPRPC
#define ExecuteHTTPRPC vx_c52_ExecuteHTTPRPC
#include <httprpc.cpp>

#include <test/util/net.h>
#include <vx/vx.h>

using http_bitcoin::HTTPRemoteClient;
using http_bitcoin::HTTPServer;

namespace {
struct RecSock2 : public ZeroSock {
    mutable std::string sent;
    ssize_t Send(const void* d, size_t len, int) const override { sent.append((const char*)d, len); return (ssize_t)len; }
};
std::atomic<int> g_probe_runs{0};
std::string b64(const std::string& s) { return EncodeBase64(s); }
} // namespace

void set_multi_arg(const std::string& name_nodash, const std::vector<std::string>& values)
{
    gArgs.LockSettings([&](common::Settings& s) {
        std::vector<common::SettingsValue> v;
        for (auto& x : values) v.emplace_back(x);
        s.command_line_options[name_nodash] = v;
    });
}

void auth_init()
{
    // credentials: alice/secret (plain), bob/hunter2 and carol/"a:b" as salted rpcauth entries (HMACs computed with Python's hmac)
    gArgs.ForceSetArg("-rpcuser", "alice");
    gArgs.ForceSetArg("-rpcpassword", "secret");
    set_multi_arg("rpcauth", {"bob:f3a1c0ffee5a17$2a5a6ecf0ab3e7715d147e996dc5e687e982fd24a62cf0290473b5e2e17a8536",
                              "carol:00112233445566778899aabbccddeeff$e994a94e3dff17ea214a01a2c3c8b4da0c595e3da562ea4946150427ae89799c"});
    if (!InitRPCAuthentication()) { printf("E\tInitRPCAuthentication failed\n"); return; }
    static const CRPCCommand probe{"vx", "vxprobe", [](const JSONRPCRequest&, UniValue& result, bool) { g_probe_runs++; result = UniValue{"ran"}; return true; }, {}, 0x5252};
    tableRPC.appendCommand("vxprobe", &probe);
    SetRPCWarmupFinished();
}

void run_auth_cases(std::vector<std::string>& out)
{
    struct Case { std::string name, method; std::vector<std::string> headers; };
    std::vector<Case> cases;
    auto basic = [](const std::string& up) { return "Authorization: Basic " + b64(up); };
    cases.push_back({"no-header", "POST", {}});
    for (const std::string& up : {"alice:secret", "alice:wrong", "mallory:secret", "bob:hunter2", "bob:hunter3", "bob:secret", "alice:hunter2", "alicesecret", "alice:secret:", ":secret", "alice:",
                                  "ALICE:secret", "carol:a:b", "carol:a", "carol:b", "alice:secret ", " alice:secret", "bob:", ":"})
        cases.push_back({"basic[" + up + "]", "POST", {basic(up)}});
    cases.push_back({"scheme-lowercase", "POST", {"Authorization: basic " + b64("alice:secret")}});
    cases.push_back({"scheme-nospace", "POST", {"Authorization: Basic" + b64("alice:secret")}});
    cases.push_back({"scheme-bearer", "POST", {"Authorization: Bearer " + b64("alice:secret")}});
    cases.push_back({"not-base64", "POST", {"Authorization: Basic !!!notbase64"}});
    cases.push_back({"extra-whitespace", "POST", {"Authorization: Basic   " + b64("alice:secret") + "  "}});
    cases.push_back({"truncated-base64", "POST", {"Authorization: Basic " + b64("alice:secret").substr(0, b64("alice:secret").size() - 1)}});
    cases.push_back({"header-name-upper", "POST", {"AUTHORIZATION: Basic " + b64("bob:hunter2")}});
    cases.push_back({"two-headers-bad-first", "POST", {basic("alice:wrong"), basic("alice:secret")}});
    cases.push_back({"two-headers-good-first", "POST", {basic("alice:secret"), basic("alice:wrong")}});
    cases.push_back({"empty-value", "POST", {"Authorization:"}});
    cases.push_back({"get-with-valid", "GET", {basic("alice:secret")}});
    cases.push_back({"put-with-valid", "PUT", {basic("bob:hunter2")}});

    const std::string body = "{\"method\":\"vxprobe\",\"params\":[],\"id\":1}";
    for (auto& c : cases) {
        std::unique_ptr<http_bitcoin::HTTPRequest> got;
        HTTPServer server([&](std::unique_ptr<http_bitcoin::HTTPRequest>&& r) { got = std::move(r); });
        auto sock = std::make_unique<RecSock2>();
        RecSock2* rs = sock.get();
        auto client = std::make_shared<HTTPRemoteClient>(7, CService{}, std::move(sock));
        std::string stream = c.method + " / HTTP/1.1\r\n";
        std::string hdrs;
        for (auto& h : c.headers) { stream += h + "\r\n"; hdrs += (hdrs.empty() ? "" : "\n") + h; }
        stream += "Content-Length: " + std::to_string(body.size()) + "\r\n\r\n" + body;
        client->m_recv_buffer = stream;
        server.MaybeDispatchRequestsFromClient(client);
        if (!got) { out.push_back("E\tauth case " + c.name + ": request was not dispatched by the parser"); continue; }
        const int before = g_probe_runs;
        HTTPReq_JSONRPC(std::any{}, got.get());
        const int ran = g_probe_runs - before;
        int status = rs->sent.compare(0, 7, "HTTP/1.") == 0 ? atoi(rs->sent.c_str() + 9) : -1;
        const bool body_ran = rs->sent.find("\"ran\"") != std::string::npos;
        out.push_back("R\t" + c.name + "\t" + (hdrs.empty() ? std::string("-") : vx::hex(hdrs)) + "\t" + c.method + "\t" + std::to_string(ran) + "\t" + std::to_string(status) + "\t" + std::to_string(body_ran));
    }
}
