"""Independent whole-stream reference for the RPC/REST HTTP request parser (C52).

Takes the complete byte stream a client sent and returns what a correct server must have dispatched and how the
connection ends, in the observation format of checks/C52/main.cpp. Written from RFC 9110/9112 plus the limits and
leniencies documented in httpserver.h (8192 byte lines / header section incl. chunked trailers, 32 MiB bodies,
bare LF accepted as line end, chunk extensions ignored, request dispatched per connection in order, reply decides
persistence). It is NOT incremental: it looks at the whole stream at once.
"""
MAX_LINE = 8192
MAX_HEADERS = 8192
MAX_BODY = 32 * 1024 * 1024
METHODS = {b'GET': 1, b'POST': 2, b'HEAD': 3, b'PUT': 4}
WS = b' \t\n\r\f\v'


class Bad(Exception):
    pass


class TooLarge(Exception):
    pass


class NeedMore(Exception):
    pass


def hx(b):
    return b.hex() if b else '-'


class Cursor:
    def __init__(self, data):
        self.d, self.p = data, 0

    def line(self):
        """Next line without its terminator (LF, optionally preceded by one CR)."""
        if self.p == len(self.d):
            raise NeedMore()
        e = self.d.find(b'\n', self.p)
        length = (e if e >= 0 else len(self.d)) - self.p   # characters before the LF (a CR counts)
        if length > MAX_LINE:
            raise Bad('line too long')
        if e < 0:
            raise NeedMore()
        l = self.d[self.p:e]
        self.p = e + 1
        if l.endswith(b'\r'):
            l = l[:-1]
        return l


def parse_uint(s, base):
    digits = b'0123456789' if base == 10 else b'0123456789abcdefABCDEF'
    if not s or any(c not in digits for c in s):
        return None
    v = int(s, base)
    return v if v < 2 ** 64 else None


def header_section(cur, budget):
    """Parses field lines up to and including the empty line. budget = [bytes used so far] (shared with trailers)."""
    out = []
    while True:
        start = cur.p
        l = cur.line()
        budget[0] += cur.p - start
        if budget[0] > MAX_HEADERS:
            raise Bad('header section too large')
        if l == b'':
            return out
        if b'\r' in l or b'\n' in l or b'\0' in l:
            raise Bad('bad character')
        k, sep, v = l.partition(b':')
        if not sep:
            raise Bad('no colon')
        if any(c in WS for c in k) or k == b'':
            raise Bad('bad field name')
        out.append((k, v.strip(WS)))


def first(headers, name):
    for k, v in headers:
        if k.lower() == name:
            return v
    return None


def one_request(cur):
    """Returns (record, keep_alive). Raises NeedMore / Bad / TooLarge."""
    l = cur.line()
    if len(l) < 14:
        raise Bad('short request line')
    if b'\0' in l:
        raise Bad('NUL')
    parts = l.split(b' ')
    if len(parts) != 3:
        raise Bad('request line')
    method, target, ver = parts
    if not ver.startswith(b'HTTP/') or ver.count(b'HTTP/') != 1:
        raise Bad('version')
    vp = ver[5:].split(b'.')
    if len(vp) != 2 or len(vp[0]) != 1 or len(vp[1]) != 1 or not vp[0].isdigit() or not vp[1].isdigit() or vp[0] != b'1':
        raise Bad('version')
    minor = int(vp[1])
    budget = [0]
    headers = header_section(cur, budget)
    te = first(headers, b'transfer-encoding')
    body = b''
    if te is not None and te.lower() == b'chunked':
        while True:
            if cur.p == len(cur.d):
                raise NeedMore()
            sz = cur.line().split(b';')[0].strip(WS)
            n = parse_uint(sz, 16)
            if n is None:
                raise Bad('chunk size')
            if len(body) + n > MAX_BODY:
                raise TooLarge()
            if n == 0:
                header_section(cur, budget)    # trailer: validated, dropped, counted with the headers
                break
            take = cur.d[cur.p:cur.p + n]
            cur.p += len(take)
            body += take
            if len(take) < n:
                raise NeedMore()
            if cur.line() != b'':
                raise Bad('chunk not terminated')
    else:
        cls = [v for k, v in headers if k.lower() == b'content-length']
        if cls:
            if any(v != cls[0] for v in cls):
                raise Bad('differing content-length')
            n = parse_uint(cls[0], 10)
            if n is None:
                raise Bad('content-length')
            if n > MAX_BODY:
                raise TooLarge()
            body = cur.d[cur.p:cur.p + n]
            cur.p += len(body)
            if len(body) < n:
                raise NeedMore()
    conn = first(headers, b'connection')
    conn = conn.lower() if conn is not None else None
    keep = (minor >= 1) or conn == b'keep-alive'
    if conn == b'close':
        keep = False
    rec = 'M=%d;T=%s;V=1.%d;H=%s;B=%s' % (METHODS.get(method, 0), hx(target), minor, ','.join(hx(k) + ':' + hx(v) for k, v in headers), hx(body))
    return rec, keep


def observe(stream):
    cur = Cursor(stream)
    recs, replies = [], []
    term = None
    while term is None:
        if cur.p == len(cur.d):
            term = 'open-idle'
            break
        try:
            rec, keep = one_request(cur)
        except NeedMore:
            term = 'open-partial'
            break
        except TooLarge:
            replies.append('413'); term = '413'
            break
        except Bad:
            replies.append('400'); term = '400'
            break
        recs.append(rec)
        replies.append('200')
        if not keep:
            term = 'closed'
    return ''.join(r + ' | ' for r in recs) + 'replies=' + (','.join(replies) or '-') + ' => ' + term
