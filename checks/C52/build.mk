LINK := full
INCLUDED_SRCS := httprpc.cpp
