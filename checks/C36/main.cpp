// C36 — Peers are punished only for what the rules say, never for transactions.
//
// Engine: VX-STATE, fork-per-transition (vx/forksim.h) over the real PeerManager (kits/p2pkit) on the in-process
// regtest node (kits/chainkit).  State = (peer configuration, message history); first event of every history
// creates the PeerManager (with or without -blocksonly) and one peer of the chosen ConnectionType / permission
// set / address and drives the version handshake; every further event is one P2P message from that peer followed by
// exactly what CConnman::ThreadMessageHandler does (ProcessMessages, SendMessages, repeated while there is more work).
// A peer that the node marked for disconnection is gone: its histories end there.
//
// Oracle (from the property text, evaluated after every message):
//   A  a `tx` message from a peer that may send transactions => not marked for disconnection, address not discouraged
//   B  noban permission or manual connection                 => never discouraged; marked for disconnection only by the
//                                                                documented protocol rule "tx from a peer that must not send tx"
//   C  any other peer, handshake complete, sending            => marked for disconnection, and discouraged iff its address
//      a full block found invalid when validated now             is not local
//      (BlockChecked fired invalid: consensus / mutated /
//      invalid header), a mutated full block, or headers
//      with invalid proof of work
//   L  a local address is never discouraged
#include <vx/vx.h>
#include <vx/forksim.h>
#include <kits/chainkit.h>
#include <kits/p2pkit.h>

#include <chainparams.h>
#include <consensus/merkle.h>
#include <policy/policy.h>
#include <pow.h>
#include <util/time.h>

using namespace ck;

namespace {

struct Perm { const char* name; NetPermissionFlags f; };
const Perm PERMS[] = {
    {"none", NetPermissionFlags::None},
    {"noban", NetPermissionFlags::NoBan},
    {"relay", NetPermissionFlags::Relay},
    {"forcerelay", NetPermissionFlags::ForceRelay},
    {"download", NetPermissionFlags::Download},
};
const ConnectionType TYPES[] = {
    ConnectionType::INBOUND, ConnectionType::OUTBOUND_FULL_RELAY, ConnectionType::MANUAL, ConnectionType::FEELER,
    ConnectionType::BLOCK_RELAY, ConnectionType::ADDR_FETCH, ConnectionType::PRIVATE_BROADCAST,
};

struct Cfg {
    ConnectionType type;
    int perm;
    bool blocksonly;
    bool local;
    int depth; // messages explored for this configuration
    const std::vector<std::string>* alpha; // message alphabet explored for this configuration
    std::string ip{};  // empty: 127.0.0.1 if local, 8.7.6.5 otherwise. `local` is the harness's own statement about the address (only loopback counts as local)
    std::string Ip() const { return !ip.empty() ? ip : local ? "127.0.0.1" : "8.7.6.5"; }
    std::string Label() const
    {
        return std::string("CFG:") + pk::ConnTypeName(type) + ":" + PERMS[perm].name + ":blocksonly=" + (blocksonly ? "1" : "0") + ":" + (ip.empty() ? (local ? "local" : "remote") : "addr=" + ip);
    }
    // ---- independent reading of the rules
    bool Protected() const { return perm == 1 || type == ConnectionType::MANUAL; }
    bool TxAllowed() const
    {
        if (type == ConnectionType::BLOCK_RELAY || type == ConnectionType::FEELER) return false;
        if (blocksonly && !(perm == 2 || perm == 3)) return false; // -blocksonly: only peers with the relay permission (forcerelay implies relay)
        return true;
    }
    // handshake complete and not a connection on which everything but pong/getdata is ignored
    bool Processes() const { return type != ConnectionType::FEELER && type != ConnectionType::PRIVATE_BROADCAST; }
};

enum Outcome {
    O_TX_ACCEPTED, O_TX_REJECTED_NO_PUNISH, O_PUNISH_DISCOURAGED, O_PUNISH_LOCAL, O_PROTECTED_SPARED, O_TX_FORBIDDEN_DISCONNECT,
    O_CHECKED_CONSENSUS, O_CHECKED_HEADER, O_VALID_BLOCK_CONNECTED, O_ORPHAN_KEPT, O_ORPHAN_RECONSIDERED, O_CMPCT_INVALID_NOT_PUNISHED,
    O_CMPCT_BADPOW_PUNISHED, O_NONCONT_PUNISHED, O_IGNORED_CONN, O_MUTATED_PUNISHED
};

struct World {
    Node& n;
    RefLedger L;
    std::vector<COutPoint> coin;
    std::vector<CAmount> val;
    std::map<std::string, pk::Msg> txmsg; // fixed tx messages
    std::map<std::string, CTransactionRef> txs;
    std::vector<Cfg> cfgs; // configurations of the running stage
    // current state
    const Cfg* cfg{nullptr};
    std::unique_ptr<pk::Net> net;
    pk::Peer* peer{nullptr};
    int sent{0};
    vx::ForkSim fs;

    explicit World(Node& node) : n(node) {}

    void Init(int base_blocks)
    {
        L.AddGenesis(Params().GenesisBlock());
        SetMockTime(Params().GenesisBlock().nTime + 600 * (int64_t)(base_blocks + 1));
        auto hashes = MineEmpty(n, L, base_blocks);
        for (auto& h : hashes) {
            const RefBlock& rb = L.blocks.at(h);
            coin.push_back(COutPoint(rb.block.vtx[0]->GetHash(), 0));
            val.push_back(rb.block.vtx[0]->vout[0].nValue);
        }
        if (n.chainman().IsInitialBlockDownload()) throw std::runtime_error("C36: node still in initial block download");
        BuildTxs();
    }

    static CTransactionRef BadWitness(const CTransactionRef& t)
    {
        CMutableTransaction m(*t);
        auto& st = m.vin[0].scriptWitness.stack;
        st.insert(st.begin(), std::vector<unsigned char>{1}); // extra stack element: witness script leaves two items
        return MakeTransactionRef(m);
    }

    void BuildTxs()
    {
        const CAmount fee = 20000;
        auto add = [&](const std::string& k, const CTransactionRef& t, bool wit = true) { txs[k] = t; txmsg[k] = pk::MsgTx(*t, wit); };
        add("tx:valid", SpendTx({coin[0]}, {val[0] / 2, val[0] - val[0] / 2 - fee}));
        add("tx:conflict", SpendTx({coin[0]}, {val[0] - fee}));                                  // same input, same fee: loses / wins depending on order
        add("tx:script", BadWitness(SpendTx({coin[1]}, {val[1] - fee})));                         // witness script fails (consensus-invalid spend)
        add("tx:amount", SpendTx({coin[2]}, {val[2] + 1}));                                      // outputs exceed inputs (consensus)
        add("tx:nonstd", SpendTx({coin[3]}, {val[3] - fee}, 0xffffffff, 0, /*version=*/4));      // non-standard version
        // orphan: spends output 0 of tx:valid with a failing witness -> missing inputs alone, rejected once the parent is there
        add("tx:orphan", BadWitness(SpendTx({COutPoint(txs["tx:valid"]->GetHash(), 0)}, {val[0] / 2 - fee})));
        {
            std::vector<CAmount> outs(3200, (val[4] - fee) / 3200);                                // > 400k weight
            add("tx:oversized", SpendTx({coin[4]}, outs));
        }
        add("tx:stripped", SpendTx({coin[5]}, {val[5] - fee}), /*wit=*/false);                   // valid tx serialised without its witness
        {
            pk::Msg m = txmsg["tx:valid"];
            m.payload.resize(m.payload.size() / 2);                                               // truncated: deserialisation throws
            txmsg["tx:undecodable"] = m;
        }
        // thorough extras
        add("tx:lowfee", SpendTx({coin[6]}, {val[6]}));                                          // fee 0
        {
            pk::Msg m = pk::MsgTx(*SpendTx({coin[7]}, {val[7] - fee}));
            for (int i = 0; i < 9; i++) m.payload.push_back(0xab);                                 // valid tx + trailing garbage
            txmsg["tx:trailing"] = m;
            txs["tx:trailing"] = SpendTx({coin[7]}, {val[7] - fee});
        }
        {
            const CBlock& tipb = L.blocks.at(n.tip()->GetBlockHash()).block;                       // immature coinbase
            add("tx:premature", SpendTx({COutPoint(tipb.vtx[0]->GetHash(), 0)}, {tipb.vtx[0]->vout[0].nValue - fee}));
        }
        txs["pb"] = SpendTx({coin[8]}, {val[8] - fee});                                           // the tx a private-broadcast connection exists for
    }

    // ------------------------------------------------------------------ block-ish messages (pure functions of the tip)
    static void BadNonce(CBlockHeader& h)
    {
        while (CheckProofOfWork(h.GetHash(), h.nBits, Params().GetConsensus())) ++h.nNonce;
    }
    pk::Msg BuildBlockish(const std::string& k, uint256& hash_out)
    {
        const CBlockIndex* tip = n.tip();
        auto mk = [&](int extra, CAmount fees) {
            BlockOpts o;
            o.extra_nonce = extra;
            o.fees = fees;
            return MakeBlock(n, tip, {}, o);
        };
        if (k == "block:valid") { CBlock b = mk(1, 0); hash_out = b.GetHash(); return pk::MsgBlock(b); }
        if (k == "block:badconnect") { CBlock b = mk(2, 1); hash_out = b.GetHash(); return pk::MsgBlock(b); } // coinbase claims 1 sat too much
        if (k == "block:mutated") {
            CBlock b = mk(3, 0);
            b.hashMerkleRoot = uint256{b.hashMerkleRoot.data()[0] == 1 ? uint8_t{2} : uint8_t{1}};             // merkle root does not match the transactions
            Grind(b, Params().GetConsensus());
            hash_out = b.GetHash();
            return pk::MsgBlock(b);
        }
        if (k == "block:badpow") { CBlock b = mk(4, 0); BadNonce(b); hash_out = b.GetHash(); return pk::MsgBlock(b); }
        if (k == "headers:badpow") { CBlock b = mk(5, 0); BadNonce(b); hash_out = b.GetHash(); return pk::MsgHeaders({static_cast<const CBlockHeader&>(b)}); }
        if (k == "headers:noncont") {
            CBlock a = mk(6, 0), b = mk(7, 0);                                                                  // both on the tip: b does not build on a
            hash_out = a.GetHash();
            return pk::MsgHeaders({static_cast<const CBlockHeader&>(a), static_cast<const CBlockHeader&>(b)});
        }
        if (k == "cmpct:badconnect") { CBlock b = mk(8, 1); hash_out = b.GetHash(); return pk::MsgCmpctBlock(b); }
        if (k == "cmpct:badpow") { CBlock b = mk(9, 0); BadNonce(b); hash_out = b.GetHash(); return pk::MsgCmpctBlock(b); }
        throw std::logic_error("C36: unknown message kind " + k);
    }

    // ------------------------------------------------------------------ events
    std::vector<std::string> Events()
    {
        std::vector<std::string> ev;
        if (!cfg) {
            for (auto& c : cfgs) ev.push_back(c.Label());
            return ev;
        }
        if (sent >= cfg->depth) return ev;
        if (peer->disconnect_flag()) return ev; // the connection is gone
        return *cfg->alpha;
    }

    void Setup(const std::string& label)
    {
        for (auto& c : cfgs) if (c.Label() == label) cfg = &c;
        if (!cfg) throw std::logic_error("C36: unknown configuration " + label);
        pk::NetOpts no;
        no.blocksonly = cfg->blocksonly;
        net = std::make_unique<pk::Net>(n, no);
        if (cfg->type == ConnectionType::PRIVATE_BROADCAST) (void)net->peerman->InitiateTxBroadcastPrivate(txs["pb"]);
        pk::PeerSpec s;
        s.type = cfg->type;
        s.perms = PERMS[cfg->perm].f;
        s.ip = cfg->Ip();
        // a feeler is disconnected by the node itself as soon as its version arrives: its messages can only come before that
        s.stage = cfg->type == ConnectionType::FEELER ? pk::Stage::PRE_VERSION : pk::Stage::COMPLETE;
        peer = &net->AddPeer(s);
        if (peer->disconnect_flag() || net->Discouraged(*peer))
            fs.report("C36-handshake-disconnect:" + label, "peer marked for disconnection or discouraged by the plain version handshake");
        if (s.stage == pk::Stage::COMPLETE && !peer->node->fSuccessfullyConnected)
            fs.report("C36-handshake-incomplete:" + label, "handshake did not complete");
    }

    void Apply(const std::string& e)
    {
        if (e.rfind("CFG:", 0) == 0) { Setup(e); return; }
        const Cfg& c = *cfg;
        const bool is_tx = e.rfind("tx:", 0) == 0;
        uint256 bh;
        pk::Msg m = is_tx ? txmsg.at(e) : BuildBlockish(e, bh);
        const uint256 tip_before = n.tip()->GetBlockHash();
        size_t orphans_before = net->peerman->GetOrphanTransactions().size();
        n.m_last_checked_fired = false;
        sent++;
        net->DeliverAndRun(*peer, m);
        const bool disc = peer->disconnect_flag();
        const bool dis = net->Discouraged(*peer);
        const std::string where = c.Label() + " after '" + e + "'";
        auto& oc = fs.sh->outcome_classes;

        // validation's own verdict on a block handed over in this step
        bool checked_invalid = false;
        BlockValidationResult res = BlockValidationResult::BLOCK_RESULT_UNSET;
        if (!is_tx && n.m_last_checked_fired && n.m_last_checked_hash == bh && n.m_last_checked_state.IsInvalid()) {
            checked_invalid = true;
            res = n.m_last_checked_state.GetResult();
            if (res == BlockValidationResult::BLOCK_CONSENSUS) oc[O_CHECKED_CONSENSUS]++;
            if (res == BlockValidationResult::BLOCK_INVALID_HEADER) oc[O_CHECKED_HEADER]++;
        }
        const bool full_block = e.rfind("block:", 0) == 0;
        bool obligated = false;
        if (c.Processes()) {
            if (e == "block:mutated" || e == "headers:badpow") obligated = true;
            if (full_block && checked_invalid &&
                (res == BlockValidationResult::BLOCK_CONSENSUS || res == BlockValidationResult::BLOCK_MUTATED || res == BlockValidationResult::BLOCK_INVALID_HEADER))
                obligated = true;
        }

        // ---- L
        if (dis && c.local) fs.report("C36-local-discouraged:" + e, where + ": a local address was discouraged");
        // ---- A
        if (is_tx && c.TxAllowed()) {
            if (disc) fs.report("C36-tx-disconnect:" + e, where + ": peer that may send transactions was marked for disconnection because of a tx message");
            if (dis) fs.report("C36-tx-discouraged:" + e, where + ": peer that may send transactions was discouraged because of a tx message");
            if (!disc && !dis) {
                if (txs.count(e) && n.pool().exists(txs[e]->GetHash())) oc[O_TX_ACCEPTED]++; else oc[O_TX_REJECTED_NO_PUNISH]++;
            }
        }
        // ---- B
        if (c.Protected()) {
            if (dis) fs.report("C36-protected-discouraged:" + e, where + ": noban/manual peer was discouraged");
            if (disc && !(is_tx && !c.TxAllowed())) fs.report("C36-protected-disconnected:" + e, where + ": noban/manual peer was marked for disconnection");
            if (obligated && !disc && !dis) oc[O_PROTECTED_SPARED]++;
        }
        // ---- C
        if (!c.Protected() && obligated) {
            if (!disc) fs.report("C36-not-disconnected:" + e, where + ": invalid block / bad-PoW headers from an unprotected peer did not lead to disconnection");
            if (disc && dis != !c.local) fs.report("C36-discourage-rule:" + e, where + (dis ? ": discouraged" : ": not discouraged") + " but address is " + (c.local ? "local" : "not local"));
            if (disc && dis && !c.local) oc[O_PUNISH_DISCOURAGED]++;
            if (disc && !dis && c.local) oc[O_PUNISH_LOCAL]++;
            if (disc && e == "block:mutated") oc[O_MUTATED_PUNISHED]++;
        }
        // ---- observations only (not part of the property)
        if (is_tx && !c.TxAllowed() && disc && !dis) oc[O_TX_FORBIDDEN_DISCONNECT]++;
        if (n.tip()->GetBlockHash() != tip_before) oc[O_VALID_BLOCK_CONNECTED]++;
        size_t orphans_after = net->peerman->GetOrphanTransactions().size();
        if (orphans_after > orphans_before) oc[O_ORPHAN_KEPT]++;
        if (orphans_after < orphans_before && e == "tx:valid" && !n.pool().exists(txs["tx:orphan"]->GetHash())) oc[O_ORPHAN_RECONSIDERED]++;
        if (e == "cmpct:badconnect" && checked_invalid && !disc) oc[O_CMPCT_INVALID_NOT_PUNISHED]++;
        if (e == "cmpct:badpow" && disc) oc[O_CMPCT_BADPOW_PUNISHED]++;
        if (e == "headers:noncont" && disc) oc[O_NONCONT_PUNISHED]++;
        if (!c.Processes() && !disc && !dis) oc[O_IGNORED_CONN]++;
    }

    uint64_t Key() { return vx::fnv1a(fs.hist_str()); }
};

// tx classification sanity: what the mempool says about each alphabet tx on the untouched base state
bool CheckAlphabet(World& w)
{
    struct Exp { const char* k; bool valid; TxValidationResult r; };
    const Exp exp[] = {
        {"tx:valid", true, TxValidationResult::TX_RESULT_UNSET},
        {"tx:conflict", true, TxValidationResult::TX_RESULT_UNSET},
        {"tx:script", false, TxValidationResult::TX_NOT_STANDARD},
        {"tx:amount", false, TxValidationResult::TX_CONSENSUS},
        {"tx:nonstd", false, TxValidationResult::TX_NOT_STANDARD},
        {"tx:orphan", false, TxValidationResult::TX_MISSING_INPUTS},
        {"tx:oversized", false, TxValidationResult::TX_NOT_STANDARD},
        {"tx:lowfee", false, TxValidationResult::TX_RECONSIDERABLE},
        {"tx:premature", false, TxValidationResult::TX_PREMATURE_SPEND},
    };
    bool ok = true;
    for (auto& e : exp) {
        auto r = w.n.SubmitTx(w.txs.at(e.k), /*test_accept=*/true);
        bool valid = r.m_result_type == MempoolAcceptResult::ResultType::VALID;
        if (valid != e.valid || (!valid && r.m_state.GetResult() != e.r)) {
            printf("HARNESS-ERROR property=C36 alphabet tx %s classified unexpectedly: %s\n", e.k, r.m_state.ToString().c_str());
            ok = false;
        }
    }
    {
        CMutableTransaction s(*w.txs.at("tx:stripped"));
        for (auto& in : s.vin) in.scriptWitness.SetNull();
        auto r = w.n.SubmitTx(MakeTransactionRef(s), true);
        if (r.m_state.GetResult() != TxValidationResult::TX_WITNESS_STRIPPED) {
            printf("HARNESS-ERROR property=C36 stripped tx classified unexpectedly: %s\n", r.m_state.ToString().c_str());
            ok = false;
        }
    }
    return ok;
}

} // namespace

int main(int argc, char** argv)
{
    setenv("RANDOM_CTX_SEED", "c36c36c36c36", 1);
    vx::init(argc, argv, "C36", "model_checking", 150, 1500);
    vx::scratch_dir();
    auto& E = vx::ev();
    const bool big = vx::thorough();

    NodeOpts nopts;
    Node node(nopts);
    World w(node);
    w.Init(120);
    if (!CheckAlphabet(w)) return 2;

    // message alphabets
    // (order = exploration order: the orphan-then-parent sequence comes first so that a deadline on a loaded machine does not cut it off)
    const std::vector<std::string> A_BASE = {"tx:orphan", "tx:valid", "tx:script", "tx:amount", "tx:nonstd", "tx:conflict", "tx:oversized", "tx:stripped", "tx:undecodable",
                                             "block:mutated", "block:badconnect", "block:badpow", "block:valid", "headers:badpow", "headers:noncont", "cmpct:badconnect"};
    std::vector<std::string> A_FULL = A_BASE;
    for (const char* k : {"tx:lowfee", "tx:trailing", "tx:premature", "cmpct:badpow"}) A_FULL.push_back(k);
    const std::vector<std::string> A_EXTRA = {"tx:lowfee", "tx:trailing", "tx:premature", "cmpct:badpow"};
    const std::vector<std::string> A_TXPROBE = {"tx:valid", "tx:amount", "block:badconnect"};       // what -blocksonly changes
    const std::vector<std::string> A_PUNISH = {"block:badconnect", "headers:badpow", "tx:script", "tx:amount"};  // what a local address changes (+ tx probes)

    // The whole space is ConnectionType(7) x permission(5) x -blocksonly(2) x address(2) = 140 configurations.
    // A stage is a set of configurations explored with one alphabet to one depth; every configuration is in exactly one stage.
    struct Stage { std::string name; std::vector<Cfg> cfgs; };
    std::vector<Stage> stages;
    auto all = [&](auto pred, int depth, const std::vector<std::string>* alpha) {
        std::vector<Cfg> v;
        for (auto t : TYPES) for (int p = 0; p < 5; p++) for (int bo = 0; bo < 2; bo++) for (int loc = 0; loc < 2; loc++) {
            Cfg c{t, p, bo == 1, loc == 1, depth, alpha};
            if (pred(c)) v.push_back(c);
        }
        return v;
    };
    auto deep_quick = [](const Cfg& c) { return c.type == ConnectionType::INBOUND && c.perm == 0 && !c.blocksonly && !c.local; };
    auto deep_big = [](const Cfg& c) {
        return (c.type == ConnectionType::INBOUND || c.type == ConnectionType::OUTBOUND_FULL_RELAY || c.type == ConnectionType::MANUAL) && c.perm <= 1 && !c.blocksonly && !c.local;
    };
    // Address classes for the punishable single-message cases: "local" in the property means the node's own machine (loopback);
    // private, carrier-grade-NAT, unique-local, link-local, onion and I2P peers are other parties and must be discouraged like public ones.
    struct Addr { const char* ip; bool local; };
    const Addr ADDRS[] = {
        {"10.1.2.3", false}, {"192.168.1.5", false}, {"172.16.9.9", false}, {"100.64.1.1", false}, {"169.254.7.7", false}, {"fd00::1", false}, {"fe80::1", false},
        {"pg6mmjiyjmcrsslvykfwnntlaru7p5svn6y2ymmju6nubxndf4pscryd.onion", false}, {"udhdrtrcetjm5sxzskjyr5ztpeszydbh4dpl3pl4utgqqw2v4jna.b32.i2p", false},
        {"2001:4860:4860::8888", false}, {"::1", true}, {"127.8.8.8", true},
    };
    const std::vector<std::string> A_ADDR = {"block:badconnect", "block:mutated", "headers:badpow"};
    auto addr_stage = [&](std::vector<ConnectionType> types, std::vector<int> perms) {
        std::vector<Cfg> v;
        for (auto t : types) for (int p : perms) for (auto& a : ADDRS) { Cfg c{t, p, false, a.local, 1, &A_ADDR}; c.ip = a.ip; v.push_back(c); }
        return v;
    };
    if (!big) {
        stages.push_back({"address classes (RFC1918 x3, CGNAT, IPv4/IPv6 link-local, ULA, onion, I2P, public IPv6, ::1, 127.8.8.8): 1 message of {block:badconnect, block:mutated, headers:badpow}, {inbound, outbound-full-relay} without permissions",
                          addr_stage({ConnectionType::INBOUND, ConnectionType::OUTBOUND_FULL_RELAY}, {0})});
        // cheapest, most discriminating stages first: a deadline on a loaded machine then still leaves every oracle clause exercised
        stages.push_back({"all sequences of <= 2 messages, base alphabet, inbound peer without permissions", all(deep_quick, 2, &A_BASE)});
        stages.push_back({"1 message of {block:badconnect, headers:badpow, tx:script, tx:amount}, local address, -blocksonly=0",
                          all([&](const Cfg& c) { return c.local && !c.blocksonly; }, 1, &A_PUNISH)});
        stages.push_back({"1 message of {tx:valid, tx:amount, block:badconnect}, -blocksonly=1, both addresses",
                          all([&](const Cfg& c) { return c.blocksonly; }, 1, &A_TXPROBE)});
        stages.push_back({"1 message, base alphabet, non-local address, -blocksonly=0 (all 7 types x 5 permission sets except the depth-2 one)",
                          all([&](const Cfg& c) { return !c.local && !c.blocksonly && !deep_quick(c); }, 1, &A_BASE)});
    } else {
        // ordered by value per transition; a deadline ends the run after a completed stage or inside one (exhaustive=false)
        stages.push_back({"address classes (RFC1918 x3, CGNAT, IPv4/IPv6 link-local, ULA, onion, I2P, public IPv6, ::1, 127.8.8.8): 1 message of {block:badconnect, block:mutated, headers:badpow}, {inbound, outbound-full-relay, manual, block-relay-only, addr-fetch} x {none, noban}",
                          addr_stage({ConnectionType::INBOUND, ConnectionType::OUTBOUND_FULL_RELAY, ConnectionType::MANUAL, ConnectionType::BLOCK_RELAY, ConnectionType::ADDR_FETCH}, {0, 1})});
        stages.push_back({"1 message of the 4 extra kinds {tx:lowfee, tx:trailing, tx:premature, cmpct:badpow}, all 140 configurations", all([&](const Cfg&) { return true; }, 1, &A_EXTRA)});
        stages.push_back({"all sequences of <= 2 messages, base alphabet, non-local address, -blocksonly=0 (29 configurations: all but the depth-3 ones)",
                          all([&](const Cfg& c) { return !c.local && !c.blocksonly && !deep_big(c); }, 2, &A_BASE)});
        stages.push_back({"all sequences of <= 2 messages, base alphabet, local address or -blocksonly=1 (105 configurations)",
                          all([&](const Cfg& c) { return c.local || c.blocksonly; }, 2, &A_BASE)});
        stages.push_back({"all sequences of <= 3 messages, base alphabet, {inbound, outbound-full-relay, manual} x {none, noban}, non-local, -blocksonly=0",
                          all(deep_big, 3, &A_BASE)});
    }
    if (const char* d = getenv("C36_DEPTH")) for (auto& st : stages) for (auto& c : st.cfgs) c.depth = atoi(d);

    if (ThreadCount() != 1) {
        printf("HARNESS-ERROR property=C36 process is not single-threaded (%d threads), fork exploration is unsound\n", ThreadCount());
        return 2;
    }

    auto arm = [&] {
        w.fs = vx::ForkSim();
        auto& fs = w.fs;
        fs.max_depth = 4;
        fs.split_depth = 0; // configurations are divided among the workers
        fs.table_bits = big ? 21 : 16;
        fs.events = [&] { return w.Events(); };
        fs.apply = [&](const std::string& e) { w.Apply(e); };
        fs.key = [&] { return w.Key(); };
        fs.on_worker_start = [&](unsigned wk) {
            fs::path d = node.BlocksDir().parent_path() / ("w" + std::to_string(wk));
            node.RepointBlocksDir(d);
        };
    };

    if (!vx::ctx().replay.empty()) {
        arm();
        auto& fs = w.fs;
        for (auto& st : stages) for (auto& c : st.cfgs) { w.cfgs.push_back(c); w.cfgs.back().depth = 99; w.cfgs.back().alpha = &A_FULL; }
        for (auto& c : addr_stage({TYPES, TYPES + 7}, {0, 1, 2, 3, 4})) { w.cfgs.push_back(c); w.cfgs.back().depth = 99; w.cfgs.back().alpha = &A_FULL; }
        std::ifstream f(vx::ctx().replay);
        std::string line, hist;
        while (std::getline(f, line)) if (line.rfind("history: ", 0) == 0) hist = line.substr(9);
        fs.sh = new vx::ForkShared();
        fs.log_fd = 1;
        size_t pos = 0;
        while (pos < hist.size()) {
            size_t e = hist.find(" | ", pos);
            std::string ev = hist.substr(pos, e == std::string::npos ? std::string::npos : e - pos);
            fs.hist.push_back(ev);
            w.Apply(ev);
            printf("replay: %s -> disconnect=%d discouraged=%d mempool=%zu tip=%d\n", ev.c_str(), w.peer ? (int)w.peer->disconnect_flag() : -1,
                   w.peer ? (int)w.net->Discouraged(*w.peer) : -1, node.pool().size(), node.height());
            if (e == std::string::npos) break;
            pos = e + 3;
        }
        printf("replay done: reports=%d\n", (int)fs.sh->violations.load());
        return fs.sh->violations.load() ? 1 : 0;
    }

    uint64_t outcome[16] = {0};
    uint64_t n_cfg = 0;
    std::string done;
    int completed = 0;
    for (auto& st : stages) {
        if (vx::deadline_reached()) { E.exhaustive = false; break; }
        arm();
        w.cfgs = st.cfgs;
        if (st.cfgs.size() < 8) w.fs.split_depth = 1; // few configurations: the workers divide the first messages instead
        w.fs.run();
        for (int i = 0; i < 16; i++) outcome[i] += w.fs.sh->outcome_classes[i].load();
        if (w.fs.sh->deadline_hit.load()) { E.exhaustive = false; break; }
        n_cfg += st.cfgs.size();
        completed++;
        done += "[" + std::to_string(st.cfgs.size()) + " configurations: " + st.name + "] ";
    }

    auto join = [](const std::vector<std::string>& v) { std::string s; for (auto& a : v) s += a + " "; return s; };
    E.rule = "explicit-state search of the real PeerManager (fork per transition). state = (peer configuration, message history) - histories are not merged because "
             "PeerManagerImpl's internals are not observable; transition = one handshake (first event) or one P2P message followed by ProcessMessages/SendMessages "
             "rounds as the message-handler thread runs them; histories end when the node marks the peer for disconnection. configuration space: 7 connection types x "
             "permissions {none,noban,relay,forcerelay,download} x -blocksonly {0,1} x address {local 127.0.0.1, non-local 8.7.6.5} = 140, plus an address-class stage "
             "(12 addresses: private, CGNAT, link-local, ULA, onion, I2P, public IPv6, two loopbacks) for the punishable single messages; the space is explored in stages (a configuration that "
             "appears in two stages has its handshake state counted in both). "
             "stages completed: " + done;
    E.assume("regtest, in-memory LevelDBs, single-threaded node, synchronous validation signals, fixed mock time (no timeouts fire), one peer per history");
    E.assume("feeler connections receive the messages before their version message (the node disconnects a feeler itself when its version arrives)");
    E.assume("blocks/headers/cmpctblocks are deterministic functions of (current tip, kind); transactions are fixed spends of base-chain coinbases");
    E.set_str("alphabet_base", join(A_BASE));
    if (big) E.set_str("alphabet_full", join(A_FULL));
    E.set("configurations_completed", n_cfg);
    E.set("stages_completed", (uint64_t)completed);
    E.set("stages_planned", (uint64_t)stages.size());
    E.set("max_messages", (uint64_t)(big ? 3 : 2));
    E.sample("CFG:inbound:none:blocksonly=0:remote | tx:orphan | tx:valid  (orphan reconsidered and rejected, peer stays)");
    E.sample("CFG:outbound-full-relay:none:blocksonly=0:remote | block:badconnect  (disconnected + discouraged)");
    E.sample("CFG:inbound:none:blocksonly=0:local | headers:badpow  (disconnected, not discouraged)");
    E.sample("CFG:manual:none:blocksonly=0:remote | block:mutated  (never punished)");
    E.sample("CFG:inbound:none:blocksonly=0:addr=192.168.1.5 | headers:badpow  (disconnected + discouraged: a private address is not local)");
    static const char* names[] = {"tx_accepted", "tx_rejected_unpunished", "punished_discouraged", "punished_local_not_discouraged", "protected_spared",
                                  "tx_forbidden_disconnect", "blockchecked_consensus", "blockchecked_invalid_header", "valid_block_connected", "orphan_kept",
                                  "orphan_reconsidered_rejected", "cmpct_invalid_not_punished", "cmpct_badpow_punished", "noncontinuous_punished", "ignored_connection_msgs",
                                  "mutated_punished"};
    bool gate_ok = true;
    for (int i = 0; i < 16; i++) {
        E.set(std::string("outcome_") + names[i], outcome[i]);
        bool required = i != O_CMPCT_INVALID_NOT_PUNISHED && i != O_CMPCT_BADPOW_PUNISHED && i != O_NONCONT_PUNISHED;
        if (getenv("C36_DEPTH")) required = false;
        if (required && outcome[i] == 0 && E.exhaustive) {
            printf("HARNESS-ERROR property=C36 outcome class '%s' never occurred: the exploration is vacuous for it\n", names[i]);
            gate_ok = false;
        }
    }
    int rc = vx::finish();
    if (!gate_ok && rc == 0) return 2;
    return rc;
}
