// C14 — Parallel validation gives the same results as serial validation, without races.
// VX-SCHED: all schedules with <= k preemptions of
//  (a) the real CCheckQueue (header-only, instrumented in this TU): master + W workers, every failing-check
//      position, one or two Add() calls, two consecutive Complete() rounds on the same queue, destructor.
//  (b) the real CoinsViewOverlay (coins.cpp compiled with the tsan-ABI shim) fetching prevouts on a ThreadPool.
#include <vx/sched.h>
#include <vx/tsanaux.h>
#include <checkqueue.h>
#include <coins.h>
#include <util/threadpool.h>
#include <primitives/block.h>
#include <primitives/transaction.h>
#include <logging.h>
#include <kits/chainkit.h>

// ------------------------------------------------------------------------------------------- (a) CCheckQueue
namespace a {
struct Shared {
    int ran[16];
};
struct Check {
    Shared* sh;
    int id;
    bool fail;
    std::optional<int> operator()()
    {
        sh->ran[id]++;
        return fail ? std::optional<int>(id) : std::nullopt;
    }
};
struct Config {
    int workers, batch, n1;
    unsigned fail1; // bitmask over n1 checks
    int split1;     // Add() first split1 checks, then the rest (0 = one call)
    int n2;
    unsigned fail2;
    std::string str() const
    {
        return "workers=" + std::to_string(workers) + " batch=" + std::to_string(batch) + " n1=" + std::to_string(n1) + " fail1=" + std::to_string(fail1) + " split1=" + std::to_string(split1) + " n2=" + std::to_string(n2) + " fail2=" + std::to_string(fail2);
    }
};
static uint64_t g_outcome;
static std::string Body(const Config& c)
{
    Shared sh{};
    std::string err;
    {
        CCheckQueue<Check> q(c.batch, c.workers);
        auto round = [&](int base, int n, unsigned failmask, int split, const char* name) {
            std::vector<Check> v1, v2;
            for (int i = 0; i < n; i++) (split && i >= split ? v2 : v1).push_back(Check{&sh, base + i, (failmask >> i & 1) != 0});
            q.Add(std::move(v1));
            if (!v2.empty()) q.Add(std::move(v2));
            std::optional<int> r = q.Complete();
            bool any_fail = failmask != 0;
            if (r.has_value() != any_fail) err += std::string(name) + ": Complete() returned " + (r ? "an error" : "success") + " but " + (any_fail ? "a check fails" : "no check fails") + "; ";
            if (r.has_value() && !(*r >= base && *r < base + n && (failmask >> (*r - base) & 1))) err += std::string(name) + ": returned error id " + std::to_string(*r) + " is not one of the failing checks; ";
            for (int i = 0; i < n; i++) {
                if (sh.ran[base + i] > 1) err += std::string(name) + ": check " + std::to_string(i) + " ran twice; ";
                if (!any_fail && sh.ran[base + i] != 1) err += std::string(name) + ": check " + std::to_string(i) + " did not run although nothing failed; ";
            }
            g_outcome = g_outcome * 31 + (r ? *r + 1 : 0);
            for (int i = 0; i < n; i++) g_outcome = g_outcome * 3 + sh.ran[base + i];
        };
        g_outcome = 7;
        round(0, c.n1, c.fail1, c.split1, "round1");
        if (c.n2) round(8, c.n2, c.fail2, 0, "round2");
    } // destructor joins the workers
    return err;
}
} // namespace a

// ------------------------------------------------------------------------------------------- (b) CoinsViewOverlay
namespace b {
static uint64_t g_outcome;
static COutPoint OP(int i) { return COutPoint(Txid::FromUint256(uint256{(uint8_t)(i + 1)}), 0); }
static Coin MkCoin(int i) { return Coin(CTxOut(1000 + i, CScript() << OP_TRUE), 10 + i, false); }
struct Config {
    int workers;
    int variant; // which block shape
    int access;  // 0: in order, 1: reverse order, 2: only the last
    std::string str() const { return "workers=" + std::to_string(workers) + " block_variant=" + std::to_string(variant) + " access=" + std::to_string(access); }
};
static std::string Body(const Config& c)
{
    std::string err;
    // base cache with coins 0..2 (coin 3.. missing)
    CCoinsViewCache base(&CoinsViewEmpty::Get(), /*deterministic=*/true);
    for (int i = 0; i < 3; i++) base.AddCoin(OP(i), MkCoin(i), false);
    size_t base_size = base.GetCacheSize();
    size_t base_usage = base.DynamicMemoryUsage();
    // block
    CBlock block;
    CMutableTransaction cb;
    cb.vin.resize(1);
    cb.vin[0].prevout.SetNull();
    cb.vout.emplace_back(1, CScript() << OP_TRUE);
    block.vtx.push_back(MakeTransactionRef(cb));
    std::vector<COutPoint> ins;
    CMutableTransaction t1;
    if (c.variant == 0) { ins = {OP(0), OP(1), OP(5)}; }       // present, present, missing
    else if (c.variant == 1) { ins = {OP(2), OP(0)}; }         // two present
    else { ins = {OP(1), OP(6), OP(2)}; }                      // missing in the middle
    for (auto& o : ins) t1.vin.emplace_back(o);
    t1.vout.emplace_back(5, CScript() << OP_TRUE);
    block.vtx.push_back(MakeTransactionRef(t1));
    if (c.variant == 1) {
        // second tx spends an output created earlier in the block and duplicates a prevout of tx1
        CMutableTransaction t2;
        t2.vin.emplace_back(COutPoint(block.vtx[1]->GetHash(), 0));
        t2.vin.emplace_back(OP(1));
        t2.vout.emplace_back(3, CScript() << OP_TRUE);
        block.vtx.push_back(MakeTransactionRef(t2));
        ins.push_back(COutPoint(block.vtx[1]->GetHash(), 0));
        ins.push_back(OP(1));
    }
    g_outcome = 11;
    {
        auto pool = std::make_shared<ThreadPool>("vx");
        pool->Start(c.workers);
        {
            CoinsViewOverlay overlay(&base, pool);
            {
                auto guard = overlay.StartFetching(block);
                std::vector<size_t> order;
                for (size_t i = 0; i < ins.size(); i++) order.push_back(i);
                if (c.access == 1) std::reverse(order.begin(), order.end());
                if (c.access == 2) order = {ins.size() - 1};
                for (size_t k : order) {
                    const COutPoint& op = ins[k];
                    std::optional<Coin> want = base.PeekCoin(op);
                    std::optional<Coin> got = overlay.GetCoin(op);
                    bool same = want.has_value() == got.has_value() && (!want || (want->out == got->out && want->nHeight == got->nHeight && want->fCoinBase == got->fCoinBase));
                    if (!same) err += "overlay.GetCoin(input " + std::to_string(k) + ") differs from base.PeekCoin; ";
                    g_outcome = g_outcome * 5 + (got ? 1 + got->out.nValue % 3 : 0);
                }
            }
            if (base.GetCacheSize() != base_size) err += "base cache size changed by fetching; ";
            if (base.DynamicMemoryUsage() != base_usage) err += "base cache memory usage changed by fetching; ";
        }
        pool->Stop();
    }
    return err;
}
} // namespace b


// ------------------------------------------------------------------------------------------- (d) configuration sweep
// Real ConnectBlock through ProcessNewBlock for every (script-check workers, prevout-fetch workers) configuration:
// verdict, validation result category, tip and UTXO digest must equal the serial (0,0) configuration. Threads run
// free here (OS scheduling): this part is exhaustive over *configurations*, not over schedules.
namespace d {
struct Obs { std::string s; };
static std::string RunConfig(int workers, int fetchers, uint64_t& n_blocks)
{
    using namespace ck;
    NodeOpts o;
    o.worker_threads = workers;
    o.prevoutfetch_threads = fetchers;
    Node n(o);
    RefLedger L;
    L.AddGenesis(Params().GenesisBlock());
    SetMockTime(Params().GenesisBlock().nTime + 600 * 100000);
    MineEmpty(n, L, 130); // >= 30 mature coinbases: every block of both passes spends coinbases only
    std::string obs;
    auto coins_at = [&](const uint256& tip) {
        std::vector<std::pair<COutPoint, RefCoin>> v;
        auto u = L.UtxoAt(tip);
        int h = L.Height(tip) + 1;
        for (auto& [op, c] : *u) if (c.spk == OpTrueSpk() && (!c.coinbase || h - c.height >= 100)) v.push_back({op, c});
        std::sort(v.begin(), v.end(), [](auto& a, auto& b) { return a.second.height != b.second.height ? a.second.height < b.second.height : a.first < b.first; });
        return v;
    };
    // bad = index of the tx with the failing script (-1: none), ntx transactions with 1-3 inputs each
    // cached = 1: the valid transactions were accepted to the mempool first, so ConnectBlock finds them in the script
    // execution cache and has no checks to queue for them; only the failing transaction's scripts reach the workers
    for (int cached = 0; cached < 2; cached++)
    for (int bad = -1; bad < 4; bad++) {
        uint256 tip = n.tip()->GetBlockHash();
        auto coins = coins_at(tip);
        std::vector<CTransactionRef> txs;
        size_t ci = 0;
        for (int t = 0; t < 4 && ci + 3 <= coins.size(); t++) {
            std::vector<TxIn> ins;
            CAmount total = 0;
            int nin = 1 + t % 3;
            for (int k = 0; k < nin; k++, ci++) { ins.push_back({coins[ci].first, 0xffffffff, !(t == bad && k == nin - 1)}); total += coins[ci].second.value; }
            if (cached) txs.push_back(MakeTransactionRef(MakeTx(ins, {{total - 1000, OpTrueSpk()}})));   // no dust output: must pass mempool policy
            else txs.push_back(MakeTransactionRef(MakeTx(ins, {{total - 1000, OpTrueSpk()}, {0, OpTrueSpk()}})));
            if (cached && t != bad) {
                auto res = n.SubmitTx(txs.back());
                bool in_pool = res.m_result_type == MempoolAcceptResult::ResultType::VALID || res.m_state.GetRejectReason() == "txn-already-in-mempool";
                if (!in_pool) obs += "[HARNESS could not pre-accept tx " + std::to_string(t) + ": " + res.m_state.ToString() + "] ";
            }
        }
        BlockOpts bo;
        bo.fees = 1000 * (CAmount)txs.size();
        bo.extra_nonce = bad + 2 + 10 * cached;
        CBlock b = MakeBlock(n, n.tip(), txs, bo);
        BlockResult r = n.ProcessBlock(b);
        n_blocks++;
        bool active = n.tip()->GetBlockHash() == b.GetHash();
        if (active) L.Add(b);
        uint64_t dig = 0;
        for (auto& [op, c] : n.UtxoByCursor()) { dig = dig * 1000003 + op.hash.ToUint256().GetUint64(0) + op.n; dig = dig * 31 + (uint64_t)c.out.nValue + c.nHeight * 2 + c.fCoinBase; }
        obs += std::string(cached ? "cached " : "") + "bad=" + std::to_string(bad) + " valid=" + std::to_string(r.valid) + " result=" + std::to_string((int)r.result) + " active=" + std::to_string(active) + " utxo=" + std::to_string(dig) + "; ";
        // the serial expectation, independent of any run: valid iff bad == -1
        if ((bad == -1) != active) obs += "[UNEXPECTED verdict] ";
    }
    return obs;
}
} // namespace d


int main(int argc, char** argv)
{
    vx::init(argc, argv, "C14", "model_checking", 150, 1500);
    auto& E = vx::ev();
    bool big = vx::thorough();
    const int bound = big ? 3 : 2;
    uint64_t total_exec = 0, total_points = 0, configs = 0;
    int distinct = 0;
    bool complete = true, herr = false;
    std::string part = vx::ctx().args.empty() ? "" : vx::ctx().args[0];
    // (d) first: it creates real worker threads, which must be gone before the fork-based schedule search starts
    if (vx::ctx().replay.empty() && (part.empty() || part == "d")) {
        vx::scratch_dir();
        std::vector<int> ws = big ? std::vector<int>{0, 1, 2, 3, 4, 8, 16} : std::vector<int>{0, 1, 4};
        std::vector<int> fs = big ? std::vector<int>{0, 1, 2, 4, 16} : std::vector<int>{0, 2};
        uint64_t n_blocks = 0, n_cfg = 0;
        std::string base = d::RunConfig(0, 0, n_blocks);
        if (base.find("[HARNESS") != std::string::npos) { printf("HARNESS-ERROR property=C14 %s\n", base.c_str()); return 2; }
        if (base.find("UNEXPECTED") != std::string::npos) vx::violation("C14d-serial-verdict", "serial configuration gives an unexpected verdict: " + base, base);
        for (int w : ws) for (int f : fs) {
            if (w == 0 && f == 0) continue;
            if (vx::elapsed() > 0.3 * vx::ctx().deadline_s) { complete = false; break; } // the sweep gets 30% of the tier budget
            std::string got = d::RunConfig(w, f, n_blocks);
            n_cfg++;
            if (got != base) vx::violation("C14d-config-differs[workers=" + std::to_string(w) + ",fetchers=" + std::to_string(f) + "]", "observations differ from the serial run: serial {" + base + "} parallel {" + got + "}", "workers " + std::to_string(w) + " fetchers " + std::to_string(f));
        }
        E.set("sweep_configurations", n_cfg + 1);
        E.set("sweep_blocks_connected", n_blocks);
        E.sample("config sweep (free-running threads): blocks with the failing script in tx -1(none),0,1,2,3, once with cold caches and once with the other transactions pre-accepted to the mempool (script-execution-cache hits), under workers x fetchers; serial observations: " + base.substr(0, 200));
    }

    LogInstance().DisableLogging();
    // (a)
    std::vector<a::Config> ca;
    for (int workers : big ? std::vector<int>{1, 2} : std::vector<int>{1})
        for (int batch : {1, 2})
            for (int n1 : big ? std::vector<int>{2, 3} : std::vector<int>{3})
                for (unsigned f = 0; f < (1u << n1); f++) {
                    if (!big && !(f == 0 || f == 1 || f == 2 || f == 4 || f == 5)) continue;
                    for (int split : {0, 1}) {
                        if (!big && split && f != 2 && f != 0) continue;
                        ca.push_back({workers, batch, n1, f, split, 2, f & 1 ? 0u : 2u});
                    }
                }
    // batches of more than one check only form when the queue is long relative to the number of threads
    // (nNow = min(batch, queue/(nTotal+nIdle+1))): master alone with 4 checks, and master + 1 worker with 6-8 checks
    for (unsigned f = 0; f < 16; f++) ca.insert(ca.begin() + f, {0, 2, 4, f, 0, 2, f & 1 ? 0u : 1u}); // cheap (single schedule): first
    for (unsigned f : big ? std::vector<unsigned>{0, 1, 2, 4, 8, 16, 32, 3, 6, 12, 24, 48, 33} : std::vector<unsigned>{0, 2, 8, 32, 12})
        ca.push_back({1, 2, 6, f, 0, 2, 0});
    if (big) for (unsigned f : {0u, 1u, 16u, 128u, 66u}) ca.push_back({1, 3, 8, f, 3, 2, 1});
    if (part.empty() || part == "a")
    for (auto& c : ca) {
        if (vx::deadline_reached()) { complete = false; break; }
        vxs::Options o;
        o.max_preempt = (c.workers == 2) ? std::min(bound, 2) : (c.n1 > 4 ? std::min(bound, 1 + (int)big) : bound);
        auto r = vxs::explore("C14a-checkqueue[" + c.str() + "]", [&] { return a::Body(c); }, o, [] { return a::g_outcome; });
        total_exec += r.executions; total_points += r.choice_points; configs++;
        distinct += r.distinct_outcomes;
        complete &= r.complete; herr |= r.harness_error;
        if (configs <= 3) E.sample("CCheckQueue " + c.str() + ": " + std::to_string(r.executions) + " schedules with <= " + std::to_string(o.max_preempt) + " preemptions, " + std::to_string(r.distinct_outcomes) + " distinct outcomes");
        if (r.violations) break;
    }
    // (b)
    std::vector<b::Config> cb;
    for (int workers : big ? std::vector<int>{1, 2} : std::vector<int>{1})
        for (int variant : {0, 1, 2})
            for (int access : {0, 1, 2}) {
                if (!big && access == 2 && variant != 0) continue;
                cb.push_back({workers, variant, access});
            }
    if (part.empty() || part == "b")
    for (auto& c : cb) {
        if (vx::deadline_reached()) { complete = false; break; }
        vxs::Options o;
        o.max_preempt = c.workers == 2 ? 1 : (big ? 2 : 1);
        auto r = vxs::explore("C14b-overlay[" + c.str() + "]", [&] { return b::Body(c); }, o, [] { return b::g_outcome; });
        total_exec += r.executions; total_points += r.choice_points; configs++;
        distinct += r.distinct_outcomes;
        complete &= r.complete; herr |= r.harness_error;
        if (configs % 4 == 0) E.sample("CoinsViewOverlay " + c.str() + ": " + std::to_string(r.executions) + " schedules with <= " + std::to_string(o.max_preempt) + " preemptions");
        if (r.violations) break;
    }
    if (vx::ctx().replay.empty() && (part.empty() || part == "e")) vx::RunTsanAux(argv[0], big ? 40 : 3, big ? 300 : 60, {"CCheckQueue", "CoinsViewOverlay", "ThreadPool", "CCoinsViewCache", "InputToFetch"}, "C14e");
    E.states += total_points;       // scheduler states visited (choice points reached)
    E.transitions += total_points;  // every step between two choice points is executed by the real code
    E.traces_validated += total_exec;
    E.set("schedules", total_exec);
    E.set("configurations", configs);
    E.set("preemption_bound", (uint64_t)bound);
    E.set("distinct_outcomes", (uint64_t)distinct);
    E.exhaustive = complete;
    E.rule = "every schedule of the harness threads with at most the stated number of deviations (preemption of a runnable thread / timeout firing early); scheduling points: pthread mutex/cond/create/join, futex wait/wake, and before+after every std::atomic operation of the instrumented code (checkqueue.h, coins.cpp, util/threadpool.h); sequentially consistent memory";
    E.assume("sequentially consistent interleavings only (weak-memory reorderings are out of scope of the scheduler)");
    if (herr) return 2;
    return vx::finish();
}
