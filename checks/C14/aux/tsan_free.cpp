// C14 auxiliary pass (NOT the deciding step): the same harness bodies as main.cpp parts (a) and (b), free-running
// under the real ThreadSanitizer runtime (no scheduler: a cooperative scheduler's hand-offs are happens-before edges
// that would blind the detector). Samples OS schedules; reports C++-memory-model races that are invisible under the
// sequentially consistent exhaustive search (e.g. a relaxed store where a release is needed).
// Built as a second binary (see build.mk AUX rule); main.cpp runs it and filters the reports.
#include <checkqueue.h>
#include <coins.h>
#include <util/threadpool.h>
#include <primitives/block.h>
#include <primitives/transaction.h>
#include <logging.h>
#include <cstdio>
#include <cstdlib>
#include <thread>

namespace a {
struct Shared { std::atomic<int> ran[16]; };
struct Check {
    Shared* sh; int id; bool fail;
    std::optional<int> operator()() { sh->ran[id]++; return fail ? std::optional<int>(id) : std::nullopt; }
};
static int Run(int workers, int batch, int n, unsigned failmask)
{
    Shared sh{};
    int bad = 0;
    {
        CCheckQueue<Check> q(batch, workers);
        for (int round = 0; round < 2; round++) {
            std::vector<Check> v;
            for (int i = 0; i < n; i++) v.push_back(Check{&sh, i, round == 0 && (failmask >> i & 1)});
            q.Add(std::move(v));
            auto r = q.Complete();
            bool any = round == 0 && failmask != 0;
            if (r.has_value() != any) bad++;
        }
    }
    return bad;
}
} // namespace a

namespace b {
static COutPoint OP(int i) { return COutPoint(Txid::FromUint256(uint256{(uint8_t)(i + 1)}), 0); }
static int Run(int workers, int nin)
{
    int bad = 0;
    CCoinsViewCache base(&CoinsViewEmpty::Get(), true);
    for (int i = 0; i < nin; i += 2) base.AddCoin(OP(i), Coin(CTxOut(1000 + i, CScript() << OP_TRUE), 10 + i, false), false);
    CBlock block;
    CMutableTransaction cb; cb.vin.resize(1); cb.vin[0].prevout.SetNull(); cb.vout.emplace_back(1, CScript() << OP_TRUE);
    block.vtx.push_back(MakeTransactionRef(cb));
    CMutableTransaction t1;
    for (int i = 0; i < nin; i++) t1.vin.emplace_back(OP(i));
    t1.vout.emplace_back(5, CScript() << OP_TRUE);
    block.vtx.push_back(MakeTransactionRef(t1));
    auto pool = std::make_shared<ThreadPool>("vx");
    pool->Start(workers);
    {
        CoinsViewOverlay overlay(&base, pool);
        {
            auto guard = overlay.StartFetching(block);
            for (int i = 0; i < nin; i++) {
                auto want = base.PeekCoin(OP(i));
                auto got = overlay.GetCoin(OP(i));
                if (want.has_value() != got.has_value() || (want && want->out != got->out)) bad++;
            }
        }
    }
    pool->Stop();
    return bad;
}
} // namespace b

int main(int argc, char** argv)
{
    int reps = argc > 1 ? atoi(argv[1]) : 50;
    LogInstance().DisableLogging();
    long runs = 0, bad = 0;
    for (int r = 0; r < reps; r++) {
        for (int workers : {1, 2, 4})
            for (int batch : {1, 2, 8})
                for (unsigned f : {0u, 1u, 1u << 5, 1u << 11, 0x21u}) { bad += a::Run(workers, batch, 12, f); runs++; }
        for (int workers : {1, 2, 4})
            for (int nin : {3, 8, 16}) { bad += b::Run(workers, nin); runs++; }
        printf("TSAN-FREE-RUN runs=%ld oracle_failures=%ld\n", runs, bad); // cumulative, after every repetition
        fflush(stdout);
    }
    printf("TSAN-FREE-RUN runs=%ld oracle_failures=%ld\n", runs, bad);
    return bad ? 3 : 0;
}
