LINK := full
SCHED := 1
CXXEXTRA := -fsanitize=thread
TSAN_SRCS := coins.cpp
