LINK := full
KITS := chainkit
SCHED := 1
CXXEXTRA := -fsanitize=thread
TSAN_SRCS := coins.cpp
AUX_TSAN := aux/tsan_free.cpp
