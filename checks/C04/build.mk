LINK := full
KITS := chainkit
