// C04 — Block transactions are bound to the header; mutations are detected, not blamed.
//
// (a) VX-ENUM: for every list length n = 1..N (N = 96 quick / 320 thorough): ComputeMerkleRoot, BlockMerkleRoot,
//     BlockWitnessMerkleRoot and TransactionMerklePath(pos) for EVERY position, against a textbook level-by-level
//     reference built on the generic double-SHA256; for every n and every tree level k whose node count is odd the
//     CVE-2012-2459 variants (implicit duplicates made explicit, and the duplicated last node) must give the SAME root
//     and mutated=true, the original list (distinct leaves) mutated=false; plus every list of length <= 7 over a
//     3-letter alphabet (aligned/unaligned equal neighbours at all levels).
// (b) single step: genuine block G (coinbase + segwit transactions, witness commitment); variants with the same header:
//     tail duplicated, witness stripped (one tx / all), every single witness byte altered (tx witness and coinbase
//     reserved value), coinbase witness resized, commitment altered, transactions swapped, dropped, unexpected witness
//     in a block without commitment, a 64-byte transaction in a coinbase-less block. CheckBlock/TestBlockValidity must
//     answer BLOCK_MUTATED, IsBlockMutated true; G: not mutated, valid. Compact-block reconstruction (FillBlock) with
//     a wrong transaction must answer READ_STATUS_FAILED (re-request), never a verdict on the header.
// (c) model checking over delivery histories: every sequence (with repetition) of length <= D over {G, header of G,
//     each variant} handed to ProcessNewBlock / ProcessNewBlockHeaders; every sequence gets its own fresh genuine block
//     on the current tip. Oracle after every delivery: the index entry of hash(G) never carries a BLOCK_FAILED flag, no
//     variant is ever stored (data on disk == G's transactions), G is accepted and becomes tip whenever delivered.
//     A second alphabet adds the witness-stuffed variants (weight > 4,000,000 only through ~4 MB of coinbase / transaction
//     witness: still 'mutated', never 'too heavy') to depth 2 (quick) / 3 (thorough).
#include <vx/vx.h>
#include <kits/chainkit.h>

#include <blockencodings.h>
#include <chainparams.h>
#include <consensus/merkle.h>
#include <consensus/validation.h>
#include <hash.h>
#include <node/blockstorage.h>
#include <streams.h>
#include <util/time.h>

// =============================================================================================== reference
namespace ref {
static uint256 H2(const uint256& a, const uint256& b) { return Hash(a, b); } // generic CHash256 (not the SHA256D64 fast path)

struct Tree {
    std::vector<std::vector<uint256>> levels; // levels[0] = leaves ... levels.back() = {root}
    bool equal_siblings{false};               // some explicit aligned pair (2i, 2i+1) of a level is equal
};
static Tree Build(const std::vector<uint256>& leaves)
{
    Tree t;
    t.levels.push_back(leaves);
    while (t.levels.back().size() > 1) {
        const auto& cur = t.levels.back();
        std::vector<uint256> up;
        for (size_t i = 0; i < cur.size(); i += 2) {
            if (i + 1 < cur.size()) {
                if (cur[i] == cur[i + 1]) t.equal_siblings = true;
                up.push_back(H2(cur[i], cur[i + 1]));
            } else up.push_back(H2(cur[i], cur[i])); // odd: the last node is paired with itself
        }
        t.levels.push_back(up);
    }
    return t;
}
static uint256 Root(const Tree& t) { return t.levels[0].empty() ? uint256() : t.levels.back()[0]; }
static std::vector<uint256> Path(const Tree& t, size_t pos)
{
    std::vector<uint256> p;
    for (size_t l = 0; l + 1 < t.levels.size(); l++) {
        size_t sib = pos ^ 1;
        p.push_back(sib < t.levels[l].size() ? t.levels[l][sib] : t.levels[l][pos]);
        pos >>= 1;
    }
    return p;
}
static uint256 Fold(uint256 leaf, const std::vector<uint256>& path, size_t pos)
{
    for (auto& s : path) { leaf = (pos & 1) ? H2(s, leaf) : H2(leaf, s); pos >>= 1; }
    return leaf;
}
} // namespace ref

static uint256 Leaf(uint64_t i) { HashWriter w; w << std::string("vx-c04-leaf") << i; return w.GetHash(); }

// list with the implicit duplicates of level k made explicit (last node of level k completed to 2^k leaves)
static std::vector<uint256> Complete(std::vector<uint256> l, int k)
{
    for (int j = 0; j < k; j++) {
        size_t blk = (size_t)1 << j;                 // nodes of level j cover blk leaves
        size_t nodes = (l.size() + blk - 1) / blk;   // (l is already complete below level j)
        if (nodes & 1) l.insert(l.end(), l.end() - blk, l.end());
    }
    return l;
}

struct EnumStats { std::atomic<uint64_t> evals{0}, mutated_true{0}, mutated_false{0}, paths{0}; vx::Distinct distinct; };

static void EnumMerkle(EnumStats& st, int N)
{
    vx::par_for(N, 1, [&](uint64_t lo, uint64_t hi, unsigned) {
        for (uint64_t n = lo + 1; n <= hi; n++) {
            std::vector<uint256> leaves;
            for (uint64_t i = 0; i < n; i++) leaves.push_back(Leaf(n * 1000 + i));
            ref::Tree t = ref::Build(leaves);
            bool mut = true;
            uint256 got = ComputeMerkleRoot(leaves, &mut);
            st.evals++;
            st.mutated_false++;
            if (got != ref::Root(t)) vx::violation("C04-root-mismatch", "ComputeMerkleRoot differs from the reference for n=" + std::to_string(n), "n " + std::to_string(n));
            if (mut) vx::violation("C04-false-mutation", "distinct leaves reported as mutated, n=" + std::to_string(n), "n " + std::to_string(n));
            if (ComputeMerkleRoot(leaves) != got) vx::violation("C04-root-depends-on-flag", "root differs when no mutation flag is requested, n=" + std::to_string(n), "n " + std::to_string(n));
            st.distinct.add("root:" + std::to_string(n));
            // CVE-2012-2459 variants, every level
            for (int k = 0; ((size_t)1 << k) < n * 2; k++) {
                size_t blk = (size_t)1 << k;
                std::vector<uint256> c = Complete(leaves, k);
                size_t nodes = (c.size() + blk - 1) / blk;
                std::vector<std::pair<std::string, std::vector<uint256>>> variants;
                if (c.size() != leaves.size()) variants.emplace_back("explicit-dups-below-level-" + std::to_string(k), c);
                if ((nodes & 1) && nodes > 1) { auto d = c; d.insert(d.end(), c.end() - blk, c.end()); variants.emplace_back("dup-last-node-level-" + std::to_string(k), d); }
                for (auto& [nm, v] : variants) {
                    bool m2 = false;
                    uint256 r2 = ComputeMerkleRoot(v, &m2);
                    st.evals++;
                    st.mutated_true++;
                    if (ref::Root(ref::Build(v)) != ref::Root(t)) { printf("HARNESS-ERROR C04 variant %s of n=%d does not keep the root\n", nm.c_str(), (int)n); exit(2); }
                    if (r2 != got) vx::violation("C04-variant-root", "variant " + nm + " of n=" + std::to_string(n) + " has a different root than the reference says", "n " + std::to_string(n) + " " + nm);
                    if (!m2) vx::violation("C04-mutation-missed:level" + std::to_string(k), "variant " + nm + " of n=" + std::to_string(n) + " (len " + std::to_string(v.size()) + ") has the same root but mutated=false", "n " + std::to_string(n) + " " + nm);
                    st.distinct.add("var:" + std::to_string(n) + ":" + nm);
                }
            }
            // block level: roots, witness root, every merkle path
            CBlock b;
            for (uint64_t i = 0; i < n; i++) {
                CMutableTransaction m;
                m.version = 2;
                m.vin.resize(1);
                if (i == 0) { m.vin[0].prevout.SetNull(); m.vin[0].scriptSig = CScript() << (int)n << OP_0; }
                else { m.vin[0].prevout = COutPoint(Txid::FromUint256(Leaf(i)), (uint32_t)n); if (i % 3) m.vin[0].scriptWitness.stack.push_back({(unsigned char)i, (unsigned char)(i >> 8), 7}); }
                m.vout.emplace_back((CAmount)(n * 1000 + i), CScript() << OP_TRUE);
                b.vtx.push_back(MakeTransactionRef(m));
            }
            std::vector<uint256> txids, wtxids;
            for (uint64_t i = 0; i < n; i++) { txids.push_back(b.vtx[i]->GetHash().ToUint256()); wtxids.push_back(i ? b.vtx[i]->GetWitnessHash().ToUint256() : uint256()); }
            ref::Tree tt = ref::Build(txids), tw = ref::Build(wtxids);
            bool bm = true;
            if (BlockMerkleRoot(b, &bm) != ref::Root(tt) || bm) vx::violation("C04-block-root", "BlockMerkleRoot wrong or mutated flag set, n=" + std::to_string(n), "n " + std::to_string(n));
            if (BlockWitnessMerkleRoot(b) != ref::Root(tw)) vx::violation("C04-witness-root", "BlockWitnessMerkleRoot differs from the reference, n=" + std::to_string(n), "n " + std::to_string(n));
            st.evals += 2;
            for (uint64_t pos = 0; pos < n; pos++) {
                auto p = TransactionMerklePath(b, pos);
                st.evals++;
                st.paths++;
                if (p != ref::Path(tt, pos)) vx::violation("C04-merkle-path", "TransactionMerklePath(n=" + std::to_string(n) + ", pos=" + std::to_string(pos) + ") differs from the reference siblings", "n " + std::to_string(n) + " pos " + std::to_string(pos));
                else if (ref::Fold(txids[pos], p, pos) != ref::Root(tt)) vx::violation("C04-merkle-path-fold", "path does not fold to the root", "n " + std::to_string(n) + " pos " + std::to_string(pos));
            }
            st.distinct.add("paths:" + std::to_string(n));
        }
    });
    // every list of length <= 7 over {A,B,C}
    const uint256 sym[3] = {Leaf(1), Leaf(2), Leaf(3)};
    for (int len = 1; len <= 7; len++) {
        int total = 1;
        for (int i = 0; i < len; i++) total *= 3;
        for (int code = 0; code < total; code++) {
            std::vector<uint256> l;
            std::string s;
            for (int i = 0, c = code; i < len; i++, c /= 3) { l.push_back(sym[c % 3]); s += (char)('A' + c % 3); }
            ref::Tree t = ref::Build(l);
            bool m = !t.equal_siblings;
            uint256 r = ComputeMerkleRoot(l, &m);
            st.evals++;
            (t.equal_siblings ? st.mutated_true : st.mutated_false)++;
            if (r != ref::Root(t)) vx::violation("C04-root-mismatch-small", "root of " + s, s);
            if (m != t.equal_siblings) vx::violation(std::string("C04-mutation-flag-small:") + (t.equal_siblings ? "missed" : "false-alarm"), "list " + s + ": mutated=" + std::to_string(m) + " but equal explicit siblings " + (t.equal_siblings ? "exist" : "do not exist"), s);
            st.distinct.add("small:" + s);
        }
    }
}

// =============================================================================================== genuine block + variants
struct Coins { COutPoint a, b; CAmount va{0}, vb{0}; };

struct Family {
    CBlock G;
    std::vector<std::pair<std::string, CBlock>> variants; // same header as G
};

static CScriptWitness FatWitness(int tag)
{
    // witness script: <data> OP_DROP OP_TRUE would need a committed script; keep the kit's OP_TRUE script and add no extra
    // items (P2WSH requires a clean stack) -> the only witness item is the script itself.
    (void)tag;
    return ck::OpTrueWitness();
}

static CBlock WithTxs(const CBlock& g, std::vector<CTransactionRef> vtx)
{
    CBlock b{static_cast<const CBlockHeader&>(g)};
    b.vtx = std::move(vtx);
    return b;
}

static const std::vector<std::string> OVERSIZED{"oversized/coinbase-witness-one-item", "oversized/coinbase-witness-many-items", "oversized/tx-witness-one-item", "oversized/tx-witness-many-items"};

// `oversized`: which of the ~4 MB variants to build (they cost a 4 MB hash each, so only on demand)
static Family MakeFamily(ck::Node& n, const CBlockIndex* prev, Coins& coins, int nonce, bool every_byte, const std::set<std::string>& oversized = {})
{
    Family f;
    // two independent segwit spends, each recreating one coin for the next family
    auto t1 = ck::SpendTx({coins.a}, {coins.va - 1000});
    auto t2 = ck::SpendTx({coins.b}, {coins.vb - 1000});
    ck::BlockOpts bo;
    bo.extra_nonce = nonce;
    bo.fees = 0;
    f.G = ck::MakeBlock(n, prev, {t1, t2}, bo);
    const CBlock& G = f.G;
    coins.a = COutPoint(t1->GetHash(), 0); coins.va -= 1000;
    coins.b = COutPoint(t2->GetHash(), 0); coins.vb -= 1000;
    auto strip = [](const CTransactionRef& t) { CMutableTransaction m(*t); for (auto& i : m.vin) i.scriptWitness.SetNull(); return MakeTransactionRef(m); };
    auto add = [&](const std::string& nm, std::vector<CTransactionRef> vtx) { f.variants.emplace_back(nm, WithTxs(G, std::move(vtx))); };
    // CVE-2012-2459: [cb,t1,t2] and [cb,t1,t2,t2] share the root
    add("dup-tail", {G.vtx[0], G.vtx[1], G.vtx[2], G.vtx[2]});
    add("strip-witness-t1", {G.vtx[0], strip(G.vtx[1]), G.vtx[2]});
    add("strip-witness-t2", {G.vtx[0], G.vtx[1], strip(G.vtx[2])});
    add("strip-witness-all-txs", {G.vtx[0], strip(G.vtx[1]), strip(G.vtx[2])});
    add("strip-coinbase-witness", {strip(G.vtx[0]), G.vtx[1], G.vtx[2]});
    {
        CMutableTransaction m(*G.vtx[0]);
        m.vin[0].scriptWitness.stack[0].push_back(0);               // 33-byte reserved value
        add("coinbase-witness-33-bytes", {MakeTransactionRef(m), G.vtx[1], G.vtx[2]});
        CMutableTransaction m2(*G.vtx[0]);
        m2.vin[0].scriptWitness.stack.push_back(std::vector<unsigned char>(32, 0)); // two items
        add("coinbase-witness-two-items", {MakeTransactionRef(m2), G.vtx[1], G.vtx[2]});
    }
    // one witness byte altered
    auto alter = [&](size_t txi, size_t item, size_t byte, const std::string& nm) {
        CMutableTransaction m(*G.vtx[txi]);
        m.vin[0].scriptWitness.stack[item][byte] ^= 0x01;
        std::vector<CTransactionRef> v = G.vtx;
        v[txi] = MakeTransactionRef(m);
        add(nm, v);
    };
    if (every_byte) {
        for (size_t txi = 0; txi < G.vtx.size(); txi++)
            for (size_t it = 0; it < G.vtx[txi]->vin[0].scriptWitness.stack.size(); it++)
                for (size_t by = 0; by < G.vtx[txi]->vin[0].scriptWitness.stack[it].size(); by++)
                    alter(txi, it, by, "witness-byte/tx" + std::to_string(txi) + "/item" + std::to_string(it) + "/byte" + std::to_string(by));
    } else {
        alter(1, 0, 0, "witness-byte/tx1");
        alter(0, 0, 31, "witness-byte/coinbase-reserved-value");
    }
    {
        // extra witness item on t1 (same txid)
        CMutableTransaction m(*G.vtx[1]);
        m.vin[0].scriptWitness.stack.insert(m.vin[0].scriptWitness.stack.begin(), std::vector<unsigned char>{1});
        add("witness-extra-item-t1", {G.vtx[0], MakeTransactionRef(m), G.vtx[2]});
    }
    {
        // commitment altered (changes the coinbase txid: header no longer matches)
        CMutableTransaction m(*G.vtx[0]);
        int idx = GetWitnessCommitmentIndex(G);
        m.vout[idx].scriptPubKey[10] ^= 0x01;
        add("commitment-altered", {MakeTransactionRef(m), G.vtx[1], G.vtx[2]});
    }
    add("swap-t1-t2", {G.vtx[0], G.vtx[2], G.vtx[1]});
    add("drop-t2", {G.vtx[0], G.vtx[1]});
    add("drop-coinbase", {G.vtx[1], G.vtx[2]});
    // weight above MAX_BLOCK_WEIGHT only through witness data, which is not covered by the block hash: such a variant is
    // malleated (reserved value / commitment mismatch), never "the block is too heavy"
    for (auto& nm : oversized) {
        bool cb = nm.find("coinbase") != std::string::npos, many = nm.find("many") != std::string::npos;
        size_t txi = cb ? 0 : 1;
        CMutableTransaction m(*G.vtx[txi]);
        auto& st = m.vin[0].scriptWitness.stack;
        if (cb) {
            if (many) st.insert(st.end(), 40000, std::vector<unsigned char>(100, 0x00));   // 32-byte value first, then 40,000 more items
            else st[0].resize(4000000, 0x00);                                               // one item, first 32 bytes unchanged
        } else {
            if (many) st.insert(st.begin(), 40000, std::vector<unsigned char>(100, 0x00));
            else st.insert(st.begin(), std::vector<unsigned char>(4000000, 0x00));
        }
        std::vector<CTransactionRef> v = G.vtx;
        v[txi] = MakeTransactionRef(m);
        add(nm, v);
        const CBlock& ob = f.variants.back().second;
        if (GetBlockWeight(ob) <= MAX_BLOCK_WEIGHT || ::GetSerializeSize(TX_NO_WITNESS(ob)) != ::GetSerializeSize(TX_NO_WITNESS(G)) || ob.GetHash() != G.GetHash() || ob.m_checked_witness_commitment || ob.fChecked) {
            printf("HARNESS-ERROR C04 oversized variant %s is not 'same header, same stripped size, weight above the limit, fresh flags'\n", nm.c_str());
            exit(2);
        }
    }
    return f;
}

struct Obs { bool index{false}, have_data{false}, failed{false}, tip{false}; std::string disk; };
static Obs Observe(ck::Node& n, const CBlock& G)
{
    Obs o;
    const uint256 h = G.GetHash();
    LOCK(cs_main);
    const CBlockIndex* pi = n.chainman().m_blockman.LookupBlockIndex(h);
    o.index = pi != nullptr;
    if (pi) {
        o.have_data = pi->nStatus & BLOCK_HAVE_DATA;
        o.failed = pi->nStatus & (BLOCK_FAILED_VALID | BLOCK_FAILED_CHILD);
        o.tip = n.chainman().ActiveChain().Tip() == pi;
        if (o.have_data) {
            CBlock rd;
            if (!n.chainman().m_blockman.ReadBlock(rd, *pi)) o.disk = "unreadable";
            else {
                bool same = rd.vtx.size() == G.vtx.size();
                for (size_t i = 0; same && i < rd.vtx.size(); i++) same = rd.vtx[i]->GetWitnessHash() == G.vtx[i]->GetWitnessHash();
                o.disk = same ? "genuine" : "variant";
            }
        }
    }
    return o;
}

int main(int argc, char** argv)
{
    vx::init(argc, argv, "C04", "model_checking", 150, 1500);
    vx::scratch_dir();
    auto& E = vx::ev();
    const bool big = vx::thorough();
    bool bad = false;
    std::string replay_seq;
    if (!vx::ctx().replay.empty()) {
        std::ifstream f(vx::ctx().replay);
        std::string line;
        while (std::getline(f, line)) {
            if (line.rfind("sequence: ", 0) == 0) replay_seq = line.substr(10);
            else if (line.size() && line[0] != '#') printf("replay note: %s\n", line.c_str());
        }
    }
    // ---------------------------------------------------------------- (a)
    EnumStats st;
    if (replay_seq.empty()) {
        EnumMerkle(st, big ? 320 : 96);
        E.evaluations = st.evals.load();
        if (!st.mutated_true || !st.mutated_false || !st.paths) { printf("HARNESS-ERROR C04 enumeration lacks an outcome class\n"); bad = true; }
        E.sample("enum: lists with mutated=true expected " + std::to_string(st.mutated_true.load()) + ", mutated=false expected " + std::to_string(st.mutated_false.load()) + ", merkle paths " + std::to_string(st.paths.load()));
    }
    // ---------------------------------------------------------------- node
    ck::NodeOpts o;
    o.min_validation_cache = true;
    o.check_block_index = !big; // the sequence phase of the thorough tier builds a chain of several thousand blocks
    ck::Node node(o);
    ck::RefLedger L;
    L.AddGenesis(Params().GenesisBlock());
    SetMockTime(Params().GenesisBlock().nTime + 600 * 1000000);
    ck::MineEmpty(node, L, 101);
    Coins coins;
    {
        const CBlock& b1 = L.blocks.at(L.Chain(node.tip()->GetBlockHash())[1]).block;
        auto f = ck::SpendTx({COutPoint(b1.vtx[0]->GetHash(), 0)}, {20 * COIN, 20 * COIN, 10 * COIN - 1000});
        CBlock fb = ck::MakeBlock(node, node.tip(), {f});
        if (!node.ProcessBlock(fb).pnb_ret || node.tip()->GetBlockHash() != fb.GetHash()) { printf("HARNESS-ERROR C04 funding block rejected\n"); return 2; }
        coins.a = COutPoint(f->GetHash(), 0); coins.va = 20 * COIN;
        coins.b = COutPoint(f->GetHash(), 1); coins.vb = 20 * COIN;
    }
    int nonce = 1;
    uint64_t single_cases = 0;
    std::set<std::string> reasons;
    // ---------------------------------------------------------------- (b) single step
    if (replay_seq.empty()) {
        Family f = MakeFamily(node, node.tip(), coins, nonce++, /*every_byte=*/true, std::set<std::string>(OVERSIZED.begin(), OVERSIZED.end()));
        auto check_variant = [&](const std::string& nm, const CBlock& v, bool segwit_commitment_block) {
            single_cases++;
            std::string key = nm.substr(0, nm.find('/'));
            { CBlock c = v; if (!IsBlockMutated(c, true)) vx::violation("C04-isblockmutated-missed:" + key, "IsBlockMutated(check_witness_root=true) is false for variant " + nm, "variant " + nm); }
            BlockValidationState s;
            { CBlock c = v; LOCK(cs_main); s = TestBlockValidity(node.cs(), c, true, true); }
            if (s.IsValid()) vx::violation("C04-variant-valid:" + key, "TestBlockValidity accepts variant " + nm, "variant " + nm);
            else if (s.GetResult() != BlockValidationResult::BLOCK_MUTATED) {
                // variants without a coinbase first are allowed to fail for that reason before any mutation check matters
                if (!(key == "drop-coinbase")) vx::violation("C04-variant-not-mutated-result:" + key, "variant " + nm + " is rejected with result " + std::to_string((int)s.GetResult()) + " (" + s.GetRejectReason() + ") instead of BLOCK_MUTATED", "variant " + nm);
            }
            reasons.insert(s.GetRejectReason());
            (void)segwit_commitment_block;
            E.evaluations += 2;
        };
        { CBlock c = f.G; if (IsBlockMutated(c, true)) vx::violation("C04-genuine-reported-mutated", "IsBlockMutated is true for the genuine block", "genuine"); }
        { CBlock c = f.G; LOCK(cs_main); auto s = TestBlockValidity(node.cs(), c, true, true); if (!s.IsValid()) vx::violation("C04-genuine-invalid", "TestBlockValidity rejects the genuine block: " + s.GetRejectReason(), "genuine"); }
        for (auto& [nm, v] : f.variants) check_variant(nm, v, true);
        // block without commitment but with witness data
        {
            CBlock e = ck::MakeBlock(node, node.tip(), {}, {.extra_nonce = 77});
            CMutableTransaction m(*e.vtx[0]);
            m.vin[0].scriptWitness.stack.push_back(std::vector<unsigned char>(32, 0));
            CBlock v = WithTxs(e, {MakeTransactionRef(m)});
            check_variant("unexpected-witness", v, false);
        }
        // 64-byte transaction in a block without coinbase (an inner node presented as a transaction)
        {
            CMutableTransaction m;
            m.version = 2;
            m.vin.emplace_back(COutPoint(Txid::FromUint256(Leaf(64)), 0), CScript(), 0xffffffff);
            m.vout.emplace_back(1, CScript() << OP_TRUE << OP_TRUE << OP_TRUE << OP_TRUE);
            auto t64 = MakeTransactionRef(m);
            if (GetSerializeSize(TX_NO_WITNESS(*t64)) != 64) { printf("HARNESS-ERROR C04 64-byte tx has %d bytes\n", (int)GetSerializeSize(TX_NO_WITNESS(*t64))); return 2; }
            CBlock v;
            v = CBlock{static_cast<const CBlockHeader&>(ck::MakeBlock(node, node.tip(), {}, {.extra_nonce = 78}))};
            v.vtx = {t64};
            v.hashMerkleRoot = BlockMerkleRoot(v);
            ck::Grind(v, Params().GetConsensus());
            single_cases++;
            if (!IsBlockMutated(v, true)) vx::violation("C04-isblockmutated-missed:64-byte-tx", "IsBlockMutated is false for a coinbase-less block with a 64-byte transaction", "variant 64-byte");
            CMutableTransaction m65(m);
            m65.vout[0].scriptPubKey << OP_TRUE;
            CBlock v65 = v;
            v65.vtx = {MakeTransactionRef(m65)};
            v65.hashMerkleRoot = BlockMerkleRoot(v65);
            if (IsBlockMutated(v65, true)) vx::violation("C04-isblockmutated-false-alarm:65-byte-tx", "IsBlockMutated is true for a coinbase-less block whose only transaction has 65 bytes and a matching merkle root", "variant 65-byte");
            auto r = node.ProcessBlock(v, true);
            if (node.tip()->GetBlockHash() == v.GetHash() || (r.checked && r.valid)) vx::violation("C04-64-byte-block-accepted", "coinbase-less block accepted", "variant 64-byte");
            if (const CBlockIndex* pi = node.index_of(v.GetHash()); pi && (pi->nStatus & ((BLOCK_FAILED_VALID | BLOCK_FAILED_CHILD) | BLOCK_HAVE_DATA))) vx::violation("C04-64-byte-block-recorded", "coinbase-less 64-byte block left a failed/stored index entry", "variant 64-byte");
            E.evaluations += 4;
        }
        // compact block reconstruction
        {
            CBlockHeaderAndShortTxIDs cmpct(f.G, /*nonce=*/42);
            auto strip = [](const CTransactionRef& t) { CMutableTransaction m(*t); for (auto& i : m.vin) i.scriptWitness.SetNull(); return MakeTransactionRef(m); };
            struct FB { std::string nm; std::vector<CTransactionRef> missing; ReadStatus want; };
            std::vector<FB> fbs{
                {"exact", {f.G.vtx[1], f.G.vtx[2]}, READ_STATUS_OK},
                {"t1-stripped", {strip(f.G.vtx[1]), f.G.vtx[2]}, READ_STATUS_FAILED},
                {"swapped", {f.G.vtx[2], f.G.vtx[1]}, READ_STATUS_FAILED},
                {"t2-twice", {f.G.vtx[2], f.G.vtx[2]}, READ_STATUS_FAILED},
                {"too-few", {f.G.vtx[1]}, READ_STATUS_INVALID},
                {"too-many", {f.G.vtx[1], f.G.vtx[2], f.G.vtx[2]}, READ_STATUS_INVALID},
            };
            for (auto& fb : fbs) {
                PartiallyDownloadedBlock pdb(&node.pool());
                ReadStatus init = pdb.InitData(cmpct, {});
                if (init != READ_STATUS_OK) { printf("HARNESS-ERROR C04 InitData failed\n"); return 2; }
                CBlock out;
                ReadStatus got = pdb.FillBlock(out, fb.missing, /*segwit_active=*/true);
                E.evaluations++;
                single_cases++;
                if (got != fb.want) vx::violation("C04-fillblock:" + fb.nm, "FillBlock returned " + std::to_string((int)got) + ", expected " + std::to_string((int)fb.want) + " (0 OK, 1 INVALID, 2 FAILED)", "fillblock " + fb.nm);
                if (got == READ_STATUS_OK && out.GetHash() != f.G.GetHash()) vx::violation("C04-fillblock-wrong-block", "reconstructed block differs", "fillblock " + fb.nm);
            }
        }
        // finally deliver G so the chain (and the coin chain) advances
        auto r = node.ProcessBlock(f.G, true);
        if (node.tip()->GetBlockHash() != f.G.GetHash()) vx::violation("C04-genuine-rejected:single", "genuine block not accepted after the single-step checks: " + r.reason, "genuine");
        for (const char* need : {"bad-txns-duplicate", "bad-witness-merkle-match", "bad-witness-nonce-size", "bad-txnmrklroot", "unexpected-witness"})
            if (!reasons.count(need)) { printf("HARNESS-ERROR C04 mutation class %s never produced\n", need); bad = true; }
        E.set("single_step_variants", single_cases);
    }
    // ---------------------------------------------------------------- (c) delivery histories
    std::vector<std::string> alphabet{"G", "H", "dup-tail", "strip-witness-t1", "strip-witness-all-txs", "strip-coinbase-witness", "witness-byte/tx1", "witness-byte/coinbase-reserved-value",
                                      "coinbase-witness-33-bytes", "commitment-altered", "swap-t1-t2"};
    const int D = big ? 5 : 3;
    vx::Distinct states;
    uint64_t sequences = 0, g_deliveries = 0, variant_deliveries = 0, variant_before_genuine = 0, oversized_deliveries = 0, oversized_before_genuine = 0;
    // second alphabet: the ~4 MB witness-stuffed variants (expensive to build, so explored to a smaller depth)
    std::vector<std::string> alphabet_oversized{"G", "H"};
    for (auto& o : OVERSIZED) alphabet_oversized.push_back(o);
    alphabet_oversized.push_back("strip-witness-t1");
    const int DO = big ? 3 : 2;
    std::vector<std::string>* cur_alphabet = &alphabet;
    auto run_sequence = [&](const std::vector<int>& seq) {
        std::set<std::string> need;
        for (int i : seq) if ((*cur_alphabet)[i].rfind("oversized/", 0) == 0) need.insert((*cur_alphabet)[i]);
        Family f = MakeFamily(node, node.tip(), coins, nonce++, false, need);
        const uint256 before_tip = node.tip()->GetBlockHash();
        std::string hist;
        bool g_delivered = false;
        auto report = [&](const std::string& key, const std::string& what) { vx::violation(key, what + " [sequence: " + hist + "]", "sequence: " + hist); };
        auto step = [&](const std::string& ev) {
            hist += (hist.empty() ? "" : " | ") + ev;
            E.transitions++;
            E.traces_validated++;
            if (ev == "G") {
                g_deliveries++;
                auto r = node.ProcessBlock(f.G, true);
                g_delivered = true;
                Obs o = Observe(node, f.G);
                if (!o.tip) report("C04-genuine-not-tip:after-" + std::string(hist.find('|') == std::string::npos ? "nothing" : "variants"), "genuine block delivered but not the tip (" + r.reason + ")");
            } else if (ev == "H") {
                BlockValidationState s;
                if (!node.ProcessHeader(static_cast<const CBlockHeader&>(f.G), s)) report("C04-genuine-header-rejected", "header of the genuine block rejected: " + s.GetRejectReason());
            } else {
                variant_deliveries++;
                if (!g_delivered) variant_before_genuine++;
                if (ev.rfind("oversized/", 0) == 0) { oversized_deliveries++; if (!g_delivered) oversized_before_genuine++; }
                const CBlock* v = nullptr;
                for (auto& [nm, b] : f.variants) if (nm == ev) v = &b;
                if (!v) throw std::logic_error("unknown variant " + ev);
                auto r = node.ProcessBlock(*v, true);
                if (r.checked && r.valid) report("C04-variant-reported-valid:" + ev.substr(0, ev.find('/')), "variant " + ev + " reported valid");
                if (r.new_block && g_delivered) report("C04-variant-new-block", "variant " + ev + " reported as a new block after the genuine one was stored");
            }
            Obs o = Observe(node, f.G);
            std::string last = ev.rfind("oversized/", 0) == 0 ? ev : ev.substr(0, ev.find('/'));
            if (o.failed) report("C04-genuine-hash-marked-failed:after-" + last, "index entry of the genuine block's hash carries a FAILED flag");
            if (o.have_data && !g_delivered) report("C04-variant-stored:" + last, "block data stored for the hash although only variants were delivered");
            if (o.have_data && o.disk != "genuine") report("C04-disk-not-genuine:" + last, "data on disk for the hash is " + o.disk);
            if (g_delivered && !o.tip) report("C04-genuine-lost-tip:after-" + last, "genuine block no longer the tip");
            if (!g_delivered && node.tip()->GetBlockHash() != before_tip) report("C04-tip-moved-by-variant:" + last, "tip moved although the genuine block was not delivered");
            states.add(std::string(o.index ? "I" : "-") + (o.have_data ? "D" : "-") + (o.failed ? "F" : "-") + (o.tip ? "T" : "-") + (g_delivered ? "g" : "."));
        };
        for (int i : seq) step((*cur_alphabet)[i]);
        if (!g_delivered) step("G"); // the genuine block must still be acceptable after any prefix of variants
        sequences++;
        if (sequences % 211 == 1) E.sample("history: " + hist + " -> genuine block is tip, never failed");
    };
    if (!replay_seq.empty()) {
        std::vector<int> seq;
        size_t pos = 0;
        while (pos < replay_seq.size()) {
            size_t e = replay_seq.find(" | ", pos);
            std::string ev = replay_seq.substr(pos, e == std::string::npos ? std::string::npos : e - pos);
            auto it = std::find(alphabet.begin(), alphabet.end(), ev);
            if (it == alphabet.end()) { alphabet.push_back(ev); it = alphabet.end() - 1; }
            seq.push_back(it - alphabet.begin());
            if (e == std::string::npos) break;
            pos = e + 3;
        }
        run_sequence(seq);
        printf("replayed sequence '%s': violations=%d\n", replay_seq.c_str(), vx::rep().violations);
        return vx::rep().violations ? 1 : 0;
    }
    int completed_depth = 0;
    for (int d = 1; d <= D; d++) {
        if (vx::deadline_reached()) { E.exhaustive = false; break; }
        std::vector<int> seq(d, 0);
        bool cut = false;
        for (;;) {
            run_sequence(seq);
            int i = d - 1;
            while (i >= 0 && ++seq[i] == (int)alphabet.size()) seq[i--] = 0;
            if (i < 0) break;
            if ((sequences & 63) == 0 && vx::deadline_reached()) { cut = true; break; }
        }
        if (cut) { E.exhaustive = false; break; }
        completed_depth = d;
    }
    int completed_depth_oversized = 0;
    cur_alphabet = &alphabet_oversized;
    for (int d = 1; d <= DO && E.exhaustive; d++) {
        if (vx::deadline_reached()) { E.exhaustive = false; break; }
        std::vector<int> seq(d, 0);
        bool cut = false;
        for (;;) {
            run_sequence(seq);
            int i = d - 1;
            while (i >= 0 && ++seq[i] == (int)alphabet_oversized.size()) seq[i--] = 0;
            if (i < 0) break;
            if ((sequences & 15) == 0 && vx::deadline_reached()) { cut = true; break; }
        }
        if (cut) { E.exhaustive = false; break; }
        completed_depth_oversized = d;
    }
    E.states = states.size();
    E.set("completed_depth_oversized_alphabet", (uint64_t)completed_depth_oversized);
    E.set("oversized_variant_deliveries", oversized_deliveries);
    E.set("oversized_variant_deliveries_before_genuine", oversized_before_genuine);
    if (E.exhaustive && !oversized_before_genuine) { printf("HARNESS-ERROR C04 no oversized variant was delivered before its genuine block\n"); bad = true; }
    E.set("sequences", sequences);
    E.set("completed_depth", (uint64_t)completed_depth);
    E.set("alphabet_size", (uint64_t)alphabet.size());
    E.set("genuine_deliveries", g_deliveries);
    E.set("variant_deliveries", variant_deliveries);
    E.set("variant_deliveries_before_genuine", variant_before_genuine);
    E.set("final_chain_height", (uint64_t)node.height());
    if (!variant_before_genuine || !g_deliveries) { printf("HARNESS-ERROR C04 sequence phase vacuous\n"); bad = true; }
    if (node.height() < (int)sequences) { printf("HARNESS-ERROR C04 chain did not advance once per sequence\n"); bad = true; }
    E.distinct_nontrivial = st.distinct.size();
    std::string al;
    for (auto& a : alphabet) al += a + " ";
    std::string alo;
    for (auto& a : alphabet_oversized) alo += a + " ";
    E.rule = "(a) evaluations: every list length 1..N x {root, mutation flag, every CVE-2012-2459 variant at every level, block/witness root, merkle path of every position} + all lists of length <= 7 over 3 symbols, vs a level-by-level reference; "
             "(b) every same-header variant of a genuine segwit block (each witness byte altered singly) through IsBlockMutated + TestBlockValidity, compact-block FillBlock with wrong transactions; "
             "(c) states/transitions: every sequence with repetition of length <= D over {" + al + "} delivered to ProcessNewBlock/ProcessNewBlockHeaders (a fresh genuine block per sequence on the current tip, G appended when the sequence lacks it), and every sequence of length <= " + std::to_string(DO) + " over {" + alo + "} "
             "(variants whose weight exceeds 4,000,000 only through ~4 MB of witness data in the coinbase or in a transaction, one item / 40,000 items); "
             "state = (index entry, HAVE_DATA, FAILED, is tip, genuine delivered); distinct = distinct enumeration cases of (a)";
    E.assume("regtest, segwit active; double-SHA256 collision freedom (distinct leaves have distinct hashes)");
    int rc = vx::finish();
    if (bad && rc == 0) return 2;
    return rc;
}
