LINK := small
