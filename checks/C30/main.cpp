// C30 — Feerate arithmetic is exact.
// VX-ENUM over boundary alphabets and complete small grids; oracle = definitions over exact __int128 integers
// (ref/refmodel_feefrac.h).  Real code: util/feefrac.h (header-only, compiled into this harness),
// util/feefrac.cpp (CompareChunks), policy/feerate.cpp (CFeeRate::GetFee).
#include <vx/vx.h>
#include <ref/refmodel_feefrac.h>

#include <policy/feerate.h>
#include <util/feefrac.h>

#include <climits>
#include <compare>
#include <span>

namespace {
using reffee::FS;
using reffee::i128;

std::atomic<uint64_t> n_bad{0};
void bad(const std::string& key, const std::string& what)
{
    if (n_bad.fetch_add(1) < 12) vx::violation(key, what, key + "\n" + what);
}
std::string s128(i128 v)
{
    if (v == 0) return "0";
    bool neg = v < 0;
    unsigned __int128 u = neg ? -(unsigned __int128)v : (unsigned __int128)v;
    std::string s;
    while (u) { s.insert(s.begin(), char('0' + (int)(u % 10))); u /= 10; }
    return (neg ? "-" : "") + s;
}
std::string fs(FS a) { return "(" + std::to_string(a.fee) + "/" + std::to_string(a.size) + ")"; }
int ord(std::strong_ordering o) { return o < 0 ? -1 : o > 0 ? 1 : 0; }
int pord(std::partial_ordering o) { return o == std::partial_ordering::unordered ? 2 : o < 0 ? -1 : o > 0 ? 1 : 0; }

template <typename T> std::vector<T> uniq(std::vector<T> v)
{
    std::sort(v.begin(), v.end());
    v.erase(std::unique(v.begin(), v.end()), v.end());
    return v;
}

// ---------------------------------------------------------------------------------------------- 1. comparisons
struct CmpStats { uint64_t pairs = 0, nontrivial = 0, lt = 0, eq = 0, gt = 0, tie_size = 0, wide = 0; };
CmpStats g_cmp;
std::mutex g_mu;

void compare_pair(FS a, FS b, CmpStats& st)
{
    const FeeFrac A(a.fee, a.size), B(b.fee, b.size);
    const int want_r = reffee::by_ratio(a, b);
    const int want_n = reffee::by_ratio_neg_size(a, b);
    const bool same = a.fee == b.fee && a.size == b.size;
    const ByRatio<FeeFrac> ra{A}, rb{B};
    const ByRatioNegSize<FeeFrac> na{A}, nb{B};
    std::string err;
    if (ord(ra <=> rb) != want_r) err += " ByRatio<=>";
    if ((ra == rb) != (want_r == 0)) err += " ByRatio==";
    if ((ra != rb) != (want_r != 0)) err += " ByRatio!=";
    if ((ra < rb) != (want_r < 0)) err += " ByRatio<";
    if ((ra > rb) != (want_r > 0)) err += " ByRatio>";
    if ((ra <= rb) != (want_r <= 0)) err += " ByRatio<=";
    if ((ra >= rb) != (want_r >= 0)) err += " ByRatio>=";
    if (ord(na <=> nb) != want_n) err += " ByRatioNegSize<=>";
    if ((na == nb) != same) err += " ByRatioNegSize==";
    if ((na < nb) != (want_n < 0)) err += " ByRatioNegSize<";
    if ((na > nb) != (want_n > 0)) err += " ByRatioNegSize>";
    if ((na <= nb) != (want_n <= 0)) err += " ByRatioNegSize<=";
    if ((na >= nb) != (want_n >= 0)) err += " ByRatioNegSize>=";
    if ((A == B) != same) err += " FeeFrac==";
    // portable fallback multiplication orders cross products like the native one and like the exact integers
    {
        const auto fa = FeeFrac::MulFallback(a.fee, b.size), fb = FeeFrac::MulFallback(b.fee, a.size);
        const auto ma = FeeFrac::Mul(a.fee, b.size), mb = FeeFrac::Mul(b.fee, a.size);
        const int exact = reffee::sgn((i128)a.fee * b.size - (i128)b.fee * a.size);
        if (ord(fa <=> fb) != exact) err += " MulFallback-order";
        if (ord(ma <=> mb) != exact) err += " Mul-order";
    }
    // CFeeRate / FeePerVSize use the same ratio order
    {
        const FeePerVSize pa(a.fee, a.size), pb(b.fee, b.size);
        const CFeeRate ca(pa), cb(pb);
        if (ord(ca <=> cb) != want_r) err += " CFeeRate<=>";
        if ((ca == cb) != (want_r == 0)) err += " CFeeRate==";
        if (ord(ByRatioNegSize<FeePerVSize>{pa} <=> ByRatioNegSize<FeePerVSize>{pb}) != want_n) err += " ByRatioNegSize<FeePerVSize>";
    }
    if (!err.empty()) bad("compare " + fs(a) + " vs " + fs(b), "wrong result of:" + err + " (exact ratio order " + std::to_string(want_r) + ", with size tie-break " + std::to_string(want_n) + ")");
    st.pairs++;
    const i128 ca = (i128)a.fee * b.size, cb = (i128)b.fee * a.size;
    const i128 lim = (i128)1 << 63;
    const bool wide = ca >= lim || ca < -lim || cb >= lim || cb < -lim;
    const bool tie = a.size && b.size && want_r == 0 && !same;
    st.wide += wide;
    st.tie_size += tie;
    st.nontrivial += (wide || tie || a.fee < 0 || b.fee < 0);
    (want_n < 0 ? st.lt : want_n > 0 ? st.gt : st.eq)++;
}

void compare_all(const std::vector<FS>& v, const char* name)
{
    CmpStats tot;
    vx::par_for(v.size(), 8, [&](uint64_t lo, uint64_t hi, unsigned) {
        CmpStats st;
        for (uint64_t i = lo; i < hi; i++)
            for (const FS& b : v) compare_pair(v[i], b, st);
        std::lock_guard<std::mutex> l(g_mu);
        tot.pairs += st.pairs; tot.nontrivial += st.nontrivial; tot.lt += st.lt; tot.eq += st.eq; tot.gt += st.gt; tot.tie_size += st.tie_size; tot.wide += st.wide;
    });
    g_cmp.pairs += tot.pairs; g_cmp.nontrivial += tot.nontrivial; g_cmp.lt += tot.lt; g_cmp.eq += tot.eq; g_cmp.gt += tot.gt; g_cmp.tie_size += tot.tie_size; g_cmp.wide += tot.wide;
    vx::ev().set(std::string("compare_pairs_") + name, tot.pairs);
    printf("compare %s: %zu feefracs, %" PRIu64 " ordered pairs, %.1fs\n", name, v.size(), tot.pairs, vx::elapsed());
}

// ---------------------------------------------------------------------------------------------- 2. Mul / Div / EvaluateFee
struct DivStats { uint64_t evals = 0, nontrivial = 0, inexact = 0, negative = 0, skipped_unrepresentable = 0, slow_path = 0, fast_path = 0; };
DivStats g_div;

// fee * at / d with both roundings, through Div(Mul), DivFallback(MulFallback) and FeeFrac::EvaluateFee*
void divide_case(int64_t fee, int32_t at, int32_t d, DivStats& st)
{
    const i128 n = (i128)fee * at;
    for (int down = 0; down < 2; down++) {
        if (!reffee::quotient_fits(n, d, down)) { st.skipped_unrepresentable++; continue; } // outside the documented domain
        const std::string key = "divide fee=" + std::to_string(fee) + " at_size=" + std::to_string(at) + " size=" + std::to_string(d) + (down ? " down" : " up");
        const int64_t q1 = FeeFrac::Div(FeeFrac::Mul(fee, at), d, down);
        const int64_t q2 = FeeFrac::DivFallback(FeeFrac::MulFallback(fee, at), d, down);
        if (!reffee::is_rounded_quotient(n, d, down, q1)) bad(key + " Div(Mul)", "got " + std::to_string(q1) + " for " + s128(n) + "/" + std::to_string(d));
        if (!reffee::is_rounded_quotient(n, d, down, q2)) bad(key + " DivFallback(MulFallback)", "got " + std::to_string(q2) + " (native: " + std::to_string(q1) + ") for " + s128(n) + "/" + std::to_string(d));
        st.evals += 2;
        if (at >= 0) {
            const FeeFrac f(fee, d);
            const int64_t q3 = down ? f.EvaluateFeeDown(at) : f.EvaluateFeeUp(at);
            if (!reffee::is_rounded_quotient(n, d, down, q3)) bad(key + " EvaluateFee", "got " + std::to_string(q3) + " for " + s128(n) + "/" + std::to_string(d));
            st.evals++;
            (fee >= 0 && fee < 0x200000000LL ? st.fast_path : st.slow_path)++;
        }
        const bool inexact = n % d != 0;
        st.inexact += inexact;
        st.negative += n < 0;
        st.nontrivial += inexact;
    }
}

// ---------------------------------------------------------------------------------------------- 3. CompareChunks
struct ChunkStats { uint64_t pairs = 0, out[4] = {0, 0, 0, 0}; };
ChunkStats g_chunks;

// all chunk lists of length <= maxlen over the alphabet with non-increasing feerate ("sorted chunks")
std::vector<std::vector<FS>> sorted_diagrams(const std::vector<FS>& alphabet, int maxlen, int64_t max_total_size)
{
    std::vector<std::vector<FS>> out{{}};
    size_t begin = 0;
    for (int len = 1; len <= maxlen; len++) {
        size_t end = out.size();
        for (size_t i = begin; i < end; i++) {
            for (const FS& c : alphabet) {
                if (!out[i].empty() && reffee::ratio_cmp(out[i].back(), c) < 0) continue; // feerate would increase
                int64_t tot = c.size;
                for (const FS& x : out[i]) tot += x.size;
                if (tot > max_total_size) continue;
                auto d = out[i];
                d.push_back(c);
                out.push_back(std::move(d));
            }
        }
        begin = end;
    }
    return out;
}

void chunks_all(const std::vector<std::vector<FS>>& dias, bool every_integer_x, const char* name)
{
    std::vector<std::vector<FeeFrac>> real;
    for (auto& d : dias) {
        std::vector<FeeFrac> r;
        for (const FS& c : d) r.emplace_back(c.fee, c.size);
        real.push_back(std::move(r));
    }
    ChunkStats tot;
    vx::par_for(dias.size(), 4, [&](uint64_t lo, uint64_t hi, unsigned) {
        ChunkStats st;
        for (uint64_t i = lo; i < hi; i++) {
            for (size_t j = 0; j < dias.size(); j++) {
                std::vector<int64_t> xs = reffee::breakpoints(dias[i], dias[j]);
                if (every_integer_x) {
                    int64_t mx = *std::max_element(xs.begin(), xs.end());
                    xs.clear();
                    for (int64_t x = 0; x <= mx + 1; x++) xs.push_back(x);
                }
                const int want = reffee::compare_diagrams(dias[i], dias[j], xs);
                const int got = pord(CompareChunks(real[i], real[j]));
                if (got != want) {
                    std::string k = "CompareChunks [";
                    for (auto& c : dias[i]) k += fs(c);
                    k += "] vs [";
                    for (auto& c : dias[j]) k += fs(c);
                    k += "]";
                    bad(k, "got " + std::to_string(got) + " want " + std::to_string(want) + " (-1 less, 0 equal, 1 greater, 2 incomparable)");
                }
                st.pairs++;
                st.out[want + 1]++;
            }
        }
        std::lock_guard<std::mutex> l(g_mu);
        tot.pairs += st.pairs;
        for (int k = 0; k < 4; k++) tot.out[k] += st.out[k];
    });
    g_chunks.pairs += tot.pairs;
    for (int k = 0; k < 4; k++) g_chunks.out[k] += tot.out[k];
    vx::ev().set(std::string("diagram_pairs_") + name, tot.pairs);
    printf("CompareChunks %s: %zu diagrams, %" PRIu64 " pairs, %.1fs\n", name, dias.size(), tot.pairs, vx::elapsed());
}

// ---------------------------------------------------------------------------------------------- 4. CFeeRate::GetFee
struct FeeStats { uint64_t evals = 0, rounded = 0; };
FeeStats g_getfee;
void getfee_case(const CFeeRate& r, int64_t fee, int32_t size, int32_t vb, const char* ctor, FeeStats& st)
{
    const i128 n = (i128)fee * vb;
    if (!reffee::quotient_fits(n, size, false)) return;
    const CAmount got = r.GetFee(vb);
    if (!reffee::is_rounded_quotient(n, size, false, got))
        bad(std::string("GetFee ") + ctor + " fee=" + std::to_string(fee) + " per " + std::to_string(size) + " at vsize=" + std::to_string(vb), "got " + std::to_string(got) + ", want ceil(" + s128(n) + "/" + std::to_string(size) + ")");
    st.evals++;
    st.rounded += n % size != 0;
}

} // namespace

int main(int argc, char** argv)
{
    vx::init(argc, argv, "C30", "exploration");
    auto& E = vx::ev();
    const bool big = vx::thorough();
    if (!vx::ctx().replay.empty()) printf("replay: the key in the replay file names the operands; re-run the tier to re-evaluate\n");

    // ---- alphabets
    std::vector<int64_t> F = {INT64_MIN, INT64_MIN + 1, -(1LL << 62), -(1LL << 33) - 1, -(1LL << 33), -(1LL << 32) - 1, -(1LL << 32), -(1LL << 31) - 1, -(1LL << 31),
                              -3, -2, -1, 0, 1, 2, 3, (1LL << 31) - 1, 1LL << 31, (1LL << 32) - 1, 1LL << 32, (1LL << 32) + 1, (1LL << 33) - 1, 1LL << 33, (1LL << 33) + 1,
                              (1LL << 34) - 1, 1LL << 34, 2100000000000000LL, 1LL << 62, INT64_MAX - 1, INT64_MAX};
    std::vector<int32_t> S = {1, 2, 3, 7, 1000, (1 << 15) - 1, 1 << 15, (1 << 15) + 1, 1 << 16, 1 << 30, INT32_MAX - 1, INT32_MAX};
    if (big) {
        for (int k = 0; k <= 62; k++)
            for (int d = -1; d <= 1; d++) { F.push_back((1LL << k) + d); F.push_back(-((1LL << k) + d)); }
        for (int k = 0; k <= 30; k++)
            for (int d = -1; d <= 1; d++) if ((1LL << k) + d > 0 && (1LL << k) + d <= INT32_MAX) S.push_back((int32_t)((1LL << k) + d));
    }
    F = uniq(F);
    S = uniq(S);

    // ---- 1. comparisons: all ordered pairs of F x S (plus the empty FeeFrac), and of a complete small grid
    {
        std::vector<FS> v{{0, 0}};
        for (int64_t f : F) for (int32_t s : S) v.push_back({f, s});
        compare_all(v, "boundary");
        std::vector<FS> g{{0, 0}};
        const int fm = big ? 200 : 64, sm = big ? 48 : 32;
        for (int f = -fm; f <= fm; f++) for (int s = 1; s <= sm; s++) g.push_back({f, s});
        compare_all(g, "grid");
        E.evaluations += g_cmp.pairs;
    }

    // ---- 2. Mul/Div/EvaluateFee: fee in F, multiplier in AT, divisor in S, both roundings
    {
        std::vector<int32_t> AT = S;
        for (int32_t x : {0, -1, -2, -1000, INT32_MIN + 1, INT32_MIN}) AT.push_back(x);
        AT = uniq(AT);
        std::vector<std::pair<int64_t, int32_t>> fa;
        for (int64_t f : F) for (int32_t a : AT) fa.emplace_back(f, a);
        vx::par_for(fa.size(), 16, [&](uint64_t lo, uint64_t hi, unsigned) {
            DivStats st;
            for (uint64_t i = lo; i < hi; i++) for (int32_t d : S) divide_case(fa[i].first, fa[i].second, d, st);
            std::lock_guard<std::mutex> l(g_mu);
            g_div.evals += st.evals; g_div.nontrivial += st.nontrivial; g_div.inexact += st.inexact; g_div.negative += st.negative;
            g_div.skipped_unrepresentable += st.skipped_unrepresentable; g_div.slow_path += st.slow_path; g_div.fast_path += st.fast_path;
        });
        printf("divide boundary: %.1fs\n", vx::elapsed());
        // complete small grid
        const int fm = big ? 256 : 64, sm = big ? 64 : 32, am = big ? 128 : 64;
        vx::par_for(2 * fm + 1, 1, [&](uint64_t lo, uint64_t hi, unsigned) {
            DivStats st;
            for (uint64_t i = lo; i < hi; i++)
                for (int d = 1; d <= sm; d++)
                    for (int a = -am; a <= am; a++) divide_case((int64_t)i - fm, a, d, st);
            // and the same small numerators shifted beyond the fast-path limit of EvaluateFee (fee >= 2^33)
            for (uint64_t i = lo; i < hi; i++)
                for (int d = 1; d <= sm; d++)
                    for (int a = 0; a <= am; a += 7) divide_case((1LL << 33) + (int64_t)i - fm, a, d, st);
            std::lock_guard<std::mutex> l(g_mu);
            g_div.evals += st.evals; g_div.nontrivial += st.nontrivial; g_div.inexact += st.inexact; g_div.negative += st.negative;
            g_div.skipped_unrepresentable += st.skipped_unrepresentable; g_div.slow_path += st.slow_path; g_div.fast_path += st.fast_path;
        });
        printf("divide grid: %.1fs\n", vx::elapsed());
        E.evaluations += g_div.evals;
        E.set("divide_evaluations", g_div.evals);
        E.set("divide_inexact", g_div.inexact);
        E.set("divide_negative_numerator", g_div.negative);
        E.set("divide_skipped_result_not_int64", g_div.skipped_unrepresentable);
        E.set("evaluatefee_fast_path", g_div.fast_path);
        E.set("evaluatefee_wide_path", g_div.slow_path);
    }

    // ---- 3. CompareChunks: all pairs of sorted diagrams
    {
        std::vector<FS> alpha;
        const int fl = big ? -2 : -1, fh = big ? 4 : 3, sh = 3;
        for (int f = fl; f <= fh; f++) for (int s = 1; s <= sh; s++) alpha.push_back({f, s});
        chunks_all(sorted_diagrams(alpha, big ? 4 : 3, 1 << 20), true, "small");
        std::vector<FS> wide;
        for (int64_t f : {-(1LL << 60), -1LL, 0LL, 1LL, 1LL << 40, 1LL << 60}) for (int32_t s : {1, 1 << 20, 1 << 29}) wide.push_back({f, s});
        chunks_all(sorted_diagrams(wide, big ? 3 : 2, (1LL << 31) - 1), false, "wide");
        E.evaluations += g_chunks.pairs;
    }

    // ---- 4. CFeeRate::GetFee rounds up for non-negative rates
    {
        // per-kvB constructor
        std::vector<int64_t> K;
        for (int k = 0; k <= (big ? 20000 : 3000); k++) K.push_back(k);
        for (int64_t f : F) if (f >= 0) K.push_back(f);
        K = uniq(K);
        std::vector<int32_t> VB;
        for (int v = 0; v <= (big ? 4000 : 1100); v++) VB.push_back(v);
        for (int32_t s : S) VB.push_back(s);
        VB = uniq(VB);
        vx::par_for(K.size(), 16, [&](uint64_t lo, uint64_t hi, unsigned) {
            FeeStats st;
            for (uint64_t i = lo; i < hi; i++) {
                const CFeeRate r(K[i]);
                for (int32_t vb : VB) getfee_case(r, K[i], 1000, vb, "CFeeRate(sat/kvB)", st);
            }
            std::lock_guard<std::mutex> l(g_mu);
            g_getfee.evals += st.evals; g_getfee.rounded += st.rounded;
        });
        // fee-paid / vsize constructor: complete small grid and the boundary alphabets
        FeeStats st;
        for (int f = 0; f <= 64; f++) for (int s = 1; s <= 32; s++) { const CFeeRate r(CAmount{f}, s); for (int vb = 0; vb <= 64; vb++) getfee_case(r, f, s, vb, "CFeeRate(fee,vsize)", st); }
        for (int64_t f : F) if (f >= 0) for (int32_t s : S) { const CFeeRate r(CAmount{f}, s); for (int32_t vb : S) getfee_case(r, f, s, vb, "CFeeRate(fee,vsize)", st); }
        g_getfee.evals += st.evals; g_getfee.rounded += st.rounded;
        E.evaluations += g_getfee.evals;
        E.set("getfee_evaluations", g_getfee.evals);
        E.set("getfee_fractional", g_getfee.rounded);
        printf("GetFee: %.1fs\n", vx::elapsed());
    }

    E.set("compare_pairs", g_cmp.pairs);
    E.set("compare_cross_product_over_64_bits", g_cmp.wide);
    E.set("compare_equal_ratio_different_size", g_cmp.tie_size);
    E.set("diagram_pairs", g_chunks.pairs);
    E.set_str("diagram_outcomes", "less=" + std::to_string(g_chunks.out[0]) + " equal=" + std::to_string(g_chunks.out[1]) + " greater=" + std::to_string(g_chunks.out[2]) + " incomparable=" + std::to_string(g_chunks.out[3]));
    // every enumerated case is a different operand tuple (alphabets are de-duplicated), so the distinct count is
    // the number of cases that are non-trivial by the rule below
    E.distinct_nontrivial = g_cmp.nontrivial + g_div.nontrivial + (g_chunks.pairs - g_chunks.out[1]) + g_getfee.rounded;
    E.rule = std::string("(1) all ordered pairs of FeeFracs from |F|=") + std::to_string(F.size()) + " boundary fees x |S|=" + std::to_string(S.size()) + " sizes plus the empty one, and of the complete grid fee -" + (big ? "200..200 x size 1..48" : "64..64 x size 1..32") +
             ": ByRatio / ByRatioNegSize / CFeeRate operators and Mul vs MulFallback ordering vs exact rationals; (2) fee x multiplier x divisor x rounding over F x (S+{0,negatives}) x S and a complete small grid (also shifted past 2^33): Div(Mul), DivFallback(MulFallback), EvaluateFeeDown/Up vs the defining inequalities of floor/ceil, restricted to results that fit int64; "
             "(3) CompareChunks on all pairs of sorted diagrams with <=" + (big ? "4" : "3") + " chunks (fee " + (big ? "-2..4" : "-1..3") + ", size 1..3) compared at every integer x, and <=" + (big ? "3" : "2") + " chunks over wide values compared at all breakpoints; "
             "(4) CFeeRate::GetFee == ceil(rate*vsize) for non-negative rates. distinct_nontrivial = pairs with a >64-bit cross product, a negative fee or an equal-ratio/different-size tie + inexact divisions + diagram pairs that are not equal + GetFee cases with a fractional satoshi";
    E.exhaustive = true;
    E.sample("compare: pairs=" + std::to_string(g_cmp.pairs) + " lt=" + std::to_string(g_cmp.lt) + " eq=" + std::to_string(g_cmp.eq) + " gt=" + std::to_string(g_cmp.gt) + " wide=" + std::to_string(g_cmp.wide) + " ties_by_size=" + std::to_string(g_cmp.tie_size));
    E.sample("e.g. (INT64_MAX/1) vs (INT64_MAX-1/1), (2^62/2^31-1) vs (2^62/2^31-2): cross products need 94 bits");
    E.sample("e.g. fee=-2^33-1 at_size=7 size=2^15+1 down/up through Div(Mul) and DivFallback(MulFallback)");
    E.assume("sizes are positive (or the FeeFrac is empty); division results outside int64 are outside the documented domain and skipped; negative CFeeRate values are not judged (the statement covers non-negative rates)");

    // sanity gates: classes that must occur
    if (vx::rep().violations == 0) {
        const char* miss = nullptr;
        if (!g_cmp.lt || !g_cmp.gt || !g_cmp.eq) miss = "comparison outcome class";
        else if (!g_cmp.wide) miss = "cross product wider than 64 bits";
        else if (!g_cmp.tie_size) miss = "equal ratio with different size";
        else if (!g_div.inexact || !g_div.negative) miss = "inexact / negative division";
        else if (!g_div.fast_path || !g_div.slow_path) miss = "EvaluateFee fast or wide path";
        else if (!g_chunks.out[0] || !g_chunks.out[1] || !g_chunks.out[2] || !g_chunks.out[3]) miss = "CompareChunks outcome class";
        else if (!g_getfee.rounded) miss = "GetFee with fractional satoshi";
        if (miss) {
            printf("HARNESS-ERROR property=C30 class never occurred: %s\n", miss);
            vx::finish();
            return 2;
        }
    }
    return vx::finish();
}
