// C26 — Replacements only happen when they pay for themselves and improve the mempool.
// poolsim exploration with replacement candidates at and around every threshold of the replacement rules:
//   R:<i>:<t>   conflict of pool tx i paying S-1 / S / S+inc-1 / S+inc / S+inc+1 (S = modified fees of i and its descendants),
//   RB          the same with a replacement three times as large (pays Rules 3/4 but need not improve the diagram),
//   RS          conflict that also spends an output of what it evicts,   SB  TRUC sibling eviction at the thresholds,
//   PR          1-parent-1-child package RBF at the thresholds (S+inc-1 / S+inc / S+inc+1 on MODIFIED fees, also against a
//               parent+child pair (PK) that was prioritised upward earlier in the history),  P  prioritisation (so modified != base fees),  C  descendants.
// Oracle (one-directional, the property is "only if"): whenever a submission that conflicts with pool txs (or evicts a
// TRUC sibling) is accepted,
//   Rule 3/4: sum of modified fees of the new txs >= modified fees of everything evicted + ceil(100 * vsize(new) / 1000);
//   the new txs spend no output of an evicted tx;
//   the brute-force optimal feerate diagram of the affected clusters strictly improves and the whole pool's does not get worse;
//   the reported replaced set == (pre-pool minus post-pool) == direct conflicts (+ TRUC sibling) and all their descendants.
// A submission without conflicts must not remove anything (no trimming / expiry in this configuration).
#include <kits/poolsim_main.h>

namespace {
using namespace ps;

struct C26 : Monitor {
    std::string what() const override
    {
        return "oracle for every accepted conflicting submission: Rule 3+4 on modified fees (independent arithmetic), no input from an evicted tx, optimal feerate diagram (brute force) of the affected clusters strictly better and of the pool not worse, replaced list == pre minus post == direct conflicts (+TRUC sibling) + descendants";
    }
    static Snap Sub(const Snap& s, const std::set<size_t>& keep)
    {
        Snap r;
        for (size_t i : keep) r.txs.push_back(s.txs[i]);
        r.Link();
        return r;
    }
    void after(Sim& sim, const Step& st) override
    {
        if (st.act.kind != Act::SUBMIT && st.act.kind != Act::PACKAGE) return;
        std::string cls = Sim::SplitLabel(st.label)[0];
        const Snap& pre = st.pre;
        const Snap& post = st.post;
        // accepted new txs and the reported replaced set
        std::vector<CTransactionRef> fresh;
        std::set<Txid> reported;
        if (st.act.kind == Act::SUBMIT) {
            if (st.accepted()) fresh.push_back(st.act.txs[0]);
            for (auto& r : st.res->m_replaced_transactions) reported.insert(r->GetHash());
        } else {
            for (auto& tx : st.act.txs) {
                auto it = st.pres->m_tx_results.find(tx->GetWitnessHash());
                if (it == st.pres->m_tx_results.end()) continue;
                if (it->second.m_result_type == MempoolAcceptResult::ResultType::VALID && !pre.has(tx->GetHash())) fresh.push_back(tx);
                for (auto& r : it->second.m_replaced_transactions) reported.insert(r->GetHash());
            }
        }
        std::set<Txid> gone;
        for (auto& t : pre.txs) if (!post.has(t.tx->GetHash())) gone.insert(t.tx->GetHash());
        if (fresh.empty()) {
            if (!gone.empty()) sim.fs.report("C26-rejected-but-removed:" + cls, "'" + st.label + "' was not accepted but " + std::to_string(gone.size()) + " pool txs disappeared");
            if (!reported.empty()) sim.fs.report("C26-rejected-but-replaced:" + cls, "'" + st.label + "' was not accepted but reports replaced transactions");
            // was it a conflicting candidate? (coverage of the rejecting side)
            for (auto& tx : st.act.txs) for (auto& in : tx->vin) if (pre.Spender(in.prevout) >= 0) { sim.Bump(11); return; }
            return;
        }
        // direct conflicts: pre-pool txs spending an outpoint one of the new txs spends
        std::set<size_t> direct;
        std::set<Txid> fresh_ids;
        for (auto& tx : fresh) fresh_ids.insert(tx->GetHash());
        for (auto& tx : fresh) for (auto& in : tx->vin) { int sp = pre.Spender(in.prevout); if (sp >= 0) direct.insert(sp); }
        // TRUC sibling: a v3 tx whose v3 pool parent already had a child that is not a direct conflict
        std::set<size_t> sibling;
        if (st.act.kind == Act::SUBMIT && fresh[0]->version == 3) {
            for (auto& in : fresh[0]->vin) {
                auto pit = pre.idx.find(in.prevout.hash);
                if (pit == pre.idx.end()) continue;
                for (size_t c : pre.children[pit->second]) if (!direct.count(c)) sibling.insert(c);
            }
        }
        std::set<size_t> ev;
        for (size_t d : direct) for (size_t x : pre.Desc(d)) ev.insert(x);
        for (size_t d : sibling) for (size_t x : pre.Desc(d)) ev.insert(x);
        std::set<Txid> expect;
        for (size_t x : ev) expect.insert(pre.txs[x].tx->GetHash());
        if (expect.empty()) {
            if (!gone.empty() || !reported.empty()) sim.fs.report("C26-removed-without-conflict:" + cls, "'" + st.label + "' conflicts with nothing but " + std::to_string(gone.size()) + " pool txs disappeared / " + std::to_string(reported.size()) + " reported replaced");
            return;
        }
        sim.Bump(10);
        if (!sibling.empty()) sim.Bump(12);
        if (st.act.kind == Act::PACKAGE) sim.Bump(13);
        // evicted set
        if (gone != expect) sim.fs.report("C26-evicted-set:" + cls, "'" + st.label + "': pre-pool minus post-pool has " + std::to_string(gone.size()) + " txs, direct conflicts (+sibling) and descendants are " + std::to_string(expect.size()));
        if (reported != expect) sim.fs.report("C26-reported-set:" + cls, "'" + st.label + "': reported replaced set has " + std::to_string(reported.size()) + " txs, direct conflicts (+sibling) and descendants are " + std::to_string(expect.size()));
        // Rule 3 + 4
        CAmount old_fees = 0;
        for (size_t x : ev) old_fees += pre.txs[x].mod();
        CAmount new_fees = 0;
        int64_t new_vsize = 0;
        for (auto& tx : fresh) {
            auto it = post.idx.find(tx->GetHash());
            if (it == post.idx.end()) { sim.fs.report("C26-accepted-not-in-pool:" + cls, "accepted replacement is not in the pool"); return; }
            new_fees += post.txs[it->second].mod();
            new_vsize += RefVsize(*tx);
        }
        CAmount inc = (100 * new_vsize + 999) / 1000; // incremental relay feerate 100 sat/kvB, rounded up
        if (new_fees < old_fees) sim.fs.report("C26-rule3:" + cls, "'" + st.label + "' accepted: replacement pays " + std::to_string(new_fees) + " < " + std::to_string(old_fees) + " modified fees of the evicted txs");
        else if (new_fees - old_fees < inc) sim.fs.report("C26-rule4:" + cls, "'" + st.label + "' accepted: additional fees " + std::to_string(new_fees - old_fees) + " < incremental relay fee " + std::to_string(inc) + " for " + std::to_string(new_vsize) + " vB");
        if (new_fees - old_fees == inc) sim.Bump(14);
        // no input from an evicted tx
        for (auto& tx : fresh) for (auto& in : tx->vin) if (expect.count(in.prevout.hash)) sim.fs.report("C26-spends-evicted:" + cls, "'" + st.label + "' accepted although it spends an output of a tx it evicts");
        // feerate diagram: affected clusters strictly better, whole pool not worse
        std::set<size_t> aff_pre;
        for (size_t x : ev) for (size_t y : pre.Cluster(x)) aff_pre.insert(y);
        std::set<size_t> aff_post;
        for (size_t y : aff_pre) { auto it = post.idx.find(pre.txs[y].tx->GetHash()); if (it != post.idx.end()) for (size_t z : post.Cluster(it->second)) aff_post.insert(z); }
        for (auto& id : fresh_ids) for (size_t z : post.Cluster(post.idx.at(id))) aff_post.insert(z);
        // clusters the new txs join may contain txs that were not in an affected pre-cluster: take their pre-clusters too
        for (size_t z : aff_post) { auto it = pre.idx.find(post.txs[z].tx->GetHash()); if (it != pre.idx.end()) for (size_t y : pre.Cluster(it->second)) aff_pre.insert(y); }
        int cmp = RefDiagramCompare(RefDiagram(Sub(post, aff_post)), RefDiagram(Sub(pre, aff_pre)));
        if (cmp != 1) sim.fs.report("C26-diagram-not-improved:" + cls, "'" + st.label + "' accepted but the optimal feerate diagram of the affected clusters is " + std::string(cmp == 0 ? "unchanged" : cmp == -1 ? "worse" : "incomparable"));
        int whole = RefDiagramCompare(RefDiagram(post), RefDiagram(pre));
        if (whole == -1 || whole == 2) sim.fs.report("C26-pool-diagram-worse:" + cls, "'" + st.label + "' accepted but the optimal feerate diagram of the whole pool is " + std::string(whole == -1 ? "worse" : "incomparable"));
    }
    int gate(Sim& sim) override
    {
        auto* sh = sim.fs.sh;
        const char* names[] = {"accepted replacement", "rejected conflicting candidate", "TRUC sibling eviction", "package RBF accepted", "replacement paying exactly evicted fees + incremental fee"};
        bool bad = false;
        for (int i = 0; i < 5; i++) {
            if (i == 3 && !sim.o.has("PR")) continue;
            if (i == 2 && !sim.o.has("SB")) continue;
            if (!sh->outcome_classes[10 + i].load()) { printf("HARNESS-ERROR property=C26 never happened: %s\n", names[i]); bad = true; }
        }
        return bad ? 2 : 0;
    }
};
} // namespace

int main(int argc, char** argv)
{
    C26 mon;
    return ps::Main(argc, argv, "C26", [&] {
        ps::Opts o;
        o.max_size_bytes = 40000;
        o.cluster_size_vbytes = 1000;
        o.cluster_count = 4;
        // PK seeds the pool with a parent+child pair in one step, so that "pair | prioritise +1000 | package RBF at the
        // Rule-4 bound" fits in depth 3: only against a conflict at least as large as the package can a package RBF
        // inside the window [evicted modified fees, + incremental fee) also improve the diagram
        o.classes = {"N", "N3", "PK", "C", "P", "R", "RB", "RS", "RD", "SB", "PR"};
        o.pk_parent = "l"; o.pk_child = "k";
        o.guarded = true;
        o.fees = "mh"; o.fees3 = "h";
        o.child_fees = "h";
        o.thr = "acd";
        o.thr_rb = "cd"; o.thr_sb = "cd"; o.thr_pr = "cdeh";
        o.max_idx = 2;
        o.prio_minus = false; o.prio_next = false;
        o.n_only_when_empty = true; o.child_outs = 1;
        o.depth_quick = 3; o.depth_thorough = 4;
        if (!vx::thorough()) return ps::Configs{{"", o}};
        // thorough: (a) the quick menu one level deeper, (b) every threshold, both child outputs, -delta and cluster joins at depth 3
        ps::Opts deep = o;
        deep.depth_thorough = 4;
        ps::Opts rich = o;
        rich.depth_thorough = 3;
        rich.prio_minus = true; rich.child_outs = 2;
        rich.thr = "abcde"; rich.thr_rb = "bcde"; rich.thr_sb = "bcde"; rich.thr_pr = "cdeh";
        rich.classes.insert("J");
        return ps::Configs{{"_deep", deep}, {"_rich", rich}};
    }, mon);
}
