LINK := full
KITS := chainkit
