LINK := full
