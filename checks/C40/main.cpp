// C40 — Coin selection returns a valid, sufficient subset of the offered coins.
//
// VX-ENUM, exhaustive over a stated bounded space: every multiset ("pool") of n coins drawn from 10 coin types
// (effective value {1,2,3,5,9}·U  x  input size {68,148} vbytes = weight {272,592}), for two feerate regimes
// (effective feerate above / below the long-term feerate), every target of a grid around every reachable sum
// (k·U-50, k·U-1, k·U, k·U+1, k·U+U/2 for k=1..sum/U, and sum+1), every max_selection_weight in
// {272, 592, total-1, 10^6} and every cost_of_change / change_target / change_fee of a small menu.
// Real SelectCoinsBnB, CoinGrinder, KnapsackSolver and SelectCoinsSRD are called on real OutputGroups; the oracle is
// brute force over all 2^n subsets with plain integer sums.
#include <vx/vx.h>

#include <consensus/amount.h>
#include <policy/feerate.h>
#include <primitives/transaction.h>
#include <random.h>
#include <uint256.h>
#include <wallet/coinselection.h>

#include <array>
#include <memory>

using namespace wallet;

static constexpr int NTYPES = 10;
static constexpr int MAXN = 8;
static const int64_t EFFMULT[5] = {1, 2, 3, 5, 9};
static const int VSIZE[2] = {68, 148};

struct Regime { const char* name; int eff_feerate; int lt_feerate; };
static const Regime REGIMES[2] = {{"high(ef=5000>ltf=1000)", 5000, 1000}, {"low(ef=1000<ltf=5000)", 1000, 5000}};

struct CoinLib {
    // [regime][type][copy]
    std::vector<OutputGroup> grp[2][NTYPES];
    CAmount eff[NTYPES];
    int weight[NTYPES];
    CAmount fee[2][NTYPES], ltfee[2][NTYPES], value[2][NTYPES];
    CAmount unit;
    std::unique_ptr<FastRandomContext> rng_dummy;
    std::unique_ptr<CoinSelectionParams> params[2];
};

static void build_lib(CoinLib& L, CAmount unit)
{
    L.unit = unit;
    L.rng_dummy = std::make_unique<FastRandomContext>(true);
    for (int r = 0; r < 2; r++) {
        L.params[r] = std::make_unique<CoinSelectionParams>(*L.rng_dummy, 31, 68, 50000, CFeeRate(REGIMES[r].eff_feerate), CFeeRate(REGIMES[r].lt_feerate), CFeeRate(3000), 42, false);
        L.params[r]->m_subtract_fee_outputs = false;
        for (int t = 0; t < NTYPES; t++) {
            int vs = VSIZE[t % 2];
            CAmount eff = EFFMULT[t / 2] * unit;
            CAmount fee = CFeeRate(REGIMES[r].eff_feerate).GetFee(vs);
            L.eff[t] = eff;
            L.weight[t] = vs * 4;
            L.fee[r][t] = fee;
            L.ltfee[r][t] = CFeeRate(REGIMES[r].lt_feerate).GetFee(vs);
            L.value[r][t] = eff + fee;
            for (int c = 0; c < MAXN; c++) {
                uint256 h;
                h.data()[0] = (unsigned char)(r + 1);
                h.data()[1] = (unsigned char)t;
                h.data()[2] = (unsigned char)c;
                h.data()[3] = (unsigned char)(unit & 0xff);
                OutputGroup g(*L.params[r]);
                g.Insert(std::make_shared<COutput>(COutPoint(Txid::FromUint256(h), (uint32_t)(t * MAXN + c)), CTxOut(eff + fee, CScript()), /*depth=*/1, /*input_bytes=*/vs,
                                                   /*solvable=*/true, /*safe=*/true, /*time=*/0, /*from_me=*/false, /*fees=*/fee), 0, 0);
                L.grp[r][t].push_back(g);
            }
        }
    }
}

struct Pool {
    int n;
    int type[MAXN];
    int copy[MAXN];
    std::string desc(const CoinLib& L) const
    {
        std::string s = "[";
        for (int i = 0; i < n; i++) { if (i) s += ' '; s += std::to_string(L.eff[type[i]]) + "/" + std::to_string(L.weight[type[i]]); }
        return s + "]";
    }
};

struct Stats {
    uint64_t calls = 0, bnb_ok = 0, bnb_fail = 0, bnb_fail_weight = 0, cg_ok = 0, cg_fail = 0, ks_ok = 0, ks_fail = 0, srd_ok = 0, srd_fail = 0, weight_binding = 0, nontrivial = 0,
             bnb_choice = 0, cg_choice = 0;
    void add(const Stats& o)
    {
        calls += o.calls; bnb_ok += o.bnb_ok; bnb_fail += o.bnb_fail; bnb_fail_weight += o.bnb_fail_weight; cg_ok += o.cg_ok; cg_fail += o.cg_fail; ks_ok += o.ks_ok; ks_fail += o.ks_fail;
        srd_ok += o.srd_ok; srd_fail += o.srd_fail; weight_binding += o.weight_binding; nontrivial += o.nontrivial; bnb_choice += o.bnb_choice; cg_choice += o.cg_choice;
    }
};

static std::mutex g_kind_mu;
static std::map<std::string, int> g_kind_count;
static void report(const std::string& kind, const std::string& what, const std::string& replay)
{
    {
        std::lock_guard<std::mutex> l(g_kind_mu);
        static const int cap = getenv("C40_CAP") ? atoi(getenv("C40_CAP")) : 3;
        if (++g_kind_count[kind] > cap) return;
    }
    vx::violation(kind + " " + what, what, replay);
}

struct Ctx {
    const CoinLib& L;
    int regime;
    const Pool& P;
    // brute-force tables
    CAmount s_eff[1 << MAXN];
    int s_w[1 << MAXN];
    CAmount s_iw[1 << MAXN]; // sum(fee - long_term_fee)
    CAmount s_val[1 << MAXN];
    CAmount total_eff;
    int total_w;
    std::vector<OutputGroup> base_pool;
    Stats& st;

    Ctx(const CoinLib& l, int r, const Pool& p, Stats& s) : L(l), regime(r), P(p), st(s)
    {
        int n = P.n;
        for (int m = 0; m < (1 << n); m++) {
            CAmount e = 0, iw = 0, v = 0;
            int w = 0;
            for (int i = 0; i < n; i++) if (m >> i & 1) { int t = P.type[i]; e += L.eff[t]; w += L.weight[t]; iw += L.fee[r][t] - L.ltfee[r][t]; v += L.value[r][t]; }
            s_eff[m] = e; s_w[m] = w; s_iw[m] = iw; s_val[m] = v;
        }
        total_eff = s_eff[(1 << n) - 1];
        total_w = s_w[(1 << n) - 1];
        for (int i = 0; i < n; i++) base_pool.push_back(L.grp[r][P.type[i]][P.copy[i]]);
    }
    std::string replay(const char* algo, CAmount target, CAmount p2, int maxw) const
    {
        std::ostringstream o;
        o << "algo " << algo << "\nregime " << regime << "\nunit " << L.unit << "\ntypes";
        for (int i = 0; i < P.n; i++) o << ' ' << P.type[i];
        o << "\ntarget " << target << "\nparam " << p2 << "\nmaxw " << maxw << "\n# pool(eff/weight) " << P.desc(L) << " " << REGIMES[regime].name;
        return o.str();
    }
    std::string call_str(const char* algo, CAmount target, const char* p2name, CAmount p2, int maxw) const
    {
        return std::string(algo) + "(pool=" + P.desc(L) + ", target=" + std::to_string(target) + ", " + p2name + "=" + std::to_string(p2) + ", max_weight=" + std::to_string(maxw) + ") " + REGIMES[regime].name;
    }
    // Map the result's input set back to a subset mask of the pool; -1 if something is not from the pool / duplicated.
    int mask_of(const SelectionResult& R) const
    {
        int mk = 0;
        size_t cnt = 0;
        for (const auto& c : R.GetInputSet()) {
            cnt++;
            bool found = false;
            for (int i = 0; i < P.n; i++) {
                if (base_pool[i].m_outputs[0].get() == c.get()) {
                    if (mk >> i & 1) return -1;
                    mk |= 1 << i;
                    found = true;
                    break;
                }
            }
            if (!found) return -1;
        }
        if (cnt != (size_t)__builtin_popcount(mk)) return -1;
        return mk;
    }
    // common validity + SelectionResult accounting
    bool check_common(const char* algo, const std::string& cs, const std::string& rp, SelectionResult& R, int mk, CAmount target, CAmount lower, int maxw)
    {
        bool ok = true;
        if (mk <= 0) { report(std::string(algo) + "-foreign-or-duplicate-input", cs + " : result contains a coin that is not in the pool, a duplicate, or nothing", rp); return false; }
        if (s_eff[mk] < lower) { report(std::string(algo) + "-insufficient", cs + " : selected effective value " + std::to_string(s_eff[mk]) + " < required " + std::to_string(lower), rp); ok = false; }
        if (s_w[mk] > maxw) { report(std::string(algo) + "-overweight", cs + " : selected weight " + std::to_string(s_w[mk]) + " > max_selection_weight", rp); ok = false; }
        if (R.GetSelectedEffectiveValue() != s_eff[mk] || R.GetSelectedValue() != s_val[mk] || R.GetWeight() != s_w[mk]) {
            report(std::string(algo) + "-result-accounting", cs + " : SelectionResult totals (effective value/value/weight) differ from the sums over its input set", rp);
            ok = false;
        }
        if (ok && s_eff[mk] >= target) {
            // waste as documented, without and with change
            R.RecalculateWaste(/*min_viable_change=*/MAX_MONEY, /*change_cost=*/777, /*change_fee=*/0);
            if (R.GetWaste() != s_iw[mk] + s_eff[mk] - target) { report(std::string(algo) + "-waste-nochange", cs + " : RecalculateWaste (no change) != inputs*(feerate-ltfeerate) + excess", rp); ok = false; }
            R.RecalculateWaste(/*min_viable_change=*/1, /*change_cost=*/777, /*change_fee=*/100);
            CAmount change = s_eff[mk] - target - 100;
            CAmount want = change >= 1 ? s_iw[mk] + 777 : s_iw[mk] + s_eff[mk] - target;
            if (R.GetWaste() != want) { report(std::string(algo) + "-waste-change", cs + " : RecalculateWaste (with change) != inputs*(feerate-ltfeerate) + change_cost", rp); ok = false; }
        }
        return ok;
    }

    void bnb(CAmount target, CAmount coc, int maxw)
    {
        st.calls++;
        auto pool = base_pool;
        auto res = SelectCoinsBnB(pool, target, coc, maxw);
        // brute force
        CAmount best = MAX_MONEY;
        int nfeas = 0;
        bool value_feasible = false;
        for (int m = 1; m < (1 << P.n); m++) {
            if (s_eff[m] < target || s_eff[m] > target + coc) continue;
            value_feasible = true;
            if (s_w[m] > maxw) continue;
            nfeas++;
            best = std::min(best, s_iw[m] + s_eff[m] - target);
        }
        if (value_feasible && (nfeas == 0)) st.weight_binding++;
        if (nfeas > 1) st.bnb_choice++;
        if (!res) {
            st.bnb_fail++;
            if (nfeas > 0) {
                // n <= 8 coins: at most 2^8 tries, far below the 100000 limit: the search was complete
                report("bnb-missed-solution", call_str("SelectCoinsBnB", target, "cost_of_change", coc, maxw) + " : returned no solution although " + std::to_string(nfeas) + " subset(s) lie in [target, target+cost_of_change] within the weight limit", replay("bnb", target, coc, maxw));
            }
            if (value_feasible && nfeas == 0) st.bnb_fail_weight++;
            return;
        }
        st.bnb_ok++;
        std::string cs = call_str("SelectCoinsBnB", target, "cost_of_change", coc, maxw), rp = replay("bnb", target, coc, maxw);
        int mk = mask_of(*res);
        if (!check_common("bnb", cs, rp, *res, mk, target, target, maxw)) return;
        if (s_eff[mk] > target + coc) report("bnb-exceeds-window", cs + " : selected " + std::to_string(s_eff[mk]) + " > target + cost_of_change", rp);
        if (res->GetAlgoCompleted()) {
            CAmount w = s_iw[mk] + s_eff[mk] - target;
            if (w > best) report("bnb-not-minimal-waste", cs + " : complete search returned waste " + std::to_string(w) + " but a feasible subset has waste " + std::to_string(best), rp);
        }
    }
    void cg(CAmount target, CAmount change_target, int maxw)
    {
        st.calls++;
        auto pool = base_pool;
        auto res = CoinGrinder(pool, target, change_target, maxw);
        int bestw = INT32_MAX, nfeas = 0;
        bool value_feasible = false;
        for (int m = 1; m < (1 << P.n); m++) {
            if (s_eff[m] < target + change_target) continue;
            value_feasible = true;
            if (s_w[m] > maxw) continue;
            nfeas++;
            bestw = std::min(bestw, s_w[m]);
        }
        if (value_feasible && nfeas == 0) st.weight_binding++;
        if (nfeas > 1) st.cg_choice++;
        if (!res) {
            st.cg_fail++;
            if (nfeas > 0) report("cg-missed-solution", call_str("CoinGrinder", target, "change_target", change_target, maxw) + " : returned no solution although " + std::to_string(nfeas) + " feasible subset(s) exist", replay("cg", target, change_target, maxw));
            return;
        }
        st.cg_ok++;
        std::string cs = call_str("CoinGrinder", target, "change_target", change_target, maxw), rp = replay("cg", target, change_target, maxw);
        int mk = mask_of(*res);
        if (!check_common("cg", cs, rp, *res, mk, target, target + change_target, maxw)) return;
        if (res->GetAlgoCompleted() && s_w[mk] > bestw) report("cg-not-minimal-weight", cs + " : complete search returned weight " + std::to_string(s_w[mk]) + " but a feasible subset has weight " + std::to_string(bestw), rp);
    }
    void knapsack(CAmount target, CAmount change_target, int maxw, int seed)
    {
        st.calls++;
        auto pool = base_pool;
        FastRandomContext rng(seed ? uint256::ONE : uint256::ZERO);
        auto res = KnapsackSolver(pool, target, change_target, rng, maxw);
        if (!res) {
            st.ks_fail++;
            // without a binding weight limit the solver must succeed whenever the pool covers the target
            if (maxw >= total_w && total_eff >= target) report("knapsack-missed-solution", call_str("KnapsackSolver", target, "change_target", change_target, maxw) + " : failed although the whole pool covers the target and fits the weight limit", replay("knapsack", target, change_target, maxw));
            return;
        }
        st.ks_ok++;
        std::string cs = call_str("KnapsackSolver", target, "change_target", change_target, maxw), rp = replay("knapsack", target, change_target, maxw);
        int mk = mask_of(*res);
        check_common("knapsack", cs, rp, *res, mk, target, target, maxw);
    }
    void srd(CAmount target, CAmount change_fee, int maxw, int seed)
    {
        st.calls++;
        FastRandomContext rng(seed ? uint256::ONE : uint256::ZERO);
        auto res = SelectCoinsSRD(base_pool, target, change_fee, rng, maxw);
        CAmount need = target + CHANGE_LOWER + change_fee;
        if (!res) {
            st.srd_fail++;
            if (maxw >= total_w && total_eff >= need) report("srd-missed-solution", call_str("SelectCoinsSRD", target, "change_fee", change_fee, maxw) + " : failed although the whole pool covers target+CHANGE_LOWER+change_fee and fits the weight limit", replay("srd", target, change_fee, maxw));
            return;
        }
        st.srd_ok++;
        std::string cs = call_str("SelectCoinsSRD", target, "change_fee", change_fee, maxw), rp = replay("srd", target, change_fee, maxw);
        int mk = mask_of(*res);
        check_common("srd", cs, rp, *res, mk, target, need, maxw);
    }
};

static std::vector<CAmount> target_grid(CAmount total, CAmount U)
{
    std::vector<CAmount> v;
    for (CAmount k = 1; k * U <= total; k++) {
        v.push_back(k * U - 50);
        v.push_back(k * U - 1);
        v.push_back(k * U);
        v.push_back(k * U + 1);
        v.push_back(k * U + U / 2);
    }
    v.push_back(total + 1);
    return v;
}
static std::vector<int> weight_menu(int total_w)
{
    std::vector<int> v{272, 592, total_w - 1, 1000000};
    std::sort(v.begin(), v.end());
    v.erase(std::unique(v.begin(), v.end()), v.end());
    v.erase(std::remove_if(v.begin(), v.end(), [](int x) { return x <= 0; }), v.end());
    return v;
}

static void enum_pools(int n, std::vector<Pool>& out)
{
    Pool p;
    p.n = n;
    std::function<void(int, int)> rec = [&](int pos, int mint) {
        if (pos == n) {
            // copy index = occurrence number of the type
            int cnt[NTYPES] = {};
            for (int i = 0; i < n; i++) p.copy[i] = cnt[p.type[i]]++;
            out.push_back(p);
            return;
        }
        for (int t = mint; t < NTYPES; t++) { p.type[pos] = t; rec(pos + 1, t); }
    };
    rec(0, 0);
}

static CoinLib g_small, g_big;

static void check_pool(const Pool& P, int r, bool with_random_algos, bool light_grid, Stats& st)
{
    {
        Ctx c(g_small, r, P, st);
        st.nontrivial += P.n >= 2;
        auto targets = target_grid(c.total_eff, g_small.unit);
        auto weights = weight_menu(c.total_w);
        for (size_t ti = 0; ti < targets.size(); ti++) {
            CAmount t = targets[ti];
            if (light_grid && (ti % 5 == 1 || ti % 5 == 3)) continue; // larger pools: skip the +-1 neighbours
            for (int mw : weights) {
                for (CAmount coc : {(CAmount)0, (CAmount)50, (CAmount)5000}) c.bnb(t, coc, mw);
                for (CAmount ct : {(CAmount)0, (CAmount)1500}) c.cg(t, ct, mw);
                if (with_random_algos)
                    for (CAmount ct : {(CAmount)0, (CAmount)1500}) for (int seed = 0; seed < 2; seed++) c.knapsack(t, ct, mw, seed);
            }
        }
    }
    if (with_random_algos) {
        Ctx c(g_big, r, P, st);
        auto targets = target_grid(c.total_eff, g_big.unit);
        auto weights = weight_menu(c.total_w);
        for (size_t ti = 0; ti < targets.size(); ti++) {
            if (ti % 5 == 1 || ti % 5 == 3) continue;
            for (int mw : weights) for (CAmount cf : {(CAmount)0, (CAmount)100}) for (int seed = 0; seed < 2; seed++) c.srd(targets[ti], cf, mw, seed);
        }
    }
}

static int run_replay()
{
    std::ifstream f(vx::ctx().replay);
    std::string line, algo;
    int regime = 0, maxw = 0;
    CAmount unit = 1000, target = 0, param = 0;
    std::vector<int> types;
    while (std::getline(f, line)) {
        if (line.empty() || line[0] == '#') continue;
        std::istringstream is(line);
        std::string k;
        is >> k;
        if (k == "algo") is >> algo;
        else if (k == "regime") is >> regime;
        else if (k == "unit") is >> unit;
        else if (k == "target") is >> target;
        else if (k == "param") is >> param;
        else if (k == "maxw") is >> maxw;
        else if (k == "types") { int t; while (is >> t) types.push_back(t); }
    }
    if (types.empty() || types.size() > MAXN || regime < 0 || regime > 1) { printf("HARNESS-ERROR bad replay\n"); return 2; }
    Pool P;
    P.n = (int)types.size();
    int cnt[NTYPES] = {};
    for (int i = 0; i < P.n; i++) { P.type[i] = types[i]; P.copy[i] = cnt[types[i]]++; }
    Stats st;
    Ctx c(unit == g_big.unit ? g_big : g_small, regime, P, st);
    printf("replaying %s pool %s target=%lld param=%lld maxw=%d\n", algo.c_str(), P.desc(c.L).c_str(), (long long)target, (long long)param, maxw);
    if (algo == "bnb") c.bnb(target, param, maxw);
    else if (algo == "cg") c.cg(target, param, maxw);
    else if (algo == "knapsack") { c.knapsack(target, param, maxw, 0); c.knapsack(target, param, maxw, 1); }
    else if (algo == "srd") { c.srd(target, param, maxw, 0); c.srd(target, param, maxw, 1); }
    return vx::finish();
}

int main(int argc, char** argv)
{
    vx::init(argc, argv, "C40", "exploration");
    auto& E = vx::ev();
    const bool big = vx::thorough();
    build_lib(g_small, 1000);
    build_lib(g_big, 25000);
    if (!vx::ctx().replay.empty()) return run_replay();

    struct PlanItem { int n; bool random_algos; bool light; };
    std::vector<PlanItem> plan;
    if (!big) plan = {{1, true, false}, {2, true, false}, {3, true, false}, {4, false, false}, {5, false, true}};
    else plan = {{1, true, false}, {2, true, false}, {3, true, false}, {4, true, false}, {5, true, false}, {6, false, false}, {7, false, true}, {8, false, true}};

    Stats total;
    std::mutex mu;
    bool complete = true;
    std::string plan_desc;
    uint64_t pools_total = 0;
    for (auto& pi : plan) {
        if (vx::deadline_reached()) { complete = false; break; }
        std::vector<Pool> pools;
        enum_pools(pi.n, pools);
        std::atomic<bool> cut{false};
        Stats ps;
        double t0 = vx::elapsed();
        vx::par_for(pools.size() * 2, 4, [&](uint64_t lo, uint64_t hi, unsigned) {
            if (cut.load() || vx::deadline_reached()) { cut = true; return; }
            Stats loc;
            for (uint64_t i = lo; i < hi; i++) check_pool(pools[i / 2], (int)(i % 2), pi.random_algos, pi.light, loc);
            std::lock_guard<std::mutex> l(mu);
            ps.add(loc);
        });
        if (cut) { complete = false; printf("n=%d cut by deadline\n", pi.n); break; }
        total.add(ps);
        pools_total += pools.size() * 2;
        char buf[300];
        snprintf(buf, sizeof buf, "n=%d pools=%zu x2 regimes algos=%s grid=%s calls=%" PRIu64, pi.n, pools.size(), pi.random_algos ? "bnb,cg,knapsack,srd" : "bnb,cg", pi.light ? "light" : "full", ps.calls);
        printf("%s (%.1fs)\n", buf, vx::elapsed() - t0);
        plan_desc += std::string(buf) + "; ";
        E.sample(buf);
    }
    E.evaluations = total.calls;
    E.distinct_nontrivial = total.bnb_choice + total.cg_choice;
    E.exhaustive = complete;
    E.set("pools", pools_total);
    E.set("bnb_success", total.bnb_ok);
    E.set("bnb_failure", total.bnb_fail);
    E.set("bnb_failure_only_weight_limited", total.bnb_fail_weight);
    E.set("coingrinder_success", total.cg_ok);
    E.set("coingrinder_failure", total.cg_fail);
    E.set("knapsack_success", total.ks_ok);
    E.set("knapsack_failure", total.ks_fail);
    E.set("srd_success", total.srd_ok);
    E.set("srd_failure", total.srd_fail);
    E.set("weight_limit_binding_cases", total.weight_binding);
    E.rule = "every multiset of n coins over 10 types (eff {1,2,3,5,9}*U x weight {272,592}) x 2 feerate regimes x target grid x max_weight menu x {cost_of_change {0,50,5000} | change_target {0,1500} | change_fee {0,100}}; "
             "U=1000 for BnB/CoinGrinder/Knapsack, U=25000 for SRD (CHANGE_LOWER=50000); " + plan_desc +
             "evaluations = real algorithm calls; distinct_nontrivial = BnB/CoinGrinder calls (all distinct inputs) for which more than one feasible subset exists, i.e. the objective decides";
    E.assume("one UTXO per OutputGroup; positive effective values; the same feerates for every coin of a pool");
    E.assume("pools of <= 8 coins need at most 2^8 BnB/CoinGrinder iterations (limit 100000), so a failure is a completed search");

    if (vx::rep().violations == 0 && complete) {
        const char* miss = nullptr;
        if (!total.bnb_ok || !total.bnb_fail) miss = "BnB success/failure class missing";
        else if (!total.cg_ok || !total.cg_fail) miss = "CoinGrinder success/failure class missing";
        else if (!total.ks_ok || !total.ks_fail) miss = "Knapsack success/failure class missing";
        else if (!total.srd_ok || !total.srd_fail) miss = "SRD success/failure class missing";
        else if (!total.weight_binding) miss = "weight limit never binding";
        if (miss) { vx::write_evidence(); printf("HARNESS-ERROR property=C40 vacuous: %s\n", miss); return 2; }
    }
    return vx::finish();
}
