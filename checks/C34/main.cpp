// C34 — Transaction download scheduling follows its specification.
// VX-STATE by history replay: BFS over all operation histories of a real TxRequestTracker(deterministic=true),
// merged on the tracker's complete announcement table, compared after every call with an announcement-level
// reference model written from the class comment of txrequest.h.
//
// The repo's txrequest.cpp is compiled into this harness (it replaces the identical archive member) so that the
// announcement table of the private Impl class can be read for the *canonical state key* (states are merged only
// if the implementation's own table is identical). The oracle itself uses only the public API.
#include <txrequest.cpp> // NOLINT(bugprone-suspicious-include)

#include <kits/histbfs.h>
#include <vx/vx.h>

#include <array>
#include <map>
#include <optional>

using namespace std::chrono_literals;
using us = std::chrono::microseconds;

namespace {

constexpr int NPEERS_MAX = 4;
int NPEERS = 3;
constexpr int NTX = 2;
// preferredness is a property of the peer in this alphabet: p0 preferred, p1 not, p2 preferred, (p3 not)
constexpr bool PREF[NPEERS_MAX] = {true, false, true, false};
const us T0{1'000'000'000};
const us DELTA{1'000'000};
uint256 TXH[NTX];
uint64_t PRIO[NTX][NPEERS_MAX]; // ComputePriority(txhash, peer, PREF[peer]) of a deterministic tracker (tie-break only)

enum OpType { INV, GETREQ, REQ, RESP, FORGET, DISC, CLKF, CLKB };
struct Op { OpType t; int p = 0, h = 0, a = 0, b = 0; };
std::vector<Op> OPS;

std::string op_str(const Op& o)
{
    char buf[128];
    switch (o.t) {
    case INV: snprintf(buf, sizeof buf, "ReceivedInv(peer=%d, %s %c, preferred=%d, reqtime=now+%d)", o.p, o.a ? "wtxid" : "txid", 'A' + o.h, PREF[o.p], o.b); break;
    case GETREQ: snprintf(buf, sizeof buf, "GetRequestable(peer=%d, now)", o.p); break;
    case REQ: snprintf(buf, sizeof buf, "RequestedTx(peer=%d, %c, expiry=now+%d)", o.p, 'A' + o.h, o.a); break;
    case RESP: snprintf(buf, sizeof buf, "ReceivedResponse(peer=%d, %c)", o.p, 'A' + o.h); break;
    case FORGET: snprintf(buf, sizeof buf, "ForgetTxHash(%c)", 'A' + o.h); break;
    case DISC: snprintf(buf, sizeof buf, "DisconnectedPeer(%d)", o.p); break;
    case CLKF: snprintf(buf, sizeof buf, "clock += 1"); break;
    case CLKB: snprintf(buf, sizeof buf, "clock -= 1"); break;
    }
    return buf;
}
std::string describe(const std::string& hist)
{
    std::string s = "# times in units of delta=1s relative to T0; txhash A=" + TXH[0].GetHex().substr(62) + " B=" + TXH[1].GetHex().substr(62) + " (last byte)\n";
    for (unsigned char c : hist) s += std::to_string((int)c) + " " + op_str(OPS[c]) + "\n";
    return s;
}

// ------------------------------------------------------------------ reference model (from the txrequest.h comment)
struct Model {
    enum St : uint8_t { NONE, CAND, REQD, COMP };
    struct Ann { St st = NONE; bool wtxid = false; bool pref = false; int64_t time = 0; uint64_t seq = 0; };
    Ann a[NTX][NPEERS_MAX];
    uint64_t seq = 0;

    void cleanup()
    { // "If only COMPLETED announcements for a given txhash remain, all of them are deleted"
        for (int h = 0; h < NTX; h++) {
            bool live = false;
            for (int p = 0; p < NPEERS; p++) live |= (a[h][p].st == CAND || a[h][p].st == REQD);
            if (!live) for (int p = 0; p < NPEERS; p++) a[h][p].st = NONE;
        }
    }
    void inv(int p, int h, bool wtxid, bool pref, int64_t reqtime)
    {
        if (a[h][p].st != NONE) return;
        a[h][p] = Ann{CAND, wtxid, pref, reqtime, seq++};
    }
    void disconnected(int p) { for (int h = 0; h < NTX; h++) a[h][p].st = NONE; cleanup(); }
    void forget(int h) { for (int p = 0; p < NPEERS; p++) a[h][p].st = NONE; }
    void requested(int p, int h, int64_t expiry)
    {
        if (a[h][p].st != CAND) return;
        for (int q = 0; q < NPEERS; q++) if (a[h][q].st == REQD) a[h][q].st = COMP;
        a[h][p].st = REQD;
        a[h][p].time = expiry;
    }
    void response(int p, int h)
    {
        if (a[h][p].st == CAND || a[h][p].st == REQD) a[h][p].st = COMP;
        cleanup();
    }
    // returns (h, wtxid) in announcement order; expired = (peer, h, wtxid)
    std::vector<std::pair<int, bool>> get_requestable(int p, int64_t now, std::vector<std::array<int, 3>>& expired)
    {
        expired.clear();
        for (int h = 0; h < NTX; h++)
            for (int q = 0; q < NPEERS; q++)
                if (a[h][q].st == REQD && a[h][q].time <= now) { a[h][q].st = COMP; expired.push_back({q, h, a[h][q].wtxid}); }
        cleanup();
        std::vector<std::pair<uint64_t, std::pair<int, bool>>> sel;
        for (int h = 0; h < NTX; h++) {
            const Ann& me = a[h][p];
            if (me.st != CAND || me.time > now) continue;
            bool outstanding = false;
            for (int q = 0; q < NPEERS; q++) outstanding |= a[h][q].st == REQD;
            if (outstanding) continue;
            bool best = true;
            for (int q = 0; q < NPEERS; q++) {
                if (q == p) continue;
                const Ann& o = a[h][q];
                if (o.st != CAND || o.time > now) continue;
                if (o.pref != me.pref) { if (o.pref) best = false; }      // preferred peers first
                else if (PRIO[h][q] > PRIO[h][p]) best = false;            // then the salted-hash tie-break
            }
            if (best) sel.push_back({me.seq, {h, me.wtxid}});
        }
        std::sort(sel.begin(), sel.end());
        std::vector<std::pair<int, bool>> r;
        for (auto& s : sel) r.push_back(s.second);
        return r;
    }
    size_t count(int p, int which) const
    { // which: 0 all, 1 in flight, 2 candidates
        size_t n = 0;
        for (int h = 0; h < NTX; h++) {
            St s = a[h][p].st;
            if (s == NONE) continue;
            if (which == 0 || (which == 1 && s == REQD) || (which == 2 && s == CAND)) n++;
        }
        return n;
    }
    size_t size() const { size_t n = 0; for (int p = 0; p < NPEERS; p++) n += count(p, 0); return n; }
    std::string key(int64_t clock) const
    {
        // sequence numbers enter only through the order among one peer's announcements; times relative to the clock
        std::string s;
        for (int h = 0; h < NTX; h++) for (int p = 0; p < NPEERS; p++) {
            const Ann& x = a[h][p];
            if (x.st == NONE) { s += "-;"; continue; }
            int rank = 0;
            for (int g = 0; g < NTX; g++) if (a[g][p].st != NONE && a[g][p].seq < x.seq) rank++;
            s += std::to_string((int)x.st) + (x.wtxid ? "w" : "t") + (x.pref ? "P" : "n") + "r" + std::to_string(rank);
            if (x.st != COMP) s += "@" + std::to_string(x.time - clock);
            s += ";";
        }
        return s;
    }
};

// ------------------------------------------------------------------ implementation state key (private table)
int tx_index(const uint256& h) { for (int i = 0; i < NTX; i++) if (TXH[i] == h) return i; return -1; }

bool g_tie_order_in_key = true;
std::string impl_key(const TxRequestTracker& t, int64_t clock)
{
    struct Row { int h, p, st; bool w, pref; int64_t time; uint64_t seq; };
    std::vector<Row> rows;
    for (const Announcement& ann : t.m_impl->m_index)
        rows.push_back(Row{tx_index(ann.m_gtxid.ToUint256()), (int)ann.m_peer, (int)ann.GetState(), ann.m_gtxid.IsWtxid(), (bool)ann.m_preferred, (int64_t)((ann.m_time - T0) / DELTA) - clock, (uint64_t)ann.m_sequence});
    std::sort(rows.begin(), rows.end(), [](const Row& x, const Row& y) { return std::tie(x.h, x.p) < std::tie(y.h, y.p); });
    std::string s;
    for (auto& r : rows) {
        int rank = 0;
        for (auto& o : rows) if (o.p == r.p && o.seq < r.seq) rank++;
        s += std::to_string(r.h) + "." + std::to_string(r.p) + ":" + std::to_string(r.st) + (r.w ? "w" : "t") + (r.pref ? "P" : "n") + "r" + std::to_string(rank);
        if (r.st != (int)State::COMPLETED) s += "@" + std::to_string(r.time);
        s += ";";
    }
    if (g_tie_order_in_key) {
        // iteration order of the two non-unique indexes (ties are kept in insertion/modification order)
        s += "|T:";
        for (const Announcement& ann : t.m_impl->m_index.get<ByTime>()) s += std::to_string(tx_index(ann.m_gtxid.ToUint256()) * NPEERS_MAX + (int)ann.m_peer) + ",";
        s += "|H:";
        for (const Announcement& ann : t.m_impl->m_index.get<ByTxHash>()) s += std::to_string(tx_index(ann.m_gtxid.ToUint256()) * NPEERS_MAX + (int)ann.m_peer) + ",";
    }
    return s;
}

// ------------------------------------------------------------------ sanity-gate counters
std::atomic<uint64_t> g_getreq{0}, g_nonempty{0}, g_expired{0}, g_pref_wins{0}, g_nonpref_served{0}, g_tiebreak[2], g_forgot_completed{0},
    g_clock_back_demote{0}, g_two_in_one{0}, g_superseded{0}, g_wtxid_ret{0}, g_txid_ret{0}, g_dup_inv_ignored{0}, g_not_yet{0}, g_blocked_by_request{0};
vx::Distinct g_nontrivial;

void fail(const std::string& key, const std::string& what, const std::string& hist)
{
    vx::violation(key, what, describe(hist));
}

// Replays hist on a fresh tracker + fresh model, checks everything after every call.
bool replay(const std::string& hist, std::string& key)
{
    TxRequestTracker trk(/*deterministic=*/true);
    Model m;
    int64_t clock = 0; // in units of DELTA after T0
    auto abs = [&](int64_t c) { return T0 + c * DELTA; };
    const size_t n = hist.size();
    for (size_t i = 0; i < n; i++) {
        const Op& o = OPS[(unsigned char)hist[i]];
        const bool last = (i + 1 == n);
        const bool chk = last; // the prefix was fully checked when it was the last step of a shorter history
        switch (o.t) {
        case INV: {
            if (chk && m.a[o.h][o.p].st != Model::NONE) g_dup_inv_ignored++;
            GenTxid g = o.a ? GenTxid{Wtxid::FromUint256(TXH[o.h])} : GenTxid{Txid::FromUint256(TXH[o.h])};
            trk.ReceivedInv(o.p, g, PREF[o.p], abs(clock + o.b));
            m.inv(o.p, o.h, o.a, PREF[o.p], clock + o.b);
            break;
        }
        case GETREQ: {
            std::vector<std::pair<NodeId, GenTxid>> expired;
            Model before = m;
            std::vector<GenTxid> got = trk.GetRequestable(o.p, abs(clock), &expired);
            trk.PostGetRequestableSanityCheck(abs(clock));
            std::vector<std::array<int, 3>> mexp;
            auto want = m.get_requestable(o.p, clock, mexp);
            if (!chk) break;
            g_getreq++;
            std::string gs, ws;
            std::vector<std::pair<int, bool>> goti;
            for (auto& g : got) { goti.push_back({tx_index(g.ToUint256()), g.IsWtxid()}); gs += std::string(g.IsWtxid() ? "w" : "t") + (char)('A' + goti.back().first) + " "; }
            for (auto& w : want) ws += std::string(w.second ? "w" : "t") + (char)('A' + w.first) + " ";
            // property clauses first (each with its own key), then full equality with the model
            for (auto& g : goti) {
                if (g.first < 0) { fail("getrequestable-unknown-txhash", "GetRequestable returned a txhash that was never announced", hist); continue; }
                const Model::Ann& me = m.a[g.first][o.p]; // state after expiry processing
                for (int q = 0; q < NPEERS; q++)
                    if (m.a[g.first][q].st == Model::REQD)
                        fail("two-outstanding-requests", "GetRequestable(peer " + std::to_string(o.p) + ") offers " + (char)('A' + g.first) + " while a request to peer " + std::to_string(q) + " is still outstanding", hist);
                if (me.st == Model::COMP || me.st == Model::REQD)
                    fail("same-peer-requested-twice", std::string("GetRequestable offers ") + (char)('A' + g.first) + " to peer " + std::to_string(o.p) + " which was already asked for this announcement", hist);
                if (me.st == Model::NONE)
                    fail("request-without-announcement", std::string("GetRequestable offers ") + (char)('A' + g.first) + " to peer " + std::to_string(o.p) + " which has no announcement for it", hist);
                if (me.st == Model::CAND && me.time > clock)
                    fail("request-before-reqtime", std::string("GetRequestable offers ") + (char)('A' + g.first) + " before the announcement's reqtime", hist);
                if (me.st == Model::CAND && !me.pref)
                    for (int q = 0; q < NPEERS; q++)
                        if (m.a[g.first][q].st == Model::CAND && m.a[g.first][q].pref && m.a[g.first][q].time <= clock)
                            fail("non-preferred-chosen-over-preferred", std::string("GetRequestable offers ") + (char)('A' + g.first) + " to non-preferred peer " + std::to_string(o.p) + " while preferred peer " + std::to_string(q) + " is ready", hist);
            }
            if (goti != want) fail("getrequestable-mismatch", "GetRequestable(peer " + std::to_string(o.p) + ") returned [" + gs + "] but the specification gives [" + ws + "]", hist);
            std::vector<std::array<int, 3>> gexp;
            for (auto& e : expired) gexp.push_back({(int)e.first, tx_index(e.second.ToUint256()), (int)e.second.IsWtxid()});
            std::sort(gexp.begin(), gexp.end());
            std::sort(mexp.begin(), mexp.end());
            if (gexp != mexp) fail("expired-mismatch", "GetRequestable reported " + std::to_string(gexp.size()) + " expired requests, the specification gives " + std::to_string(mexp.size()) + " (or different ones)", hist);
            // coverage bookkeeping
            if (!want.empty()) g_nonempty++;
            if (want.size() >= 2) g_two_in_one++;
            if (!mexp.empty()) g_expired++;
            for (auto& w : want) {
                (w.second ? g_wtxid_ret : g_txid_ret)++;
                const Model::Ann& me = m.a[w.first][o.p];
                for (int q = 0; q < NPEERS; q++) {
                    if (q == o.p) continue;
                    const Model::Ann& x = m.a[w.first][q];
                    if (x.st != Model::CAND || x.time > clock) continue;
                    if (me.pref && !x.pref && PRIO[w.first][q] << 1 > PRIO[w.first][o.p] << 1) g_pref_wins++; // wins despite the lower hash
                    if (me.pref == x.pref) g_tiebreak[o.p < q]++;
                }
                if (!me.pref) g_nonpref_served++;
            }
            for (int h = 0; h < NTX; h++) {
                const Model::Ann& me = m.a[h][o.p];
                if (me.st == Model::CAND && me.time > clock) g_not_yet++;
                if (me.st == Model::CAND && me.time <= clock)
                    for (int q = 0; q < NPEERS; q++) if (m.a[h][q].st == Model::REQD) g_blocked_by_request++;
            }
            (void)before;
            break;
        }
        case REQ: {
            if (chk && m.a[o.h][o.p].st == Model::CAND)
                for (int q = 0; q < NPEERS; q++) if (m.a[o.h][q].st == Model::REQD) g_superseded++;
            trk.RequestedTx(o.p, TXH[o.h], abs(clock + o.a));
            m.requested(o.p, o.h, clock + o.a);
            break;
        }
        case RESP: {
            size_t before = m.size();
            trk.ReceivedResponse(o.p, TXH[o.h]);
            m.response(o.p, o.h);
            if (chk && before >= 2 && m.size() + 2 <= before) g_forgot_completed++;
            break;
        }
        case FORGET: trk.ForgetTxHash(TXH[o.h]); m.forget(o.h); break;
        case DISC: trk.DisconnectedPeer(o.p); m.disconnected(o.p); break;
        case CLKF: clock++; break;
        case CLKB:
            clock--;
            if (chk) for (int h = 0; h < NTX; h++) for (int p = 0; p < NPEERS; p++) if (m.a[h][p].st == Model::CAND && m.a[h][p].time == clock + 1) g_clock_back_demote++;
            break;
        }
        if (!chk) continue;
        // after the last call: internal consistency + every query against the model
        trk.SanityCheck();
        for (int p = 0; p < NPEERS; p++) {
            if (trk.Count(p) != m.count(p, 0)) fail("count-mismatch", "Count(peer " + std::to_string(p) + ")=" + std::to_string(trk.Count(p)) + " specification " + std::to_string(m.count(p, 0)), hist);
            if (trk.CountInFlight(p) != m.count(p, 1)) fail("countinflight-mismatch", "CountInFlight(peer " + std::to_string(p) + ")=" + std::to_string(trk.CountInFlight(p)) + " specification " + std::to_string(m.count(p, 1)), hist);
            if (trk.CountCandidates(p) != m.count(p, 2)) fail("countcandidates-mismatch", "CountCandidates(peer " + std::to_string(p) + ")=" + std::to_string(trk.CountCandidates(p)) + " specification " + std::to_string(m.count(p, 2)), hist);
        }
        if (trk.Size() != m.size()) fail("size-mismatch", "Size()=" + std::to_string(trk.Size()) + " specification " + std::to_string(m.size()), hist);
        for (int h = 0; h < NTX; h++) {
            std::vector<NodeId> peers;
            trk.GetCandidatePeers(TXH[h], peers);
            std::sort(peers.begin(), peers.end());
            std::vector<NodeId> want;
            int inflight = 0;
            for (int p = 0; p < NPEERS; p++) {
                if (m.a[h][p].st == Model::CAND || m.a[h][p].st == Model::REQD) want.push_back(p);
                inflight += m.a[h][p].st == Model::REQD;
            }
            if (peers != want) fail("candidatepeers-mismatch", std::string("GetCandidatePeers(") + (char)('A' + h) + ") differs from the specification", hist);
            if (inflight > 1) fail("model-two-outstanding", "two outstanding requests for one txhash", hist);
        }
    }
    key = impl_key(trk, clock) + "|" + m.key(clock);
    return true;
}

int run()
{
    auto& E = vx::ev();
    const bool big = vx::thorough();
    NPEERS = 3;

    // txhashes: chosen so that the salted-hash tie-break between the two preferred peers goes both ways
    {
        TxRequestTracker t(true);
        int found = 0;
        bool want_p0_first = true;
        for (int i = 1; i < 256 && found < NTX; i++) {
            uint256 h;
            *h.begin() = (unsigned char)i;
            bool p0_first = t.ComputePriority(h, 0, true) > t.ComputePriority(h, 2, true);
            if (p0_first == want_p0_first) { TXH[found++] = h; want_p0_first = !want_p0_first; }
        }
        if (found < NTX) { printf("HARNESS-ERROR could not find txhashes with opposite tie-break order\n"); return 2; }
        for (int h = 0; h < NTX; h++) for (int p = 0; p < NPEERS_MAX; p++) PRIO[h][p] = t.ComputePriority(TXH[h], p, PREF[p]);
    }
    for (int p = 0; p < NPEERS; p++) for (int h = 0; h < NTX; h++) for (int w = 0; w < 2; w++) for (int rt = 0; rt < 2; rt++) OPS.push_back(Op{INV, p, h, w, rt});
    for (int p = 0; p < NPEERS; p++) OPS.push_back(Op{GETREQ, p});
    for (int p = 0; p < NPEERS; p++) for (int h = 0; h < NTX; h++) for (int e = 1; e <= 2; e++) OPS.push_back(Op{REQ, p, h, e});
    for (int p = 0; p < NPEERS; p++) for (int h = 0; h < NTX; h++) OPS.push_back(Op{RESP, p, h});
    for (int h = 0; h < NTX; h++) OPS.push_back(Op{FORGET, 0, h});
    for (int p = 0; p < NPEERS; p++) OPS.push_back(Op{DISC, p});
    OPS.push_back(Op{CLKF});
    OPS.push_back(Op{CLKB});
    hb::describer() = describe;

    if (!vx::ctx().replay.empty()) {
        std::string hist;
        // replay files list "<op index> <text>" per line
        std::ifstream f(vx::ctx().replay);
        std::string line;
        while (std::getline(f, line)) { if (line.empty() || !isdigit((unsigned char)line[0])) continue; hist.push_back((char)atoi(line.c_str())); }
        printf("replaying %zu operations:\n%s", hist.size(), describe(hist).c_str());
        for (size_t i = 1; i <= hist.size(); i++) { std::string k; replay(hist.substr(0, i), k); }
        printf("replay finished: %d violation(s)\n", vx::rep().violations);
        return vx::finish();
    }

    // phase 1: states merged on the complete implementation table incl. the iteration order of tied index entries
    // phase 2 (thorough): one level deeper, tie order of equal index keys left out of the key
    struct Phase { bool tie_order; int depth; };
    std::vector<Phase> phases;
    if (vx::ctx().args.size() >= 2) phases.push_back({atoi(vx::ctx().args[1].c_str()) != 0, atoi(vx::ctx().args[0].c_str())});
    else if (big) { phases.push_back({true, 6}); phases.push_back({false, 7}); }
    else phases.push_back({true, 5});
    uint64_t states = 0, transitions = 0;
    bool complete = true;
    int pi = 0;
    for (const Phase& ph : phases) {
        pi++;
        if (vx::deadline_reached()) { complete = false; break; }
        g_tie_order_in_key = ph.tie_order;
        hb::Bfs bfs;
        bfs.nops = (int)OPS.size();
        bfs.max_depth = ph.depth;
        bfs.replay = replay;
        std::map<int, int> per_depth;
        bfs.on_new_state = [&](const std::string& h, int d) {
            if (d < 3 || pi > 1) return;
            OpType lt = OPS[(unsigned char)h.back()].t;
            if (lt != GETREQ && lt != DISC && lt != RESP) return;
            if (per_depth[d * 10 + lt]++ >= 1) return;
            std::string s;
            for (unsigned char c : h) s += op_str(OPS[c]) + "; ";
            E.sample(s);
        };
        bfs.run();
        // states of a later phase are counted only at depths the earlier phases did not reach
        uint64_t st = 0;
        int prev_depth = pi > 1 ? phases[pi - 2].depth : -1;
        for (size_t d = 0; d < bfs.level_states.size(); d++) if ((int)d > prev_depth) st += bfs.level_states[d];
        states += st;
        transitions += bfs.transitions;
        complete &= bfs.complete;
        std::string ls;
        for (auto v : bfs.level_states) ls += std::to_string(v) + " ";
        std::string pn = "phase" + std::to_string(pi);
        E.set_str(pn + "_key", ph.tie_order ? "announcement table + iteration order of tied entries in the ByTime/ByTxHash indexes" : "announcement table only");
        E.set(pn + "_max_depth_completed", (uint64_t)bfs.depth_done);
        E.set(pn + "_max_depth_target", (uint64_t)ph.depth);
        E.set_str(pn + "_new_states_per_depth", ls);
        E.set(pn + "_transitions", bfs.transitions);
        if (hb::shared()) { hb::shared()->states = states; hb::shared()->transitions = transitions; }
        if (!bfs.complete) break;
    }
    E.states = states;
    E.transitions = transitions;
    E.traces_validated = transitions;
    E.exhaustive = complete;
    E.set("operations_in_alphabet", (uint64_t)OPS.size());
    E.set("getrequestable_compared", g_getreq.load());
    E.set("getrequestable_nonempty", g_nonempty.load());
    E.set("expiry_events", g_expired.load());
    E.set("preferred_beats_higher_hash", g_pref_wins.load());
    E.set("nonpreferred_served", g_nonpref_served.load());
    E.set("tiebreak_lower_peer_wins", g_tiebreak[1].load());
    E.set("tiebreak_higher_peer_wins", g_tiebreak[0].load());
    E.set("forgotten_when_only_completed", g_forgot_completed.load());
    E.set("clock_backwards_demotions", g_clock_back_demote.load());
    E.set("superseding_requests", g_superseded.load());
    E.rule = "BFS over all histories of {ReceivedInv(3 peers x 2 txhashes x txid/wtxid x reqtime now/now+1), GetRequestable(peer, now), RequestedTx(peer, txhash, expiry now+1/now+2) for ANY peer/txhash (not only offered ones), ReceivedResponse, ForgetTxHash, DisconnectedPeer, clock +1, clock -1}; "
             "peers p0,p2 preferred, p1 not; to the depth given per phase; states merged on (the tracker's full announcement table with times relative to the clock and sequence numbers by per-peer rank, model state) - see phaseN_key; states = phase-1 states + states first reached at the extra depth of phase 2; every transition is a real call followed by SanityCheck (and PostGetRequestableSanityCheck), comparison of Count/CountInFlight/CountCandidates/Size/GetCandidatePeers and, for GetRequestable, of the returned list (in order) and the expired set with the announcement-level model";
    E.assume("TxRequestTracker(deterministic=true) has no hidden state besides the announcement table (m_index), the per-peer counters derived from it and the sequence counter; behaviour is invariant under a common shift of all times and depends on sequence numbers only through the order among one peer's announcements (states are merged accordingly)");
    E.assume("phase 2 additionally assumes that the relative order of index entries with equal keys does not influence behaviour");
    E.assume("the salted-hash tie-break among peers of equal preferredness is taken from TxRequestTracker::ComputePriority (a testing accessor); preferred-before-non-preferred is decided by the model alone");

    // vacuity gates
    struct G { const char* n; uint64_t v; } gates[] = {
        {"GetRequestable returned something", g_nonempty}, {"a request expired", g_expired}, {"preferred peer won against a higher hash", g_pref_wins},
        {"non-preferred peer served", g_nonpref_served}, {"tie-break: lower peer id won", g_tiebreak[1]}, {"tie-break: higher peer id won", g_tiebreak[0]},
        {"txhash forgotten when only COMPLETED remained", g_forgot_completed}, {"clock went backwards over a reqtime", g_clock_back_demote},
        {"unexpected RequestedTx superseded an outstanding request", g_superseded}, {"wtxid returned", g_wtxid_ret}, {"txid returned", g_txid_ret},
        {"duplicate inv ignored", g_dup_inv_ignored}, {"candidate not yet requestable", g_not_yet}, {"candidate blocked by outstanding request", g_blocked_by_request},
        {"two txhashes in one GetRequestable", g_two_in_one}};
    for (auto& g : gates)
        if (g.v == 0 && complete && vx::rep().violations == 0) { printf("HARNESS-ERROR vacuous: never observed '%s'\n", g.n); vx::write_evidence(); return 2; }
    return vx::finish();
}

} // namespace

int main(int argc, char** argv)
{
    vx::init(argc, argv, "C34", "model_checking");
    return hb::guarded(run);
}
