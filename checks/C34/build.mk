LINK := small
INCLUDED_SRCS := txrequest.cpp
