// C28 — Test-accept is faithful and side-effect free; policy implies consensus.
// poolsim exploration in which every single-transaction submission is one transition that first runs
// ProcessTransaction(tx, test_accept=true) and then ProcessTransaction(tx, test_accept=false) on the same state.
// Oracle:
//   (a) the pool observation (entries, fees, deltas, entry times, pool order, prioritisation map, unbroadcast set,
//       totals, rolling-minimum-fee fields, sequence counter, update counter, no staging / change set left open)
//       is identical before and after the test run;
//   (b) the test verdict equals the real verdict (result type, validation result code, reject reason, vsize, base
//       fee, effective feerate and its wtxid list) unless the real submission ended in "mempool full" (size limit);
//   (c) every input of every accepted transaction passes VerifyScript under the consensus flags of the next block
//       (re-run directly, no cache).
#include <kits/poolsim_main.h>
#include <script/interpreter.h>

namespace {
using namespace ps;

struct C28 : Monitor {
    std::string what() const override
    {
        return "every submission transition runs test_accept first: pool observation unchanged by the test run; test verdict == real verdict (type, result code, reason, vsize, fee, effective feerate) unless the real run ends in 'mempool full'; inputs of accepted txs pass VerifyScript under next-block consensus flags";
    }
    static std::string PoolObs(Sim& sim, const Snap& s)
    {
        CTxMemPool& pool = sim.pool();
        std::string k;
        for (auto& t : s.txs) k += t.tx->GetWitnessHash().ToString() + ":" + std::to_string(t.fee) + ":" + std::to_string(t.delta) + ":" + std::to_string(t.time) + ":" + std::to_string(t.vsize) + ",";
        k += "|";
        for (auto& [t, d] : s.deltas) k += t.ToString() + "=" + std::to_string(d) + ",";
        LOCK2(cs_main, pool.cs);
        k += "|unb:";
        for (auto& u : pool.m_unbroadcast_txids) k += u.ToString();
        k += "|tot:" + std::to_string(pool.GetTotalTxSize()) + ":" + std::to_string(pool.GetTotalFee()) + ":" + std::to_string(pool.mapNextTx.size());
        uint64_t bits; double r = pool.rollingMinimumFeeRate; memcpy(&bits, &r, 8);
        k += "|roll:" + std::to_string(bits) + ":" + std::to_string(pool.lastRollingFeeUpdate) + ":" + std::to_string((int)pool.blockSinceLastRollingFeeBump);
        k += "|seq:" + std::to_string(pool.GetSequence()) + "|upd:" + std::to_string(pool.GetTransactionsUpdated());
        k += "|open:" + std::to_string((int)pool.m_have_changeset) + std::to_string((int)pool.m_txgraph->HaveStaging());
        return k;
    }
    std::string pre_obs; // PoolObs needs the live pool, so the engine hook below captures it at the right moments

    static std::string Verdict(const MempoolAcceptResult& r)
    {
        std::string v = "type=" + std::to_string((int)r.m_result_type) + " code=" + std::to_string((int)r.m_state.GetResult()) + " reason=" + r.m_state.GetRejectReason();
        v += " vsize=" + (r.m_vsize ? std::to_string(*r.m_vsize) : "-") + " fee=" + (r.m_base_fees ? std::to_string(*r.m_base_fees) : "-");
        v += " effrate=" + (r.m_effective_feerate ? std::to_string(r.m_effective_feerate->GetFeePerK()) : "-") + " wtxids=";
        if (r.m_wtxids_fee_calculations) for (auto& w : *r.m_wtxids_fee_calculations) v += w.ToString().substr(0, 8);
        else v += "-";
        v += " other=" + (r.m_other_wtxid ? r.m_other_wtxid->ToString().substr(0, 8) : "-");
        return v;
    }

    void after(Sim& sim, const Step& st) override
    {
        if (st.act.kind != Act::SUBMIT || !st.test) return;
        std::string cls = Sim::SplitLabel(st.label)[0];
        // (a) side-effect freedom
        if (st.obs_pre != st.obs_mid) sim.fs.report("C28-test-accept-changed-pool:" + cls, "test_accept of '" + st.label + "' changed the mempool observation: before {" + st.obs_pre.substr(0, 600) + "} after {" + st.obs_mid.substr(0, 600) + "}");
        // (b) faithfulness
        const MempoolAcceptResult& t = *st.test;
        const MempoolAcceptResult& r = *st.res;
        bool full = r.m_result_type == MempoolAcceptResult::ResultType::INVALID && r.m_state.GetRejectReason() == "mempool full";
        if (full) sim.Bump(12);
        else if (Verdict(t) != Verdict(r)) sim.fs.report("C28-verdict-differs:" + cls, "'" + st.label + "': test_accept says {" + Verdict(t) + "} but the submission says {" + Verdict(r) + "}");
        if (t.m_result_type == MempoolAcceptResult::ResultType::VALID) sim.Bump(10); else sim.Bump(11);
        sim.fs.sh->outcome_classes[13] |= (uint64_t)1 << std::min<int>(40, (int)t.m_state.GetResult());
        // (c) policy implies consensus
        if (st.accepted()) {
            const CTransaction& tx = *st.act.txs[0];
            std::vector<CTxOut> spent;
            bool ok = true;
            for (auto& in : tx.vin) {
                auto pit = st.pre.idx.find(in.prevout.hash);
                if (pit != st.pre.idx.end()) spent.push_back(st.pre.txs[pit->second].tx->vout.at(in.prevout.n));
                else { auto c = sim.n.GetCoin(in.prevout); if (!c) { ok = false; break; } spent.push_back(c->out); }
            }
            if (!ok) { sim.fs.report("C28-accepted-missing-input:" + cls, "accepted tx spends a coin that is neither in the UTXO set nor in the pool"); return; }
            script_verify_flags flags;
            {
                LOCK(cs_main);
                CBlockIndex next;
                next.pprev = sim.n.cs().m_chain.Tip();
                next.nHeight = next.pprev->nHeight + 1;
                next.nTime = next.pprev->nTime + 600;
                uint256 dummy;
                next.phashBlock = &dummy;
                flags = GetBlockScriptFlags(next, sim.n.chainman());
            }
            PrecomputedTransactionData txdata;
            txdata.Init(tx, std::vector<CTxOut>(spent), true);
            for (size_t i = 0; i < tx.vin.size(); i++) {
                ScriptError err;
                TransactionSignatureChecker checker(&tx, i, spent[i].nValue, txdata, MissingDataBehavior::ASSERT_FAIL);
                if (!VerifyScript(tx.vin[i].scriptSig, spent[i].scriptPubKey, &tx.vin[i].scriptWitness, flags, checker, &err))
                    sim.fs.report("C28-policy-not-consensus:" + cls, "tx accepted by '" + st.label + "' fails VerifyScript under next-block consensus flags: " + ScriptErrorString(err));
                sim.Bump(14);
            }
        }
    }
    int gate(Sim& sim) override
    {
        auto* sh = sim.fs.sh;
        if (!sh->outcome_classes[10].load() || !sh->outcome_classes[11].load()) { printf("HARNESS-ERROR property=C28 test_accept verdicts: valid=%llu invalid=%llu (both must occur)\n", (unsigned long long)sh->outcome_classes[10].load(), (unsigned long long)sh->outcome_classes[11].load()); return 2; }
        if (!sh->outcome_classes[14].load()) { printf("HARNESS-ERROR property=C28 no script re-verification happened\n"); return 2; }
        uint64_t codes = sh->outcome_classes[13].load();
        vx::ev().set("validation_result_codes_seen_bitmask", codes);
        if (sim.o.has("NX") && __builtin_popcountll(codes) < 5) { printf("HARNESS-ERROR property=C28 fewer than 5 distinct validation result codes seen (mask %llx)\n", (unsigned long long)codes); return 2; }
        return 0;
    }
};
} // namespace

int main(int argc, char** argv)
{
    C28 mon;
    return ps::Main(argc, argv, "C28", [&] {
        ps::Opts o;
        o.test_before_submit = true;
        o.obs = [](ps::Sim& sim, const ps::Snap& s) { return C28::PoolObs(sim, s); };
        o.script_coins = 4;
        o.base_blocks = 124;
        o.classes = {"N", "C", "R", "RS", "RD", "D", "W", "NX", "M", "P", "T"};
        o.guarded = true;
        o.prefill = 1;            // a non-empty pool in the root state: T / C / R / S are enabled from the start
        o.fees = "lh";
        o.child_fees = "h";
        o.thr = "bd";
        o.max_idx = 1;
        o.prio_minus = false; o.prio_next = true;
        o.depth_quick = 2; o.depth_thorough = 3;
        if (!vx::thorough()) return ps::Configs{{"", o}};
        // thorough: (a) the quick menu one level deeper; (b) the full menu (TRUC, version mismatches, time locks, edge of
        // maturity, sibling eviction, cluster joins, reorg, every fee code / threshold) at depth 2; (c) a pool one tx below
        // its size limit (the "mempool full" exemption and trimming side effects)
        ps::Opts deep = o;
        deep.depth_thorough = 3;
        ps::Opts rich = o;
        for (const char* c : {"N3", "CV", "NL", "NQ", "NY", "I", "SB", "J"}) rich.classes.insert(c);
        rich.fees = "zlmh"; rich.thr = "abcde"; rich.prio_minus = true; rich.max_idx = 2;
        rich.depth_thorough = 2;
        ps::Opts f = o;
        f.prefill = 13;
        f.base_blocks = 130;
        f.classes = {"N", "C", "R", "M", "P", "T"};
        f.fees = "mh";
        f.depth_thorough = 2;
        return ps::Configs{{"_deep", deep}, {"_rich", rich}, {"_full", f}};
    }, mon);
}
