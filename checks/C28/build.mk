LINK := full
KITS := chainkit
