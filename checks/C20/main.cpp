// C20 — A UTXO snapshot is used only if it matches its commitment.
//
// Source: a real TestChain100Setup chain extended to height 111 (its height-110 block hash and UTXO hash are the
// regtest assumeutxo commitment), dumped with the real CreateUTXOSnapshot at heights 100, 110 and 111.
// Target: ck::Node T (single-threaded regtest node) holding blocks 1..100 and headers 101..110.
// Enumerated corruptions of the valid height-110 snapshot file: every byte x {0x01,0x80}, every truncation length,
// 1-3 appended bytes, and structured single-field edits (metadata fields, every coin's height / coinbase bit /
// amount / script / output index / per-txid count, missing / extra / duplicated / reordered coins); plus scenarios
// (non-assumeutxo base, invalid base, base without more work, unknown base header, second activation) and
// background validation of a genuine and of doctored-but-self-consistent snapshots.
// Oracle: an independent decoder (below; encoder = ref/refmodel_coincodec.h) decodes the mutated file. If it is
// malformed, names another base block, or its coin set differs from the original, the real loadtxoutset sequence
// (SnapshotMetadata >> ; ChainstateManager::ActivateSnapshot) must fail and tip, number of chainstates, the active
// UTXO set and the datadir must be unchanged. Files decoding to the identical coin set may be accepted (they run in
// a fork); when accepted the active UTXO set must equal the decoded set.
#include <vx/vx.h>
#include <kits/chainkit.h>
#include <kits/forkpool.h>
#include <ref/refmodel_coincodec.h>

#include <chainparams.h>
#include <hash.h>
#include <kernel/chainparams.h>
#include <node/blockstorage.h>
#include <node/utxo_snapshot.h>
#include <rpc/blockchain.h>
#include <streams.h>
#include <test/util/setup_common.h>
#include <univalue.h>
#include <util/fs.h>
#include <util/time.h>
#include <validation.h>

using Bytes = std::vector<unsigned char>;

// ------------------------------------------------------------------------------------------ independent decoder
struct DCoin {
    uint32_t height{0};
    bool cb{false};
    uint64_t amount{0};
    Bytes script;
    bool operator==(const DCoin& o) const { return height == o.height && cb == o.cb && amount == o.amount && script == o.script; }
};
using TxidB = std::array<unsigned char, 32>;
using OutKey = std::pair<TxidB, uint32_t>;
using CoinMap = std::map<OutKey, DCoin>; // ordered bytewise by txid, then by index: the order of the coins database
struct Group { TxidB txid; std::vector<std::pair<uint32_t, DCoin>> coins; };
struct Snap {
    Bytes magic{'u', 't', 'x', 'o', 0xff};
    uint16_t version{2};
    Bytes netmagic;
    Bytes base_hash;
    uint64_t count{0};
    std::vector<Group> groups;
};
struct Decoded {
    bool ok{false};
    std::string err;
    Snap s;
    CoinMap first, last; // duplicate outpoints: first occurrence wins / last occurrence wins
};

struct Rd {
    const Bytes& b;
    size_t p{0};
    bool fail{false};
    unsigned char u8() { if (p >= b.size()) { fail = true; return 0; } return b[p++]; }
    Bytes take(size_t n) { if (fail || b.size() - p < n) { fail = true; return {}; } Bytes o(b.begin() + p, b.begin() + p + n); p += n; return o; }
    void skip(size_t n) { if (fail || b.size() - p < n) { fail = true; return; } p += n; }
    uint64_t le(int n) { uint64_t v = 0; for (int i = 0; i < n; i++) v |= (uint64_t)u8() << (8 * i); return v; }
    // CompactSize: canonical encodings only, at most 0x02000000
    uint64_t compact()
    {
        unsigned char c = u8();
        uint64_t v;
        if (c < 253) v = c;
        else if (c == 253) { v = le(2); if (v < 253) fail = true; }
        else if (c == 254) { v = le(4); if (v < 0x10000) fail = true; }
        else { v = le(8); if (v < 0x100000000ULL) fail = true; }
        if (v > 0x02000000) fail = true;
        return v;
    }
    // base-128 varint, most significant group first, +1 per continuation; overflow of `bits` is an error
    uint64_t varint(int bits)
    {
        const uint64_t max = bits == 64 ? ~0ULL : ((1ULL << bits) - 1);
        uint64_t n = 0;
        for (;;) {
            unsigned char c = u8();
            if (fail) return 0;
            if (n > (max >> 7)) { fail = true; return 0; }
            n = (n << 7) | (c & 0x7f);
            if (c & 0x80) { if (n == max) { fail = true; return 0; } n++; }
            else return n;
        }
    }
};

// amount decompression, from the format comment (inverse of refcoin::compress_amount)
static uint64_t DecompressAmountRef(uint64_t x)
{
    if (x == 0) return 0;
    x--;
    int e = x % 10;
    x /= 10;
    uint64_t n;
    if (e < 9) { int d = (x % 9) + 1; x /= 9; n = x * 10 + d; }
    else n = x + 1;
    while (e--) n *= 10;
    return n;
}

static Decoded Decode(const Bytes& file, const Bytes& want_netmagic)
{
    Decoded d;
    Rd r{file};
    d.s.magic = r.take(5);
    if (r.fail || d.s.magic != Bytes{'u', 't', 'x', 'o', 0xff}) { d.err = "snapshot magic"; return d; }
    d.s.version = (uint16_t)r.le(2);
    if (r.fail || d.s.version != 2) { d.err = "version"; return d; }
    d.s.netmagic = r.take(4);
    if (r.fail || d.s.netmagic != want_netmagic) { d.err = "network magic"; return d; }
    d.s.base_hash = r.take(32);
    d.s.count = r.le(8);
    if (r.fail) { d.err = "truncated metadata"; return d; }
    uint64_t left = d.s.count;
    while (left > 0) {
        Group g;
        Bytes t = r.take(32);
        if (r.fail) { d.err = "truncated txid"; return d; }
        std::copy(t.begin(), t.end(), g.txid.begin());
        uint64_t k = r.compact();
        if (r.fail) { d.err = "bad per-txid count"; return d; }
        if (k > left) { d.err = "per-txid count exceeds coins left"; return d; }
        for (uint64_t i = 0; i < k; i++) {
            uint64_t n = r.compact();
            uint64_t code = r.varint(32);
            uint64_t camount = r.varint(64);
            uint64_t ssz = r.varint(32);
            if (r.fail) { d.err = "bad coin record"; return d; }
            DCoin c;
            c.height = (uint32_t)(code >> 1);
            c.cb = code & 1;
            c.amount = DecompressAmountRef(camount);
            if (ssz < 6) {
                Bytes pl = r.take(ssz < 2 ? 20 : 32);
                if (r.fail) { d.err = "truncated special script"; return d; }
                if (ssz == 0) { c.script = {0x76, 0xa9, 0x14}; c.script.insert(c.script.end(), pl.begin(), pl.end()); c.script.push_back(0x88); c.script.push_back(0xac); }
                else if (ssz == 1) { c.script = {0xa9, 0x14}; c.script.insert(c.script.end(), pl.begin(), pl.end()); c.script.push_back(0x87); }
                else if (ssz <= 3) { c.script = {0x21, (unsigned char)ssz}; c.script.insert(c.script.end(), pl.begin(), pl.end()); c.script.push_back(0xac); }
                else { c.script = {0xfe, 0xfe, (unsigned char)ssz}; c.script.insert(c.script.end(), pl.begin(), pl.end()); } // uncompressed-key form: kept opaque (never equals a script of the original set)
            } else {
                uint64_t len = ssz - 6;
                if (len > 10000) { r.skip(len); c.script = {0x6a}; }
                else c.script = r.take(len);
                if (r.fail) { d.err = "truncated script"; return d; }
            }
            g.coins.emplace_back((uint32_t)n, c);
            OutKey key{g.txid, (uint32_t)n};
            d.first.emplace(key, c);
            d.last[key] = c;
            left--;
        }
        d.s.groups.push_back(std::move(g));
    }
    if (r.p != file.size()) { d.err = "bytes left over"; return d; }
    d.ok = true;
    return d;
}

static void PutLE(Bytes& o, uint64_t v, int n) { for (int i = 0; i < n; i++) o.push_back((unsigned char)(v >> (8 * i))); }
static void PutCompact(Bytes& o, uint64_t v)
{
    if (v < 253) o.push_back((unsigned char)v);
    else if (v <= 0xffff) { o.push_back(253); PutLE(o, v, 2); }
    else if (v <= 0xffffffffULL) { o.push_back(254); PutLE(o, v, 4); }
    else { o.push_back(255); PutLE(o, v, 8); }
}
// raw_script: encode every script in the "varint(len+6) || bytes" form even if a special form exists
static Bytes Encode(const Snap& s, bool raw_script_for_group = false, size_t raw_group = 0)
{
    Bytes o = s.magic;
    PutLE(o, s.version, 2);
    o.insert(o.end(), s.netmagic.begin(), s.netmagic.end());
    o.insert(o.end(), s.base_hash.begin(), s.base_hash.end());
    PutLE(o, s.count, 8);
    for (size_t gi = 0; gi < s.groups.size(); gi++) {
        const Group& g = s.groups[gi];
        o.insert(o.end(), g.txid.begin(), g.txid.end());
        PutCompact(o, g.coins.size());
        for (auto& [n, c] : g.coins) {
            PutCompact(o, n);
            Bytes rec;
            if (raw_script_for_group && gi == raw_group) {
                Bytes es;
                refcoin::put_varint(es, c.script.size() + 6);
                es.insert(es.end(), c.script.begin(), c.script.end());
                rec = refcoin::coin_record_pre(c.height, c.cb, c.amount, es);
            } else rec = refcoin::coin_record(c.height, c.cb, c.amount, c.script);
            o.insert(o.end(), rec.begin(), rec.end());
        }
    }
    return o;
}
// the committed hash: SHA256d over, for every coin in database order, outpoint | LE32(height*2+coinbase) | amount | script
static uint256 HashSerializedRef(const CoinMap& m)
{
    Bytes o;
    for (auto& [k, c] : m) {
        o.insert(o.end(), k.first.begin(), k.first.end());
        PutLE(o, k.second, 4);
        PutLE(o, (uint64_t)c.height * 2 + (c.cb ? 1 : 0), 4);
        PutLE(o, c.amount, 8);
        PutCompact(o, c.script.size());
        o.insert(o.end(), c.script.begin(), c.script.end());
    }
    return Hash(o);
}
static CoinMap NodeUtxo(ck::Node& n)
{
    CoinMap m;
    for (auto& [op, c] : n.UtxoByCursor()) {
        OutKey k;
        { const uint256& u = op.hash.ToUint256(); std::copy(u.begin(), u.end(), k.first.begin()); }
        k.second = op.n;
        DCoin d;
        d.height = c.nHeight; d.cb = c.fCoinBase; d.amount = (uint64_t)c.out.nValue; d.script = Bytes(c.out.scriptPubKey.begin(), c.out.scriptPubKey.end());
        m.emplace(k, d);
    }
    return m;
}
static uint64_t MapDigest(const CoinMap& m) { uint256 h = HashSerializedRef(m); return vx::fnv1a(h.begin(), 32); }

// ------------------------------------------------------------------------------------------ cases
struct Case {
    std::string name;   // stable description
    Bytes file;
    bool in_memory{true};
};

struct World {
    ck::Node& T;
    fs::path scratch;
    std::vector<CBlock> blocks; // [0] unused, 1..111
    Bytes s100, s110, s111;
    Bytes netmagic;
    Decoded orig;
    uint256 h110;

    struct State { uint256 tip; size_t nchainstates; uint64_t utxo; bool snapdir; bool from_snapshot; std::optional<int> snap_height; };
    State Observe()
    {
        State s;
        s.tip = T.tip()->GetBlockHash();
        {
            LOCK(cs_main);
            s.nchainstates = T.chainman().m_chainstates.size();
            s.from_snapshot = (bool)T.chainman().CurrentChainstate().m_from_snapshot_blockhash;
            s.snap_height = T.chainman().m_blockman.m_snapshot_height;
        }
        s.utxo = MapDigest(NodeUtxo(T));
        s.snapdir = (bool)node::FindAssumeutxoChainstateDir(T.chainman().m_options.datadir);
        return s;
    }
    static std::string Diff(const State& a, const State& b)
    {
        std::string d;
        if (a.tip != b.tip) d += " tip changed";
        if (a.nchainstates != b.nchainstates) d += " number of chainstates changed";
        if (a.utxo != b.utxo) d += " active UTXO set changed";
        if (a.snapdir != b.snapdir) d += " snapshot chainstate directory left behind";
        if (a.from_snapshot != b.from_snapshot) d += " active chainstate became snapshot-based";
        if (a.snap_height != b.snap_height) d += " block manager snapshot height changed";
        return d;
    }

    // Forked processes share T's datadir on disk; an on-disk snapshot chainstate (in_memory=false) needs a private one.
    void PrivateDatadir()
    {
        fs::path d = scratch / fs::u8path(strprintf("d%d", (int)getpid()));
        fs::create_directories(d);
        const_cast<fs::path&>(T.chainman().m_options.datadir) = d;
    }

    enum Res { META_FAIL, ACT_FAIL, ACTIVATED };
    // the loadtxoutset sequence on a file
    Res Attempt(const Bytes& file, bool in_memory, std::string* why = nullptr)
    {
        fs::path p = scratch / fs::u8path(strprintf("snap%d.dat", (int)getpid()));
        {
            FILE* w = fsbridge::fopen(p, "wb");
            if (!w) throw std::runtime_error("C20: cannot write scratch snapshot");
            if (!file.empty() && fwrite(file.data(), 1, file.size(), w) != file.size()) throw std::runtime_error("C20: short write");
            fclose(w);
        }
        AutoFile af{fsbridge::fopen(p, "rb")};
        if (af.IsNull()) throw std::runtime_error("C20: cannot open scratch snapshot");
        node::SnapshotMetadata md{T.chainman().GetParams().MessageStart()};
        try {
            af >> md;
        } catch (const std::ios_base::failure& e) {
            if (why) *why = e.what();
            return META_FAIL;
        }
        auto res = T.chainman().ActivateSnapshot(af, md, in_memory);
        if (!res) { if (why) *why = util::ErrorString(res).original; return ACT_FAIL; }
        return ACTIVATED;
    }

    bool MustFail(const Decoded& d) const
    {
        if (!d.ok) return true;
        if (d.s.base_hash != Bytes(h110.begin(), h110.end())) return true;
        return d.first != orig.first && d.last != orig.first;
    }
};

// Build the structured single-field edits of the original snapshot.
static void StructuredCases(const World& w, std::vector<Case>& out, bool all_coins)
{
    const Snap& o = w.orig.s;
    auto add = [&](const std::string& name, const Snap& s, bool raw = false, size_t rg = 0) { out.push_back({"edit:" + name, Encode(s, raw, rg), false}); };
    auto h = [&](int height) { uint256 x = w.blocks[height].GetHash(); return Bytes(x.begin(), x.end()); };
    { Snap s = o; s.count += 1; add("count+1", s); }
    { Snap s = o; s.count -= 1; add("count-1", s); }
    { Snap s = o; s.count = 0; add("count=0", s); }
    { Snap s = o; s.count = 0; s.groups.clear(); add("count=0,no-coins", s); }
    { Snap s = o; s.count = ~0ULL; add("count=max", s); }
    { Snap s = o; s.base_hash = Bytes(32, 0); add("base=zero", s); }
    { Snap s = o; s.base_hash = Bytes(32, 0); s.base_hash[0] = 1; add("base=one", s); }
    { Snap s = o; s.base_hash = h(109); add("base=block109", s); }
    { Snap s = o; s.base_hash = h(100); add("base=block100", s); }
    { Snap s = o; s.base_hash = h(111); add("base=block111", s); }
    { Snap s = o; std::reverse(s.base_hash.begin(), s.base_hash.end()); add("base=byte-reversed", s); }
    { Snap s = o; uint256 g = Params().GenesisBlock().GetHash(); s.base_hash = Bytes(g.begin(), g.end()); add("base=genesis", s); }
    { Snap s = o; s.version = 1; add("version=1", s); }
    { Snap s = o; s.version = 3; add("version=3", s); }
    { Snap s = o; s.magic[4] = 0xfe; add("magic", s); }
    { Snap s = o; s.netmagic = {0xf9, 0xbe, 0xb4, 0xd9}; add("network=main", s); }
    { Snap s = o; s.netmagic = {0x0a, 0x03, 0xcf, 0x40}; add("network=signet", s); }
    // set-preserving re-encodings (may be accepted)
    { Snap s = o; std::reverse(s.groups.begin(), s.groups.end()); add("order=reversed(same set)", s); }
    { Snap s = o; std::swap(s.groups[0], s.groups[1]); add("order=swap01(same set)", s); }
    { Snap s = o; s.groups.push_back(s.groups[3]); s.count += 1; add("dup-group3-at-end,count+1(same set)", s); }
    { Snap s = o; Group e; e.txid = s.groups[5].txid; s.groups.insert(s.groups.begin() + 2, e); add("empty-group-inserted(same set)", s); }
    { Snap s = o; add("raw-script-encoding-group0(same set)", s, true, 0); }
    // conflicting duplicate: same outpoint twice with different content
    { Snap s = o; Group e = s.groups[3]; e.coins[0].second.amount += 1; s.groups.push_back(e); s.count += 1; add("dup-group3-conflicting-last,count+1", s); }
    { Snap s = o; Group e = s.groups[3]; e.coins[0].second.amount += 1; s.groups.insert(s.groups.begin(), e); s.count += 1; add("dup-group3-conflicting-first,count+1", s); }
    // extra coin with a fresh txid
    for (size_t pos : {(size_t)0, o.groups.size() / 2, o.groups.size()}) {
        Snap s = o;
        Group e = o.groups[0];
        e.txid[0] ^= 0x55; e.txid[31] ^= 0xaa;
        s.groups.insert(s.groups.begin() + pos, e);
        s.count += 1;
        add(strprintf("extra-coin-at-%zu,count+1", pos), s);
        Snap s2 = s; s2.count -= 1;
        add(strprintf("extra-coin-at-%zu,count-kept", pos), s2);
    }
    const size_t N = o.groups.size();
    std::vector<size_t> idx;
    if (all_coins) for (size_t i = 0; i < N; i++) idx.push_back(i);
    else idx = {0, 1, N / 2, N - 2, N - 1};
    for (size_t i = 0; i < N; i++) if (o.groups[i].coins.size() > 1 && std::find(idx.begin(), idx.end(), i) == idx.end()) idx.push_back(i);
    for (size_t i : idx) {
        auto edit = [&](const std::string& what, const std::function<void(Snap&, DCoin&, uint32_t&)>& f) {
            Snap s = o;
            f(s, s.groups[i].coins[0].second, s.groups[i].coins[0].first);
            add(strprintf("coin%zu:%s", i, what), s);
        };
        edit("height+1", [](Snap&, DCoin& c, uint32_t&) { c.height += 1; });
        edit("height-1", [](Snap&, DCoin& c, uint32_t&) { c.height -= 1; });
        edit("height=110", [](Snap&, DCoin& c, uint32_t&) { c.height = c.height == 110 ? 109 : 110; });
        edit("height=111", [](Snap&, DCoin& c, uint32_t&) { c.height = 111; });
        edit("height=0", [](Snap&, DCoin& c, uint32_t&) { c.height = 0; });
        edit("coinbase-bit", [](Snap&, DCoin& c, uint32_t&) { c.cb = !c.cb; });
        edit("amount+1", [](Snap&, DCoin& c, uint32_t&) { c.amount += 1; });
        edit("amount-1", [](Snap&, DCoin& c, uint32_t&) { c.amount = c.amount ? c.amount - 1 : 2; });
        edit("amount=0", [](Snap&, DCoin& c, uint32_t&) { c.amount = c.amount ? 0 : 3; });
        edit("amount=maxmoney+1", [](Snap&, DCoin& c, uint32_t&) { c.amount = 2100000000000000ULL + 1; });
        edit("script-byte1", [](Snap&, DCoin& c, uint32_t&) { c.script[c.script.size() > 1 ? 1 : 0] ^= 1; });
        edit("script-middle-byte", [](Snap&, DCoin& c, uint32_t&) { c.script[c.script.size() / 2] ^= 1; });
        edit("script-last-byte", [](Snap&, DCoin& c, uint32_t&) { c.script.back() ^= 1; });
        edit("script=p2pkh(txid)", [i](Snap& s, DCoin& c, uint32_t&) { Bytes x{0x76, 0xa9, 0x14}; x.insert(x.end(), s.groups[i].txid.begin(), s.groups[i].txid.begin() + 20); x.push_back(0x88); x.push_back(0xac); if (x == c.script) x[5] ^= 1; c.script = x; });
        edit("script=empty", [](Snap&, DCoin& c, uint32_t&) { c.script.clear(); });
        edit("script=raw-form-of-other-type", [](Snap&, DCoin& c, uint32_t&) { c.script = Bytes{0xa9, 0x14, 1, 2, 3, 4, 5, 6, 7, 8, 9, 10, 11, 12, 13, 14, 15, 16, 17, 18, 19, 20, 0x87}; });
        edit("script+opcode", [](Snap&, DCoin& c, uint32_t&) { c.script.push_back(0x51); });
        edit("index+1000", [](Snap&, DCoin&, uint32_t& n) { n += 1000; });
        edit("index=253", [](Snap&, DCoin&, uint32_t& n) { n = 253; });
        edit("txid-bit", [i](Snap& s, DCoin&, uint32_t&) { s.groups[i].txid[7] ^= 0x10; });
        { Snap s = o; s.groups.erase(s.groups.begin() + i); s.count -= 1; add(strprintf("coin%zu:removed,count-1", i), s); }
        { Snap s = o; s.groups.erase(s.groups.begin() + i); add(strprintf("coin%zu:removed,count-kept", i), s); }
        { Snap s = o; auto c = s.groups[i].coins.back(); c.first += 7; s.groups[i].coins.push_back(c); s.count += 1; add(strprintf("coin%zu:output-added,count+1", i), s); }
        if (o.groups[i].coins.size() > 1) {
            { Snap s = o; s.groups[i].coins.pop_back(); s.count -= 1; add(strprintf("coin%zu:last-output-dropped,count-1", i), s); }
            { Snap s = o; s.groups[i].coins.pop_back(); add(strprintf("coin%zu:last-output-dropped,count-kept", i), s); }
            { Snap s = o; std::swap(s.groups[i].coins.front(), s.groups[i].coins.back()); add(strprintf("coin%zu:outputs-swapped(same set)", i), s); }
            { Snap s = o; std::swap(s.groups[i].coins.front().second, s.groups[i].coins.back().second); if (!(s.groups[i].coins.front().second == o.groups[i].coins.front().second)) add(strprintf("coin%zu:output-contents-exchanged", i), s); }
            { Snap s = o; Group g2; g2.txid = s.groups[i].txid; g2.coins.push_back(s.groups[i].coins.back()); s.groups[i].coins.pop_back(); s.groups.insert(s.groups.begin() + i + 1, g2); add(strprintf("coin%zu:group-split(same set)", i), s); }
            { Snap s = o; s.groups[i].coins.back().second.amount += 1; add(strprintf("coin%zu:last-output-amount+1", i), s); }
        }
        { Snap s = o; s.groups[i].coins.clear(); s.count -= 1; add(strprintf("coin%zu:group-emptied,count-1", i), s); }
        { Snap s = o; add(strprintf("coin%zu:raw-script-encoding(same set)", i), s, true, i); }
    }
}

struct Inputs {
    std::string tag;            // prefix of case names / violation keys
    std::vector<CBlock> blocks; // [0] unused, 1..111
    Bytes s100, s110, s111;     // snapshots at heights 100 / 110 / 111 (s100, s111 may be empty: scenarios skipped)
    int64_t last_time{0};
    bool doctored{true};        // run the doctored + re-pointed commitment scenarios
    std::optional<AssumeutxoData> repoint; // overwrite the height-110 assumeutxo entry once the target node exists
};
struct Totals {
    std::map<std::string, uint64_t> counts;
    vx::Distinct rejected_cases;
    bool complete{true};
    std::map<std::string, size_t> flip_offsets, snapshot_bytes;
};

// One campaign: target node for the given chain, all corruptions of in.s110, scenarios. Returns 0, or 2 on a harness error.
static int Campaign(const Inputs& in, const fs::path& scratch, bool big, Totals& tot)
{
    auto& E = vx::ev();
    const std::string& TAG = in.tag;
    const std::vector<CBlock>& blocks = in.blocks;
    const Bytes &s100 = in.s100, &s110 = in.s110, &s111 = in.s111;
    const int64_t last_time = in.last_time;
    // ---------------------------------------------------------------- target node
    // The clock is 3 days past the last block: T stays in initial block download (the situation loadtxoutset is made
    // for). Outside IBD every full flush starts, with probability 1/320, an asynchronous chainstate compaction
    // thread (Chainstate::FlushStateToDisk -> CompactFullAsync), which would make fork() unsound.
    SetMockTime(last_time + 3 * 24 * 3600);
    ck::NodeOpts no;
    ck::Node T(no); // (constructing a node re-creates the global chain parameters)
    if (in.repoint) {
        auto& params = const_cast<CChainParams&>(Params());
        bool set = false;
        for (auto& a : params.m_assumeutxo_data) if (a.height == 110) { a = *in.repoint; set = true; }
        if (!set) { printf("HARNESS-ERROR C20: no assumeutxo entry for height 110\n"); return 2; }
    }
    const auto au = Params().AssumeutxoForHeight(110);
    if (!au || au->blockhash != blocks[110].GetHash()) { printf("HARNESS-ERROR C20: chain %s does not match the assumeutxo block\n", TAG.c_str()); return 2; }
    for (int h = 1; h <= 100; h++) {
        auto r = T.ProcessBlock(blocks[h]);
        if (!r.pnb_ret || T.height() != h) { printf("HARNESS-ERROR C20: target rejected block %d (%s)\n", h, r.reason.c_str()); return 2; }
    }
    auto add_header = [&](int h) {
        BlockValidationState st;
        if (!T.ProcessHeader(blocks[h], st)) throw std::runtime_error("C20: header rejected: " + st.ToString());
    };
    for (int h = 101; h <= 109; h++) add_header(h);
    T.Flush();
    if (!T.chainman().IsInitialBlockDownload()) { printf("HARNESS-ERROR C20: target node left IBD\n"); return 2; }

    const auto mstart = Params().MessageStart();
    World w{T, scratch};
    w.blocks = blocks;
    w.s100 = s100; w.s110 = s110; w.s111 = s111;
    w.netmagic = Bytes(mstart.begin(), mstart.end());
    w.h110 = blocks[110].GetHash();
    w.orig = Decode(s110, w.netmagic);
    if (!w.orig.ok || w.orig.first != w.orig.last) { printf("HARNESS-ERROR C20: reference decoder rejects the genuine snapshot: %s\n", w.orig.err.c_str()); return 2; }
    // cross-checks of the reference side against the commitment in chainparams and against its own encoder
    if (AssumeutxoHash{HashSerializedRef(w.orig.first)} != au->hash_serialized) {
        vx::violation(TAG + ":snapshot-hash-vs-commitment", "the coin set written by the dump code at height 110 does not hash (independent SHA256d over outpoint|code|txout in database order) to the assumeutxo commitment in chainparams", "genuine snapshot");
    }
    if (Encode(w.orig.s) != s110) { printf("HARNESS-ERROR C20: reference encoder does not reproduce the genuine snapshot bytes\n"); return 2; }
    if (TAG == "tc" && (w.orig.s.count != 110 || w.orig.first.size() != 110)) { printf("HARNESS-ERROR C20: unexpected coin count\n"); return 2; }
    E.sample(TAG + strprintf(" genuine snapshot: %zu bytes, %zu coins in %zu txid groups, base %s", s110.size(), w.orig.first.size(), w.orig.s.groups.size(), w.h110.ToString()));

    std::map<std::string, uint64_t> counts;
    vx::Distinct& rejected_cases = tot.rejected_cases;
    bool complete = true;
    auto fold = [&](fp::Pool& pool) {
        for (auto& [k, v] : pool.counts) counts[k] += v;
        for (auto h : pool.distinct["rejected"]) rejected_cases.add(h ^ vx::fnv1a(TAG));
        for (auto& s : pool.samples) E.sample(s);
        if (!pool.complete) complete = false;
    };

    // run `fn` in a throw-away fork (it may change the node), forwarding its output
    auto in_fork = [&](fp::Out& out, const std::string& what, const std::function<void()>& fn) {
        out.send_counts(); // the child must not inherit (and re-send) counters accumulated so far
        out.flush();
        fflush(stdout);
        if (ck::ThreadCount() != 1) {
            {   // name the stray threads (diagnostics)
                std::string names;
                for (const auto& e : std::filesystem::directory_iterator("/proc/self/task")) { std::ifstream c(e.path() / "comm"); std::string n; std::getline(c, n); names += n + " "; }
                out.sample("not single-threaded before fork: " + names);
                fprintf(stderr, "C20: not single-threaded before fork: %s\n", names.c_str());
            }
            out.count("harness_not_single_threaded");
            return; // fork would be unsound
        }
        pid_t g = fork();
        if (g < 0) throw std::runtime_error("C20: fork failed");
        if (g == 0) {
            w.PrivateDatadir();
            fn();
            out.send_counts();
            out.flush();
            fflush(stdout);
            _exit(0);
        }
        int st = 0;
        while (waitpid(g, &st, 0) < 0 && errno == EINTR) {}
        if (!WIFEXITED(st) || WEXITSTATUS(st) != 0) out.violation(TAG + ":" + "process-died:" + what, "the process died abnormally while running: " + what, what);
    };

    // ---------------------------------------------------------------- scenario: base header unknown (before header 110 is added)
    {
        fp::Pool pool;
        pool.workers = 1;
        pool.run(1, [&](uint64_t, fp::Out& out) {
            in_fork(out, "scenario:unknown-base-header", [&] {
                auto before = w.Observe();
                std::string why;
                auto r = w.Attempt(s110, false, &why);
                out.count("scenario_cases");
                if (r == World::ACTIVATED) out.violation(TAG + ":" + "scenario:unknown-base-header", "snapshot activated although the node does not know the base block header", "scenario unknown-base-header");
                else { out.count("scenario_rejected"); out.distinct("rejected", "scenario:unknown-base-header"); }
                std::string d = World::Diff(before, w.Observe());
                if (r != World::ACTIVATED && !d.empty()) out.violation(TAG + ":" + "scenario:unknown-base-header:state", "failed activation changed the node:" + d, "scenario unknown-base-header");
            });
        }, [](uint64_t) { return std::string("scenario unknown-base-header"); });
        fold(pool);
    }
    add_header(110);
    T.Flush();

    // ---------------------------------------------------------------- enumerated corruptions
    std::vector<Case> cases;      // explicit files
    StructuredCases(w, cases, /*all_coins=*/false);                // on-disk snapshot chainstate, each in its own fork
    if (big) {
        std::vector<Case> mem;
        StructuredCases(w, mem, /*all_coins=*/true);               // in-memory, sequential
        for (auto& c : mem) { c.in_memory = true; c.name += ":mem"; cases.push_back(std::move(c)); }
    }
    for (int k = 1; k <= 3; k++) for (unsigned char fill : {0x00, 0xff}) { Case c{strprintf("append:%d:%02x", k, fill), s110, true}; c.file.insert(c.file.end(), k, fill); cases.push_back(c); }
    // flips and truncations are generated from their index
    std::vector<size_t> flip_offsets;
    if (big) for (size_t i = 0; i < s110.size(); i++) flip_offsets.push_back(i);
    else {
        // quick: whole metadata header, the first 3 and the last coin record
        size_t rec = (s110.size() - 51) / w.orig.first.size() + 1;
        for (size_t i = 0; i < 51 + 3 * rec && i < s110.size(); i++) flip_offsets.push_back(i);
        for (size_t i = s110.size() - rec; i < s110.size(); i++) flip_offsets.push_back(i);
    }
    if (const char* e = getenv("C20_ALLFLIPS")) { (void)e; flip_offsets.clear(); for (size_t i = 0; i < s110.size(); i++) flip_offsets.push_back(i); }
    const uint64_t n_flip = flip_offsets.size() * 2, n_trunc = s110.size(), n_explicit = cases.size();
    const uint64_t total = n_flip + n_trunc + n_explicit;
    auto make = [&](uint64_t j) -> Case {
        if (j < n_flip) { size_t off = flip_offsets[j / 2]; unsigned char m = (j & 1) ? 0x80 : 0x01; Case c{strprintf("flip:%zu:%02x", off, m), s110, true}; c.file[off] ^= m; return c; }
        j -= n_flip;
        if (j < n_trunc) { Case c{strprintf("truncate:%llu", (unsigned long long)j), Bytes(s110.begin(), s110.begin() + j), true}; return c; }
        j -= n_trunc;
        return cases[j];
    };
    const uint64_t BATCH = 512;
    // Two passes over the same case list. Pass 0 (workers may fork): every case whose rejection is tested with an
    // in-memory snapshot chainstate, and every set-preserving case (run in a fork). Pass 1 (workers never fork, an
    // on-disk LevelDB may start a helper thread): the must-fail cases with an on-disk snapshot chainstate.
    for (int pass = 0; pass < 2; pass++) {
        fp::Pool pool;
        pool.workers = 8;
        // every batch runs in a fresh fork of an untouched worker: thousands of (failed) activations in one process
        // eventually make an in-memory LevelDB schedule a compaction, i.e. start a thread, after which the
        // set-preserving cases could no longer be forked soundly
        pool.isolate_jobs = pass == 0; // pass 1 never forks
        pool.on_worker_start = [&](unsigned) { w.PrivateDatadir(); };
        pool.run((total + BATCH - 1) / BATCH, [&](uint64_t job, fp::Out& out) {
            World::State base = w.Observe();
            for (uint64_t j = job * BATCH; j < std::min(total, (job + 1) * BATCH); j++) {
                Case c = make(j);
                Decoded d = Decode(c.file, w.netmagic);
                const bool must_fail = w.MustFail(d);
                if ((must_fail && !c.in_memory) != (pass == 1)) continue;
                out.count("cases");
                const std::string replay = "case " + c.name + "\nfile hex: " + vx::hex(c.file).substr(0, 20000);
                if (must_fail) {
                    std::string why;
                    auto r = w.Attempt(c.file, c.in_memory, &why);
                    if (r == World::ACTIVATED) {
                        std::string kind = c.name.substr(0, c.name.find(':'));
                        out.violation(TAG + ":" + "activated:" + (kind == "edit" ? c.name : kind + ":" + (d.ok ? std::string("set-differs") : d.err)),
                                      "ActivateSnapshot succeeded for a file whose " + (d.ok ? std::string("decoded coin set / base block differs from the commitment") : "encoding is malformed (" + d.err + ")") + ": " + c.name, replay);
                        out.count("worker_gave_up");
                        out.send_counts();
                        out.flush();
                        _exit(0); // the node now runs on the bad snapshot: this process cannot continue
                    }
                    out.count(r == World::META_FAIL ? "rejected_at_metadata" : "rejected_by_activate");
                    if (!c.in_memory) out.count("rejected_on_disk");
                    out.distinct("rejected", c.name);
                    World::State now = w.Observe();
                    std::string diff = World::Diff(base, now);
                    if (!diff.empty()) {
                        out.violation(TAG + ":" + "state-changed-after-failure:" + c.name.substr(0, c.name.find(':')), "failed activation (" + why + ") changed the node:" + diff + " — case " + c.name, replay);
                        out.count("worker_gave_up");
                        out.send_counts();
                        out.flush();
                        _exit(0);
                    }
                } else {
                    // identical coin set and base block: acceptance is allowed; run in a fork and check the result
                    in_fork(out, c.name, [&] {
                        std::string why;
                        auto r = w.Attempt(c.file, c.in_memory, &why);
                        out.count("same_set_cases");
                        if (r == World::ACTIVATED) {
                            out.count("same_set_accepted");
                            CoinMap got = NodeUtxo(w.T);
                            if (got != w.orig.first) out.violation(TAG + ":" + "accepted-set-differs:" + c.name, "after an accepted activation the active UTXO set is not the committed coin set: " + c.name, replay);
                            if (w.T.tip()->GetBlockHash() != w.h110) out.violation(TAG + ":" + "accepted-tip:" + c.name, "after an accepted activation the tip is not the base block", replay);
                        } else {
                            out.count("same_set_rejected");
                            std::string diff = World::Diff(base, w.Observe());
                            if (!diff.empty()) out.violation(TAG + ":" + "state-changed-after-failure:same-set", "failed activation (" + why + ") changed the node:" + diff + " — case " + c.name, replay);
                        }
                        out.sample(TAG + " same-set file " + c.name + " -> " + (r == World::ACTIVATED ? "accepted" : "rejected: " + why));
                    });
                }
            }
        }, [&](uint64_t job) { return strprintf("cases %llu..%llu (first: %s)", (unsigned long long)(job * BATCH), (unsigned long long)std::min(total, (job + 1) * BATCH) - 1, make(job * BATCH).name); });
        fold(pool);
    }

    // ---------------------------------------------------------------- scenarios and background validation (each in a fork)
    struct Scen { std::string name; std::function<void(fp::Out&)> run; };
    std::vector<Scen> scens;
    auto expect_reject = [&](fp::Out& out, const std::string& name, const Bytes& file, const std::string& what, bool in_memory = false) {
        auto before = w.Observe();
        std::string why;
        auto r = w.Attempt(file, in_memory, &why);
        out.count("scenario_cases");
        if (r == World::ACTIVATED) { out.violation(TAG + ":" + "scenario:" + name, "snapshot activated although " + what, "scenario " + name); return; }
        out.count("scenario_rejected");
        out.distinct("rejected", "scenario:" + name);
        std::string d = World::Diff(before, w.Observe());
        if (!d.empty()) out.violation(TAG + ":" + "scenario:" + name + ":state", "failed activation (" + why + ") changed the node:" + d, "scenario " + name);
    };
    auto feed = [&](int from, int to) { for (int h = from; h <= to; h++) T.ProcessBlock(blocks[h]); };
    if (!s100.empty()) scens.push_back({"non-assumeutxo-height-100", [&](fp::Out& o) { expect_reject(o, "non-assumeutxo-height-100", s100, "its base block (height 100) is not an assumeutxo block"); }});
    if (!s111.empty()) scens.push_back({"non-assumeutxo-height-111", [&](fp::Out& o) { add_header(111); expect_reject(o, "non-assumeutxo-height-111", s111, "its base block (height 111) is not an assumeutxo block"); }});
    scens.push_back({"base-marked-invalid", [&](fp::Out& o) { if (!T.Invalidate(blocks[110].GetHash())) throw std::runtime_error("invalidate"); expect_reject(o, "base-marked-invalid", s110, "its base block is marked invalid"); }});
    scens.push_back({"base-ancestor-marked-invalid", [&](fp::Out& o) { if (!T.Invalidate(blocks[105].GetHash())) throw std::runtime_error("invalidate"); expect_reject(o, "base-ancestor-marked-invalid", s110, "an ancestor of its base block is marked invalid"); }});
    scens.push_back({"equal-work-tip-at-base", [&](fp::Out& o) { feed(101, 110); if (T.height() != 110) throw std::runtime_error("feed"); expect_reject(o, "equal-work-tip-at-base", s110, "the active tip already is the base block (no more work)"); }});
    // A different block at the committed height that leaves the identical UTXO set: block 110's transactions under
    // another header (time + 1, new nonce), made the most-work header chain by one child header. The genuine coin
    // data with this twin named as base must be refused: the commitment is to the block hash, not to the height.
    scens.push_back({"twin-block-at-committed-height", [&](fp::Out& o) {
        CBlock tw = blocks[110];
        tw.nTime += 1;
        tw.nNonce = 0;
        ck::Grind(tw, Params().GetConsensus());
        CBlockHeader child;
        child.nVersion = tw.nVersion;
        child.hashPrevBlock = tw.GetHash();
        child.hashMerkleRoot = uint256{7};
        child.nTime = tw.nTime + 1;
        child.nBits = tw.nBits;
        child.nNonce = 0;
        ck::Grind(child, Params().GetConsensus());
        BlockValidationState st1, st2;
        if (tw.GetHash() == blocks[110].GetHash() || !T.ProcessHeader(tw, st1) || !T.ProcessHeader(child, st2)) throw std::runtime_error("C20: twin headers rejected: " + st1.ToString() + " " + st2.ToString());
        {
            LOCK(cs_main);
            const CBlockIndex* twi = T.chainman().m_blockman.LookupBlockIndex(tw.GetHash());
            if (!twi || twi->nHeight != 110 || !T.chainman().m_best_header || T.chainman().m_best_header->GetBlockHash() != child.GetHash()) throw std::runtime_error("C20: twin chain is not the best header chain");
        }
        Snap s = w.orig.s;
        uint256 th = tw.GetHash();
        s.base_hash = Bytes(th.begin(), th.end());
        Bytes file = Encode(s);
        const std::string what = "its base is a different block at the assumeutxo height (same transactions and UTXO set, other header), not the committed block";
        expect_reject(o, "twin-block-at-committed-height:mem", file, what, true);
        expect_reject(o, "twin-block-at-committed-height:disk", file, what, false);
    }});
    scens.push_back({"less-work-than-tip", [&](fp::Out& o) { feed(101, 111); if (T.height() != 111) throw std::runtime_error("feed"); expect_reject(o, "less-work-than-tip", s110, "the active tip has more work than the base block"); }});
    // positive control + second activation + background validation of the genuine snapshot
    scens.push_back({"genuine-then-background-validation", [&](fp::Out& o) {
        auto before = w.Observe();
        std::string why;
        auto r = w.Attempt(s110, false, &why);
        o.count("scenario_cases");
        if (r != World::ACTIVATED) { o.violation(TAG + ":" + "genuine-rejected", "the genuine snapshot was rejected: " + why, "scenario genuine"); return; }
        o.count("genuine_accepted");
        if (NodeUtxo(T) != w.orig.first || T.tip()->GetBlockHash() != w.h110) o.violation(TAG + ":" + "genuine-active-set", "after activating the genuine snapshot the active chainstate is not (block 110, committed coin set)", "scenario genuine");
        { LOCK(cs_main); if (T.chainman().m_chainstates.size() != 2) o.violation(TAG + ":" + "genuine-chainstates", "expected two chainstates after activation", "scenario genuine"); }
        // second activation must fail and change nothing
        expect_reject(o, "second-activation", s110, "a snapshot chainstate is already active");
        // background validation: feed the historical blocks
        feed(101, 110);
        LOCK(cs_main);
        auto& cur = T.chainman().CurrentChainstate();
        bool validated = cur.m_from_snapshot_blockhash && cur.m_assumeutxo == Assumeutxo::VALIDATED;
        if (!validated || (bool)T.m_interrupt) o.violation(TAG + ":" + "background-validation-genuine", "background validation of the genuine snapshot did not report success", "scenario genuine + blocks 101..110");
        else o.count("background_validated");
        (void)before;
    }});
    // doctored but self-consistent snapshots: commitment re-pointed (harness side) at the doctored set
    struct Doc { std::string name; std::function<void(Snap&)> f; };
    std::vector<Doc> docs = {
        {"amount+1", [](Snap& s) { s.groups[7].coins[0].second.amount += 1; }},
        {"height-1", [](Snap& s) { s.groups[7].coins[0].second.height -= 1; }},
        {"coinbase-bit", [](Snap& s) { s.groups[7].coins[0].second.cb = false; }},
        {"script-byte", [](Snap& s) { s.groups[7].coins[0].second.script[20] ^= 4; }},
        {"coin-removed", [](Snap& s) { s.groups.erase(s.groups.begin() + 7); s.count -= 1; }},
        {"coin-added", [](Snap& s) { Group e = s.groups[7]; e.txid[3] ^= 0x77; s.groups.push_back(e); s.count += 1; }},
    };
    if (!in.doctored) docs.clear();
    for (auto& dc : docs) {
        scens.push_back({"doctored:" + dc.name, [&, dc](fp::Out& o) {
            Snap s = w.orig.s;
            dc.f(s);
            Bytes file = Encode(s);
            Decoded d = Decode(file, w.netmagic);
            if (!d.ok) throw std::runtime_error("doctored snapshot does not decode");
            o.count("scenario_cases");
            // without re-pointing it must be rejected (also covered by the structured edits)
            {
                auto before = w.Observe();
                auto r0 = w.Attempt(file, false);
                if (r0 == World::ACTIVATED) { o.violation(TAG + ":" + "doctored-accepted:" + dc.name, "doctored snapshot accepted against the genuine commitment", "scenario doctored " + dc.name); return; }
                std::string df = World::Diff(before, w.Observe());
                if (!df.empty()) o.violation(TAG + ":" + "doctored-state:" + dc.name, "failed activation changed the node:" + df, "scenario doctored " + dc.name);
            }
            auto& params = const_cast<CChainParams&>(Params());
            for (auto& a : params.m_assumeutxo_data) if (a.height == 110) a.hash_serialized = AssumeutxoHash{HashSerializedRef(d.first)};
            std::string why;
            auto r = w.Attempt(file, false, &why);
            if (r != World::ACTIVATED) { o.violation(TAG + ":" + "harness-doctored-not-accepted:" + dc.name, "a self-consistent snapshot was rejected although the commitment was re-pointed at the reference hash of its coin set: " + why, "scenario doctored " + dc.name); return; }
            o.count("doctored_accepted_after_repoint");
            feed(101, 110);
            LOCK(cs_main);
            bool snapshot_invalid = false, still_trusted = false;
            for (auto& cs : T.chainman().m_chainstates) {
                if (cs && cs->m_from_snapshot_blockhash) {
                    if (cs->m_assumeutxo == Assumeutxo::INVALID) snapshot_invalid = true;
                    if (cs->m_assumeutxo == Assumeutxo::VALIDATED) still_trusted = true;
                }
            }
            if (!snapshot_invalid || still_trusted || !(bool)T.m_interrupt)
                o.violation(TAG + ":" + "background-validation-missed:" + dc.name, "background validation reached the base block with a UTXO set that differs from the loaded (doctored) snapshot but did not report the mismatch", "scenario doctored " + dc.name + " + blocks 101..110");
            else { o.count("background_mismatch_detected"); o.distinct("rejected", "doctored-bg:" + dc.name); }
        }});
    }
    {
        fp::Pool pool;
        pool.workers = 4;
        pool.run(scens.size(), [&](uint64_t j, fp::Out& out) { in_fork(out, "scenario " + scens[j].name, [&] { scens[j].run(out); }); }, [&](uint64_t j) { return "scenario " + scens[j].name; });
        fold(pool);
    }

    for (auto& [k, v] : counts) tot.counts[TAG + "." + k] += v;
    tot.flip_offsets[TAG] = flip_offsets.size();
    tot.snapshot_bytes[TAG] = s110.size();
    if (!complete) tot.complete = false;
    return 0;
}


// A transaction-rich 111-block chain built with chainkit, dumped with the real dump code at height 110. The regtest
// assumeutxo entry for height 110 is then re-pointed (harness side) at this chain: block hash of its block 110,
// transaction count, and the *reference* hash of the decoded dump. That the genuine dump then activates and that
// background validation of blocks 1..110 confirms it is the cross-check of ComputeUTXOStats / the loader against the
// independent hash on a set with several outputs per txid, spent siblings, non-coinbase coins, 3-byte output
// indices, zero amounts and every compressed script form except uncompressed keys.
static int BuildRichWorld(Inputs& in, const fs::path& scratch)
{
    using namespace ck;
    SetMockTime((int64_t)Params().GenesisBlock().nTime + 600 * 112 + 3 * 24 * 3600); // the source node stays in IBD too (no compaction thread)
    Node S{NodeOpts{}};
    const CBlock& genesis = Params().GenesisBlock(); // after the node: its constructor re-creates the chain parameters
    RefLedger L;
    L.AddGenesis(genesis);
    MineEmpty(S, L, 101);
    auto cb = [&](int h) { const CBlock& b = L.blocks.at(L.Chain(S.tip()->GetBlockHash())[h]).block; return std::make_pair(COutPoint(b.vtx[0]->GetHash(), 0), b.vtx[0]->vout[0].nValue); };
    auto mine = [&](const std::vector<CTransactionRef>& txs) {
        BlockOpts o;
        auto f = L.Fees(S.tip()->GetBlockHash(), txs);
        if (!f) throw std::runtime_error("C20: rich chain: bad tx");
        o.fees = *f;
        CBlock b = MakeBlock(S, S.tip(), txs, o);
        L.Add(b);
        auto r = S.ProcessBlock(b);
        if (!r.pnb_ret || S.tip()->GetBlockHash() != b.GetHash()) throw std::runtime_error("C20: rich chain: block rejected: " + r.reason);
    };
    auto bytes20 = [](unsigned char v) { std::vector<unsigned char> x(20); for (int i = 0; i < 20; i++) x[i] = v + 3 * i; return x; };
    auto key33 = [](unsigned char prefix, unsigned char v) { std::vector<unsigned char> x(33); x[0] = prefix; for (int i = 1; i < 33; i++) x[i] = v + 5 * i; return x; };
    const CScript p2pkh = CScript() << OP_DUP << OP_HASH160 << bytes20(0x11) << OP_EQUALVERIFY << OP_CHECKSIG;
    const CScript p2sh = CScript() << OP_HASH160 << bytes20(0x77) << OP_EQUAL;
    const CScript p2pk2 = CScript() << key33(0x02, 0x21) << OP_CHECKSIG;
    const CScript p2pk3 = CScript() << key33(0x03, 0x42) << OP_CHECKSIG;
    const CScript bare_true = CScript() << OP_TRUE;
    const CScript longish = CScript() << std::vector<unsigned char>(200, 0xab) << OP_DROP << OP_TRUE;
    const CScript opret = CScript() << OP_RETURN << std::vector<unsigned char>{1, 2, 3};
    {   // block 102: one tx with every script form; outputs 0 and 5 get spent in block 103, output 7 is unspendable
        auto [op, v] = cb(1);
        CAmount part = v / 10;
        auto A = MakeTransactionRef(MakeTx({{op}}, {{part, OpTrueSpk()}, {part, p2pkh}, {part, p2sh}, {part + 1, p2pk2}, {part + 22, p2pk3}, {part, bare_true}, {part - 23, longish}, {0, opret}, {0, OpTrueSpk()}, {v - 7 * part, p2pkh}}));
        mine({A});
        auto B = MakeTransactionRef(MakeTx({{COutPoint(A->GetHash(), 0)}, {COutPoint(A->GetHash(), 5), 0xffffffff, false}}, {{part, OpTrueSpk()}, {part, p2sh}}));
        mine({B});
    }
    {   // block 104: 260 outputs, only the last one (index 259: 3-byte CompactSize) is spendable
        auto [op, v] = cb(2);
        std::vector<TxOut> outs(259, TxOut{0, opret});
        outs.push_back({v, OpTrueSpk()});
        mine({MakeTransactionRef(MakeTx({{op}}, outs))});
    }
    {   // block 105: parent and child in one block, the child spends the middle output
        auto [op, v] = cb(3);
        auto D = MakeTransactionRef(MakeTx({{op}}, {{v / 3, OpTrueSpk()}, {v / 3, OpTrueSpk()}, {v - 2 * (v / 3), p2pk2}}));
        auto Etx = MakeTransactionRef(MakeTx({{COutPoint(D->GetHash(), 1)}}, {{v / 3 - 1000, p2pkh}}));
        mine({D, Etx});
    }
    MineEmpty(S, L, 6); // 106..111
    if (S.height() != 111) throw std::runtime_error("C20: rich chain height");
    std::vector<uint256> chain = L.Chain(S.tip()->GetBlockHash());
    in.blocks.assign(1, CBlock{});
    uint64_t txcount = 1;
    for (int h = 1; h <= 111; h++) { in.blocks.push_back(L.blocks.at(chain[h]).block); if (h <= 110) txcount += in.blocks[h].vtx.size(); }
    in.last_time = in.blocks[111].GetBlockTime();
    // dump at height 110: take block 111 off again
    if (!S.Invalidate(chain[111]) || S.height() != 110) throw std::runtime_error("C20: rich chain: cannot step back to 110");
    fs::path p = scratch / "rich110.dat";
    {
        AutoFile out{fsbridge::fopen(p, "wb")};
        CreateUTXOSnapshot(S.m_node, S.cs(), std::move(out), p, p);
    }
    FILE* f = fsbridge::fopen(p, "rb");
    int c;
    while ((c = fgetc(f)) != EOF) in.s110.push_back((unsigned char)c);
    fclose(f);
    const auto mstart = Params().MessageStart();
    Decoded d = Decode(in.s110, Bytes(mstart.begin(), mstart.end()));
    if (!d.ok) { printf("HARNESS-ERROR C20: reference decoder rejects the rich dump: %s\n", d.err.c_str()); return 2; }
    // the dump must be the reference ledger's UTXO set at block 110
    auto ref = L.UtxoAt(chain[110]);
    bool same = ref && ref->size() == d.first.size();
    if (same) for (auto& [op, rc] : *ref) {
        OutKey k;
        const uint256& u = op.hash.ToUint256();
        std::copy(u.begin(), u.end(), k.first.begin());
        k.second = op.n;
        auto it = d.first.find(k);
        if (it == d.first.end() || it->second.amount != (uint64_t)rc.value || (int)it->second.height != rc.height || it->second.cb != rc.coinbase || it->second.script != Bytes(rc.spk.begin(), rc.spk.end())) { same = false; break; }
    }
    if (!same) vx::violation("rich:dump-vs-ledger", "the snapshot written by the dump code is not the UTXO set of the reference ledger at block 110", "rich chain dump");
    in.repoint = AssumeutxoData{.height = 110, .hash_serialized = AssumeutxoHash{HashSerializedRef(d.first)}, .m_chain_tx_count = txcount, .blockhash = chain[110]};
    size_t multi = 0;
    for (auto& g : d.s.groups) multi += g.coins.size() > 1;
    vx::ev().sample(strprintf("rich snapshot: %zu bytes, %zu coins in %zu txid groups (%zu with several outputs)", in.s110.size(), d.first.size(), d.s.groups.size(), multi));
    return 0;
}

static int Run();
int main(int argc, char** argv)
{
    vx::init(argc, argv, "C20", "fault_enumeration");
    return fp::guarded(Run, "C20 main process (node setup / read-level enumeration)");
}
static int Run()
{
    if (!vx::ctx().replay.empty()) {
        // a replay file names one case (and carries the file bytes); the enumeration is cheap, so the whole check is re-run
        std::ifstream f(vx::ctx().replay);
        std::string l;
        while (std::getline(f, l)) printf("replay> %s\n", l.substr(0, 400).c_str());
    }
    setenv("RANDOM_CTX_SEED", "c20c20c20c20", 1);
    auto& E = vx::ev();
    const bool big = vx::thorough();
    std::string sroot = vx::scratch_dir() + "/C20-" + std::to_string(getpid());
    fs::path scratch = fs::PathFromString(sroot);
    fs::create_directories(scratch);
    struct Cleanup { fs::path p; ~Cleanup() { std::error_code ec; std::filesystem::remove_all(p, ec); } } cleanup{scratch};

    // ---------------------------------------------------------------- source chain and snapshots (real dump code)
    std::vector<CBlock> blocks(1);
    Bytes s100, s110, s111;
    int64_t last_time = 0;
    {
        TestChain100Setup src{ChainType::REGTEST, TestOpts{.extra_args = {"-nodebuglogfile", "-debug=0"}}};
        auto dump = [&](const char* name) {
            fs::path p = scratch / name;
            AutoFile out{fsbridge::fopen(p, "wb")};
            CreateUTXOSnapshot(src.m_node, src.m_node.chainman->ActiveChainstate(), std::move(out), p, p);
            Bytes b;
            FILE* f = fsbridge::fopen(p, "rb");
            int c;
            while ((c = fgetc(f)) != EOF) b.push_back((unsigned char)c);
            fclose(f);
            return b;
        };
        s100 = dump("s100.dat");
        src.mineBlocks(10);
        s110 = dump("s110.dat");
        src.mineBlocks(1);
        s111 = dump("s111.dat");
        LOCK(cs_main);
        auto& cm = *src.m_node.chainman;
        for (int h = 1; h <= 111; h++) {
            CBlock b;
            if (!cm.m_blockman.ReadBlock(b, *cm.ActiveChain()[h])) throw std::runtime_error("C20: cannot read source block");
            blocks.push_back(b);
        }
        last_time = blocks[111].GetBlockTime();
    }
    if (ck::ThreadCount() != 1) { printf("HARNESS-ERROR C20: source setup left threads behind\n"); return 2; }
    const auto au = Params().AssumeutxoForHeight(110);
    if (!au || au->blockhash != blocks[110].GetHash()) { printf("HARNESS-ERROR C20: source chain does not match the regtest assumeutxo block\n"); return 2; }

    Totals tot;
    {
        Inputs in;
        in.tag = "tc";
        in.blocks = blocks; in.s100 = s100; in.s110 = s110; in.s111 = s111; in.last_time = last_time; in.doctored = true;
        if (int rc = Campaign(in, scratch, big, tot)) return rc;
    }
    if (ck::ThreadCount() != 1) { printf("HARNESS-ERROR C20: campaign left threads behind\n"); return 2; }
    // ---------------------------------------------------------------- second world: a transaction-rich chain, commitment re-pointed
    {
        Inputs in;
        in.tag = "rich";
        in.doctored = false;
        if (int rc = BuildRichWorld(in, scratch)) return rc;
        if (ck::ThreadCount() != 1) { printf("HARNESS-ERROR C20: rich source node left threads behind\n"); return 2; }
        if (int rc = Campaign(in, scratch, big, tot)) return rc;
    }
    auto& counts = tot.counts;
    auto& rejected_cases = tot.rejected_cases;
    const bool complete = tot.complete;
    // ---------------------------------------------------------------- evidence
    E.evaluations += counts["tc.cases"] + counts["tc.scenario_cases"] + counts["rich.cases"] + counts["rich.scenario_cases"];
    E.distinct_nontrivial = rejected_cases.size();
    E.exhaustive = complete;
    for (auto& [k, v] : counts) { printf("  %s = %llu\n", k.c_str(), (unsigned long long)v); E.set(k, v); }
    for (auto& [k, v] : tot.snapshot_bytes) E.set("snapshot_bytes." + k, (uint64_t)v);
    for (auto& [k, v] : tot.flip_offsets) E.set("flip_offsets." + k, (uint64_t)v);
    E.rule = std::string("two valid regtest snapshots written by the real dump code at height 110: 'tc' = the TestChain100Setup chain (genuine chainparams commitment, 110 coinbase coins), 'rich' = a chainkit chain with multi-output txids, spent siblings, non-coinbase coins, a 3-byte output index, zero amounts and every compressed script form but uncompressed keys (commitment re-pointed at the reference hash of the dump). Cases per snapshot: ") + (big ? "every byte" : "every byte of the metadata header, of the first ~3 and of the last coin record") +
             " x {xor 0x01, xor 0x80}; every truncation length 0..size-1; 1-3 appended bytes (00/ff); structured single-field edits (count, base hash, version, magics; per coin " + (big ? "(all txid groups)" : "(5 groups + every multi-output group)") +
             ": height, coinbase bit, amount, script, index, txid, removed, added / dropped / swapped / exchanged outputs, emptied or split group; extra / duplicated / conflicting-duplicate / reordered / re-encoded coins); scenarios (unknown base header, non-assumeutxo heights 100 and 111 [tc], a twin of block 110 (same transactions, other header) on the best header chain named as base [in-memory and on-disk], invalid base, invalid ancestor, equal work, less work, second activation, genuine snapshot + background validation of blocks 101..110, 6 doctored self-consistent snapshots with re-pointed commitment + background validation [tc]). "
             "Each case = real SnapshotMetadata deserialisation + ChainstateManager::ActivateSnapshot on a live regtest node in IBD. distinct_nontrivial = distinct cases that had to be rejected and were (with tip, chainstates, active UTXO set and datadir verified unchanged).";
    E.assume("the reference decoder treats the uncompressed-public-key script forms (types 4/5) as opaque; the snapshots used contain none");
    E.assume("SHA256d collisions are not reachable by the enumerated edits");
    E.assume("for the 'rich' world and the doctored scenarios the assumeutxo entry of height 110 in the in-memory CChainParams is overwritten by the harness (no source change)");
    auto need = [&](bool c, const std::string& what) { if (!c && vx::rep().violations == 0) { printf("HARNESS-ERROR C20 vacuous: %s\n", what.c_str()); return false; } return true; };
    bool g = true;
    for (std::string t : {"tc", "rich"}) {
        g &= need(counts[t + ".rejected_at_metadata"] > 0 && counts[t + ".rejected_by_activate"] > 0 && counts[t + ".rejected_on_disk"] > 0, t + ": every rejection stage must occur");
        g &= need(counts[t + ".same_set_accepted"] > 0, t + ": no set-preserving re-encoding was accepted (positive path never taken)");
        g &= need(counts[t + ".genuine_accepted"] == 1 && counts[t + ".background_validated"] == 1, t + ": genuine snapshot + background validation did not succeed");
        g &= need(counts[t + ".scenario_rejected"] >= (t == "tc" ? 10u : 8u), t + ": scenarios missing");
        if (counts[t + ".harness_not_single_threaded"]) { printf("HARNESS-ERROR C20: a process that had to fork was not single-threaded (%s)\n", t.c_str()); g = false; }
    }
    g &= need(counts["tc.background_mismatch_detected"] == 6, "not every doctored snapshot was caught by background validation");
    int rc = vx::finish();
    // the gates describe a complete run; a run cut by the wall-clock deadline (exhaustive=false) is not a harness error
    if (!g && rc == 0 && complete && !vx::deadline_reached()) return 2;
    return rc;
}
