LINK := full
KITS := chainkit
